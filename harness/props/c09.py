"""C09 -- token classification follows the CSS token grammar.

proof:          coq/props/C09.v over the shared tokenizer model (coq/theories/Tokenizer.v running the
                regenerated productions): first_char_dispatch, cls_star_maximal, per-class first-token
                lemmas, lexeme_sequence, atkeyword_lookup_normalized, hex_escape_resolved; finite sweeps
                for URI / UNICODE-RANGE / FUNCTION-vs-IDENT
tie:            translate/tokenizer.py regenerates productions + tables; Tokenizer().tokenize is compared
                with the extracted model (build/ocaml/tok) on every generated lexeme sequence
oracle/search:  lexeme generators whose (type, value) is known by construction (mirroring the lexeme
                classes of coq/theories/Lexemes.v) joined through the adjacency rule `ok_follow`;
                the implementation's [(type, value)] must equal the constructed classification
"""
import itertools
import json
import re
import time

from harness.lib import cps, VERIF

WS = " \t\r\n\f"
HEXD = "0123456789abcdefABCDEF"
DIG = "0123456789"
TERMS = ["", " ", "\t", "\n", "\r", "\f", "\r\n"]
MAXUNI = 0x10FFFF
ATSYMS = {"@font-face": "FONT_FACE_SYM", "@import": "IMPORT_SYM", "@media": "MEDIA_SYM",
          "@namespace": "NAMESPACE_SYM", "@page": "PAGE_SYM", "@variables": "VARIABLES_SYM"}
NONASCII = ["\xe9", " ", "Ā", "中", "\U0001F600", "\x80", "﻿", "K", "İ"]
U_MACRO = re.compile(r"(?:[uU]|\\0{0,4}[57]5(?:\r\n|[ \t\r\n\f])?|\\[uU])\Z")


# ------------------------------------------------------------------ elements (Lexemes.v: nmel)
# ("P", c) plain character   ("H", digits, term) hexadecimal escape   ("L", c) literal escape \c
# ("N", nl) escaped newline (strings only)
def render(els):
    out = []
    for e in els:
        if e[0] == "P":
            out.append(e[1])
        elif e[0] == "H":
            out.append("\\" + e[1] + e[2])
        elif e[0] == "L":
            out.append("\\" + e[1])
        else:
            out.append("\\" + e[1])
    return "".join(out)


def denote(els, clean):
    """what the grammar says the resolved text is: hex escapes -> the character (kept verbatim beyond
    U+10FFFF), literal escapes verbatim, escaped newlines dropped where `clean` (STRING)"""
    out = []
    for e in els:
        if e[0] == "P":
            out.append(e[1])
        elif e[0] == "H":
            n = int(e[1], 16)
            out.append(chr(n) if n <= MAXUNI else "\\" + e[1] + e[2])
        elif e[0] == "L":
            out.append("\\" + e[1])
        else:
            out.append("" if clean else "\\" + e[1])
    return "".join(out)


def fix_hex(els, nxt_default=None):
    """make every unterminated hex escape inside the list canonical (it must not be followed by white
    space, nor by a hex digit when it has < 6 digits): add a terminator where the next character would
    be swallowed.  Returns (els, open_hex) where open_hex = digit count of a trailing unterminated escape."""
    els = list(els)
    for i, e in enumerate(els):
        if e[0] == "H" and e[2] in ("", "\r"):
            nxt = render(els[i + 1:i + 2])[:1] if i + 1 < len(els) else ""
            if e[2] == "\r":
                if nxt == "\n":
                    els[i] = ("H", e[1], "\r\n")
                continue
            if nxt and (nxt in WS or (len(e[1]) < 6 and nxt in HEXD)):
                els[i] = ("H", e[1], " ")
    last = els[-1] if els else None
    open_hex = len(last[1]) if last and last[0] == "H" and last[2] == "" else 0
    cr_end = bool(last and last[0] in ("H", "N") and last[-1] == "\r")
    return els, open_hex, cr_end


def gen_hex(rng, cp=None):
    if cp is None:
        cp = rng.choice([0x41, 0x61, 0x7a, 0x30, 0x20, 0x5c, 0x22, 0x27, 0x28, 0x29, 0xa, 0x0, 0xe9, 0x4e2d, 0x1F600,
                         0xd800, 0x10FFFF, 0x110000, 0xFFFFFF, 0x2d, 0x2a, 0x2f, rng.randrange(0, 0x3000)])
    h = "%x" % cp
    if rng.random() < 0.4:
        h = h.upper()
    if len(h) < 6 and rng.random() < 0.4:
        h = "0" * rng.randint(1, 6 - len(h)) + h
    return ("H", h, rng.choice(TERMS + ["", " "]))


def gen_lit(rng, pool=None):
    pool = pool or "ghijklmnopqrstuvwxyzGHIJKLMNOPQRSTUVWXYZ_-!\"#$%&'()*+,./:;<=>?@[\\]^`{|}~ \t\xe9中"
    return ("L", rng.choice(pool))


def gen_name_els(rng, first_is_start, maxlen=5, allow_dash=True):
    """ident = -? nmstart nmchar* ; name = nmchar+"""
    els = []
    starts = "abcdefghijklmnopqrstuvwxyzABCDEFGHIJKLMNOPQRSTUVWXYZ_"
    chars = starts + "0123456789-"
    if first_is_start and allow_dash and rng.random() < 0.15:
        els.append(("P", "-"))
    n = rng.randint(1, maxlen)
    for i in range(n):
        r = rng.random()
        if r < 0.6:
            els.append(("P", rng.choice(starts if (i == 0 and first_is_start) else chars)))
        elif r < 0.72:
            els.append(("P", rng.choice(NONASCII)))
        elif r < 0.9:
            els.append(gen_hex(rng))
        else:
            els.append(gen_lit(rng))
    return els


def lex(kind, text, ty, val, **kw):
    d = {"kind": kind, "text": text, "ty": ty, "val": val}
    d.update(kw)
    return d


# ------------------------------------------------------------------ lexeme generators
def g_ident(rng):
    els, oh, cr = fix_hex(gen_name_els(rng, True))
    return lex("ident", render(els), "IDENT", denote(els, False), open_hex=oh, cr_end=cr, els=els)


def g_and(rng):
    t = "".join(rng.choice(p) for p in ("aA", "nN", "dD"))
    return lex("ident", t, "IDENT", t, open_hex=0, els=[("P", c) for c in t])


def g_function(rng):
    while True:
        els, oh, _ = fix_hex(gen_name_els(rng, True) + [("P", "(")])
        els = els[:-1]
        name = render(els)
        # `and(` is IDENT + '(' ; a respelling of url( belongs to the URI class
        if name.lower() == "and" or normalize(denote(els, False)) == "url":
            continue
        return lex("function", name + "(", "FUNCTION", denote(els, False) + "(", els=els)


def g_hash(rng):
    els, oh, cr = fix_hex(gen_name_els(rng, False))
    return lex("hash", "#" + render(els), "HASH", "#" + denote(els, False), open_hex=oh, cr_end=cr, els=els)


def normalize(x):
    """independent reading of helper.normalize: drop the backslash of literal escapes, lower-case"""
    return re.sub(r"\\([^0-9a-fA-F])", r"\1", x).lower() if x else x


def respell(rng, name):
    els = []
    for i, c in enumerate(name):
        r = rng.random()
        if r < 0.5:
            els.append(("P", c.upper() if rng.random() < 0.4 else c))
        elif r < 0.8 or c in HEXD:
            els.append(gen_hex(rng, ord(c.upper() if rng.random() < 0.4 else c)))
        else:
            els.append(("L", c.upper() if rng.random() < 0.4 and c != "-" else c))
    return els


def g_atkw(rng):
    r = rng.random()
    if r < 0.6:
        name = rng.choice(sorted(ATSYMS))
        els, oh, cr = fix_hex(respell(rng, name[1:]))
        return lex("atkw", "@" + render(els), ATSYMS[name], "@" + render(els), open_hex=oh, cr_end=cr, els=els, sym=name)
    if r < 0.7:
        t = rng.choice(["@charset", "@CHARSET", "@Charset", "@medias", "@imports", "@font_face", "@pag", "@-page",
                        "@keyframes", "@supports", "@font-feature-values", "@x"])
        return lex("atkw", t, "ATKEYWORD", t, open_hex=0, els=[("P", c) for c in t[1:]])
    while True:
        els, oh, cr = fix_hex(gen_name_els(rng, True))
        if "@" + normalize(denote(els, False)) in ATSYMS:
            continue
        return lex("atkw", "@" + render(els), "ATKEYWORD", "@" + denote(els, False), open_hex=oh, cr_end=cr, els=els)


def gen_num(rng):
    sign = rng.choice(["", "", "", "+", "-"])
    r = rng.random()
    ip = "".join(rng.choice(DIG) for _ in range(rng.randint(1, 4)))
    fp = "".join(rng.choice(DIG) for _ in range(rng.randint(1, 3)))
    if r < 0.45:
        return sign + ip
    if r < 0.8:
        return sign + ip + "." + fp
    return sign + "." + fp       # missing integer part


def g_number(rng):
    t = gen_num(rng)
    return lex("number", t, "NUMBER", t)


def g_percentage(rng):
    t = gen_num(rng) + "%"
    return lex("percentage", t, "PERCENTAGE", t)


def g_dimension(rng):
    n = gen_num(rng)
    while True:
        els, oh, cr = fix_hex(gen_name_els(rng, True, maxlen=3))
        return lex("dimension", n + render(els), "DIMENSION", n + denote(els, False), open_hex=oh, cr_end=cr, els=els, num=n)


def gen_string_els(rng, q, maxlen=6):
    pool = "abcxyzAZ09 _-/*(){};:,.!#@%+<>=~|^$?&" + ("'" if q == '"' else '"') + "\t\xe9中\U0001F600"
    els = []
    for _ in range(rng.randint(0, maxlen)):
        r = rng.random()
        if r < 0.55:
            els.append(("P", rng.choice(pool)))
        elif r < 0.75:
            els.append(gen_hex(rng))
        elif r < 0.88:
            els.append(gen_lit(rng))
        else:
            els.append(("N", rng.choice(["\n", "\r", "\f", "\r\n"])))
    # canonical form: \<CR> must not be followed by LF (it would be the \<CR><LF> element)
    out = []
    for i, e in enumerate(els):
        out.append(e)
    els, _, _ = fix_hex(out + [("P", q)])
    els = els[:-1]
    for i, e in enumerate(els):
        if e[0] == "N" and e[1] == "\r" and render(els[i + 1:i + 2])[:1] == "\n":
            els[i] = ("N", "\r\n")
    return els


def g_string(rng):
    q = rng.choice("\"'")
    els = gen_string_els(rng, q)
    return lex("string", q + render(els) + q, "STRING", q + denote(els, True) + q, els=els, q=q)


def g_comment(rng):
    """'/*' body '*/' where body has no '*/' : seg0 stars (c seg stars)* with the last stars + '/'"""
    pool = "ab c\n\r\t/(){};:'\"@#\xe9中\\"
    body = []
    for _ in range(rng.randint(0, 8)):
        r = rng.random()
        if r < 0.6:
            body.append(rng.choice(pool))
        elif r < 0.85:
            body.append("*" * rng.randint(1, 3))
        elif r < 0.93:
            body.append("/*")
        else:
            body.append("\\41 " if rng.random() < 0.5 else "\\e9")
    b = "".join(body)
    while "*/" in b:
        b = b.replace("*/", "* /")
    if b.startswith("/"):
        b = " " + b
    t = "/*" + b + "*/"
    return lex("comment", t, "COMMENT", resolve_scan(t))


HEXESC = re.compile(r"\\([0-9a-fA-F]{1,6})(\r\n|[ \t\r\n\f])?")


def resolve_scan(t):
    """hex escapes of a text that has no element structure (comments): left-to-right, non-overlapping"""
    return HEXESC.sub(lambda m: chr(int(m.group(1), 16)) if int(m.group(1), 16) <= MAXUNI else m.group(0), t)


URLCH = "!#$%&*+,-./0123456789:;<=>?@ABCDEFGHIJKLMNOPQRSTUVWXYZ[]^_`abcdefghijklmnopqrstuvwxyz{|}~(\t"


def g_uri(rng):
    letters = []
    for c in "url":
        r = rng.random()
        if r < 0.6:
            letters.append(("P", c.upper() if rng.random() < 0.3 else c))
        elif r < 0.85:
            h = "%x" % ord(c.upper() if rng.random() < 0.5 else c)
            if rng.random() < 0.3:
                h = h.upper()
            h = "0" * rng.randint(0, 4) + h
            letters.append(("H", h, rng.choice(TERMS)))
        else:
            letters.append(("L", c.upper() if rng.random() < 0.3 else c))
    letters, _, _ = fix_hex(letters + [("P", "(")])
    letters = letters[:-1]
    w1 = "".join(rng.choice(WS) for _ in range(rng.choice([0, 0, 1, 2])))
    w2 = "".join(rng.choice(WS) for _ in range(rng.choice([0, 0, 1, 2])))
    if rng.random() < 0.5:
        q = rng.choice("\"'")
        els = gen_string_els(rng, q, maxlen=4)
        inner, dinner = q + render(els) + q, q + denote(els, False) + q
        feats = els
    else:
        els = []
        for _ in range(rng.randint(0, 5)):
            r = rng.random()
            if r < 0.7:
                els.append(("P", rng.choice(URLCH)))
            elif r < 0.8:
                els.append(("P", rng.choice(NONASCII)))
            elif r < 0.92:
                els.append(gen_hex(rng))
            else:
                els.append(gen_lit(rng, "ghijklmnopqrstuvwxyzGHXYZ_-!\"#$%&'(*+,./:;<=>?@[\\]^`{|}~ \xe9)"))
        els, _, _ = fix_hex(els + [("P", w2[:1] or ")")])
        els = els[:-1]
        # a leading tab would be taken by {w}: keep the inner part free of leading/trailing white space
        inner, dinner = render(els), denote(els, False)
        if inner[:1] in WS or (inner[-1:] in WS and not (els and els[-1][0] in ("H", "L"))):
            inner, dinner, els = "", "", []
        feats = els
    t = render(letters) + "(" + w1 + inner + w2 + ")"
    v = denote(letters, False) + "(" + w1 + dinner + w2 + ")"
    return lex("uri", t, "URI", v, els=feats, unquoted=not inner[:1] in ("'", '"'))


def g_urange(rng):
    u = rng.choice([("P", "u"), ("P", "U"), ("H", "75", " "), ("H", "0055", ""), ("L", "u"), ("L", "U"), ("H", "55", "\r\n")])
    n = rng.randint(1, 6)
    a = "".join(rng.choice(HEXD) for _ in range(n))
    if rng.random() < 0.3:
        k = rng.randint(1, n)
        a = a[:n - k] + "?" * k
    b = ""
    if "?" not in a and rng.random() < 0.5:
        b = "-" + "".join(rng.choice(HEXD) for _ in range(rng.randint(1, 6)))
    return lex("urange", render([u]) + "+" + a + b, "UNICODE-RANGE", denote([u], False) + "+" + a + b, els=[u])


def g_ws(rng):
    t = "".join(rng.choice(WS) for _ in range(rng.choice([1, 1, 1, 2, 3])))
    return lex("ws", t, "S", t)


OPS = {"~=": "INCLUDES", "|=": "DASHMATCH", "^=": "PREFIXMATCH", "$=": "SUFFIXMATCH", "*=": "SUBSTRINGMATCH",
       "<!--": "CDO", "-->": "CDC"}
DELIMS = ",:;{}>[]" + "()!=&%?`*~|^$/.+-<@#" + "\x01\x7f" + "\\"


def g_op(rng):
    t = rng.choice(sorted(OPS))
    return lex("op", t, OPS[t], t)


def g_delim(rng):
    c = rng.choice(DELIMS)
    return lex("delim", c, "CHAR", c)


GENS = [(g_ident, 14), (g_and, 2), (g_function, 6), (g_hash, 5), (g_atkw, 8), (g_number, 8), (g_percentage, 4),
        (g_dimension, 7), (g_string, 8), (g_comment, 5), (g_uri, 6), (g_urange, 3), (g_ws, 6), (g_op, 4), (g_delim, 12)]
GEN_TABLE = [g for g, w in GENS for _ in range(w)]


# ------------------------------------------------------------------ adjacency (Lexemes.v: ok_follow)
def nmstartish(c):
    return c != "" and (c in "-_\\" or "a" <= c <= "z" or "A" <= c <= "Z" or "0" <= c <= "9" or ord(c) >= 128)


def skipws(t):
    i = 0
    while i < len(t) and t[i] in WS:
        i += 1
    return t[i:]


def ratio_risk(tail):
    t = skipws(tail)
    if t[:1] != "/":
        return False
    t = skipws(t[1:])
    return t[:1] != "" and t[:1] in DIG


RATIO_RULE = [True]


def ok_follow(lx, tail):
    """may `tail` (the text of the following lexemes) directly follow the lexeme without merging?"""
    k, h = lx["kind"], tail[:1]
    oh = lx.get("open_hex", 0)
    if oh and h and (h in WS or (oh < 6 and h in HEXD)):
        return False
    if lx.get("cr_end") and h == "\n":
        return False          # \<hex><CR> followed by LF: the escape would swallow CR LF
    if k == "ident":
        if nmstartish(h):
            return False
        if h == "(":
            return lx["text"].lower() == "and"
        if h == "+" and U_MACRO.match(lx["text"]):
            return False
        return True
    if k in ("hash", "dimension"):
        return not nmstartish(h)
    if k == "atkw":
        if lx["text"] == "@charset" and h == " ":
            return False
        return not nmstartish(h)
    if k == "number":
        if nmstartish(h) or (h and h in "%."):
            return False
        if RATIO_RULE[0] and lx["text"].isascii() and lx["text"].isdigit() and ratio_risk(tail):
            return False
        return True
    if k == "urange":
        return not nmstartish(h) and h != "?"
    if k == "ws":
        return not (h and h in WS)
    if k == "delim":
        c = lx["text"]
        if c in "*~|^$":
            return h != "="
        if c == "/":
            return h != "*"
        if c == ".":
            return not (h and h in DIG)
        if c == "+":
            return not (h and (h in DIG or h == "."))
        if c == "-":
            return not nmstartish(h) and h != "."
        if c == "<":
            return h != "!"
        if c in "@#":
            return not nmstartish(h)
        if c == "\\":
            return h == "" or h in "\n\r\f"       # a lone backslash: no escape can start
        return True
    return True     # function, percentage, string, comment, uri, op


def start_ok(text):
    return not (text.startswith("\xfe\xff") or text.startswith("\xef\xbb\xbf") or text.startswith("@charset "))


def adjacent(ls):
    tail = ""
    for lx in reversed(ls):
        if not ok_follow(lx, tail):
            return False
        tail = lx["text"] + tail
    return start_ok(tail)


SEPS = [lex("ws", " ", "S", " "), lex("ws", "\n", "S", "\n"), lex("comment", "/**/", "COMMENT", "/**/"),
        lex("ws", "\t\r\n", "S", "\t\r\n"), lex("comment", "/* x */", "COMMENT", "/* x */")]


def join(rng, lexemes):
    """right to left: insert a separator lexeme wherever two lexemes could merge"""
    out, tail = [], ""
    for lx in reversed(lexemes):
        if not ok_follow(lx, tail):
            seps = list(SEPS)
            rng.shuffle(seps)
            for sp in seps:
                if ok_follow(sp, tail) and ok_follow(lx, sp["text"] + tail):
                    out.append(sp)
                    tail = sp["text"] + tail
                    break
            else:
                continue          # cannot be placed here: drop the lexeme
        out.append(lx)
        tail = lx["text"] + tail
    out.reverse()
    while out and not start_ok("".join(l["text"] for l in out)):
        out = out[1:]
    return out


# ------------------------------------------------------------------ features of a lexeme list (finding signatures)
def features(ls):
    f = set()
    text = "".join(l["text"] for l in ls)
    for i, l in enumerate(ls):
        els = l.get("els") or []
        rest = "".join(x["text"] for x in ls[i + 1:])
        for j, e in enumerate(els):
            nxt = (render(els[j + 1:]) + (l.get("q", "") if l["kind"] in ("string",) else "") + rest)[:1]
            if e[0] == "L" and e[1] == "\\" and not l["ty"].endswith("_SYM") and nxt and nxt in HEXD:
                f.add("escaped-backslash-before-hexdigit")
            if l["kind"] == "string" and j + 1 < len(els) and els[j + 1][0] == "H":
                n2 = int(els[j + 1][1], 16)
                bsl = (e[0] == "H" and int(e[1], 16) == 0x5c) or (e[0] == "L" and e[1] == "\\")
                if (bsl and n2 in (10, 12, 13)) or (e[0] == "N" and e[1] == "\r" and n2 == 10):
                    f.add("cleanstring-rereads-resolved-escape")
        if l["kind"] == "number" and l["text"].isdigit() and ratio_risk(rest):
            f.add("number-slash-number-paren")
    return sorted(f)


# ------------------------------------------------------------------ implementation / model / oracle
def impl_tokens(text):
    from css_parser.tokenize2 import Tokenizer
    try:
        return [[t[0], t[1]] for t in Tokenizer().tokenize(text)]
    except Exception as e:  # noqa
        return ["EXC", type(e).__name__, str(e)[:200]]


def model_tokens(line):
    if line == "NONE":
        return None
    f = lambda x: "".join(chr(int(v)) for v in x.split(",") if v)  # noqa
    out = []
    for t in (line.split(";") if line else []):
        ty, val, raw, l, c = t.split("|")
        out.append([f(ty), f(val)])
    return out


def expected(ls):
    return [[l["ty"], l["val"]] for l in ls]


def first_diff(a, b):
    for i, (x, y) in enumerate(itertools.zip_longest(a, b)):
        if x != y:
            return i, x, y
    return None


def strip(l):
    return {k: v for k, v in l.items() if k in ("kind", "text", "ty", "val", "open_hex", "cr_end", "els", "q", "unquoted")}


def shrink(ls, fails):
    ls = list(ls)
    changed = True
    while changed and len(ls) > 1:
        changed = False
        for i in range(len(ls)):
            cand = ls[:i] + ls[i + 1:]
            if cand and adjacent(cand) and fails(cand):
                ls, changed = cand, True
                break
    return ls


def impl_fails(ls):
    return impl_tokens("".join(l["text"] for l in ls)) != expected(ls)


REPORTED = set()


def report(ctx, ls, got):
    if "number-slash-number-paren" in features(ls):
        RATIO_RULE[0] = False     # the known RATIO family: shrink inside the family
    try:
        ls = shrink(ls, impl_fails)
    finally:
        RATIO_RULE[0] = True
    text = "".join(l["text"] for l in ls)
    got = impl_tokens(text)
    d = first_diff(got, expected(ls))
    feats = features(ls)
    what = "token classification differs from the lexeme grammar"
    sig = "features=%s kinds=%s" % (",".join(feats) or "none", ",".join(l["kind"] for l in ls))
    if text in REPORTED:
        return
    REPORTED.add(text)
    ctx.violation(what, {"text": text, "lexemes": [[l["kind"], l["text"], l["ty"], l["val"]] for l in ls],
                         "got": got, "first_difference": d, "features": feats}, sig_text=sig)


def pool_lexemes(rng):
    """fixed representatives of every class and alternative (the systematic pair stream)"""
    P = lambda t: [("P", c) for c in t]  # noqa
    L = []

    def name(kind, els, pre="", post="", ty=None):
        els, oh, cr = fix_hex(els)
        return lex(kind, pre + render(els) + post, ty, pre + denote(els, False) + post, open_hex=oh, cr_end=cr, els=els)
    for els in (P("a"), P("-x"), P("u"), P("U"), P("url"), P("and"), P("AnD"), P("or"), P("\xe9"), P("_9-"), P("e3"),
                [("H", "41", "")], [("H", "000041", "")], [("H", "61", " ")], [("H", "75", "\r\n")], [("L", "z")],
                [("L", "\\")], [("P", "a"), ("L", "(")], [("P", "-"), ("H", "2d", "")], [("H", "110000", " ")],
                [("L", "u")], [("P", "u"), ("P", "r")], [("H", "0", "\t")]):
        L.append(name("ident", els, ty="IDENT"))
    for els in (P("f"), P("rgb"), P("-moz-x"), [("H", "61", ""), ("P", "n"), ("P", "d")], P("ur"), P("not"), P("u")):
        x = name("function", els, post="(", ty="FUNCTION")
        x["open_hex"] = 0
        L.append(x)
    for els in (P("a"), P("0"), P("-"), P("fff"), [("H", "41", "")], [("L", "!")], P("\xe9")):
        L.append(name("hash", els, pre="#", ty="HASH"))
    for t in ("@import", "@IMPORT", "@media", "@page", "@font-face", "@namespace", "@variables", "@charset", "@x", "@-a"):
        L.append(lex("atkw", t, ATSYMS.get(t.lower(), "ATKEYWORD"), t, open_hex=0, els=P(t[1:])))
    L.append(lex("atkw", "@im\\port", "IMPORT_SYM", "@im\\port", open_hex=0, els=[("P", "i"), ("P", "m"), ("L", "p")] + P("ort")))
    L.append(lex("atkw", "@\\6d edia", "MEDIA_SYM", "@\\6d edia", open_hex=0, els=[("H", "6d", " ")] + P("edia")))
    for t in ("0", "12", "+1", "-1", "1.5", ".5", "-.5", "+0.25", "007"):
        L.append(lex("number", t, "NUMBER", t))
        L.append(lex("percentage", t + "%", "PERCENTAGE", t + "%"))
        for u in ("px", "e3", "-x", "\xe9"):
            L.append(lex("dimension", t + u, "DIMENSION", t + u, open_hex=0, els=P(u), num=t))
    L.append(lex("dimension", "1\\70x", "DIMENSION", "1px", open_hex=0, els=[("H", "70", "")] + P("x"), num="1"))
    for q in "\"'":
        for els in ([], P("a b"), [("N", "\n")], [("N", "\r\n")], [("H", "22", " ")], [("L", q)], [("L", "\\")],
                    P("/*x*/"), P("\xe9"), [("H", "41", ""), ("P", "g")], [("L", "\\"), ("P", "g")]):
            L.append(lex("string", q + render(els) + q, "STRING", q + denote(els, True) + q, els=els, q=q))
    for t in ("/**/", "/***/", "/* a */", "/*/*/", "/** * **/", "/*\n*/", "/*a**b*/", "/*'*/", "/* / * */"):
        L.append(lex("comment", t, "COMMENT", t))
    for t, v in (("url(a)", None), ("URL( a )", None), ("url()", None), ("url('a b')", None), ("url(\"\")", None),
                 ("u\\rl(x)", None), ("\\75 rl(x)", "url(x)"), ("url(a(b)", None), ("url(\\29 )", "url())"),
                 ("url(\t'x'\n)", None), ("ur\\4c(x)", "urL(x)"), ("\\55\\52\\4C(x)", "URL(x)")):
        L.append(lex("uri", t, "URI", v or t, els=[], unquoted=True))
    for t, v in (("u+0", None), ("U+0-7F", None), ("u+1?", None), ("u+??????", None), ("U+10FFFF", None),
                 ("\\75 +1", "u+1"), ("\\u+a-f", None), ("u+012345-abcdef", None)):
        L.append(lex("urange", t, "UNICODE-RANGE", v or t, els=[]))
    for t in (" ", "\t", "\n", "\r\n", "\f", "  \n"):
        L.append(lex("ws", t, "S", t))
    for t in sorted(OPS):
        L.append(lex("op", t, OPS[t], t))
    for c in DELIMS:
        L.append(lex("delim", c, "CHAR", c))
    return L


def gen_sequences(ctx, thorough):
    rng = ctx.rng
    seqs = []
    pool = pool_lexemes(rng)
    # 1. every representative alone, and every ordered pair of representatives (adjacent where the rule
    #    allows it, else through each separator that fits)
    for a in pool:
        if adjacent([a]):
            seqs.append([a])
    n_single = len(seqs)
    pairs = list(itertools.product(pool, pool))
    if not thorough:
        pairs = rng.sample(pairs, 12000)
    for a, b in pairs:
        if adjacent([a, b]):
            seqs.append([a, b])
        else:
            for sp in SEPS[:3]:
                if adjacent([a, sp, b]):
                    seqs.append([a, sp, b])
                    break
    n_pairs = len(seqs) - n_single
    # 2. random sequences of generated lexemes
    # 2a. NUMBER '/' NUMBER ')' (the RATIO production, a known finding): a few explicit sequences
    for _ in range(12):
        w = lambda: [lex("ws", " ", "S", " ")] if rng.random() < 0.4 else []  # noqa
        a, b2 = str(rng.randint(0, 99)), str(rng.randint(0, 99))
        seqs.append([lex("ident", "x", "IDENT", "x", open_hex=0), lex("ws", " ", "S", " "), lex("number", a, "NUMBER", a)] + w() +
                    [lex("delim", "/", "CHAR", "/")] + w() + [lex("number", b2, "NUMBER", b2), lex("delim", ")", "CHAR", ")")])
    nrand = 450000 if thorough else 12000
    for _ in range(nrand):
        k = rng.randint(1, 6)
        ls = join(rng, [rng.choice(GEN_TABLE)(rng) for _ in range(k)])
        if ls:
            seqs.append(ls)
    return seqs, n_single, n_pairs


# ------------------------------------------------------------------ configuration histories
# The classification of a text is a function of the tokenizer's configuration (macros, productions)
# only.  A history is a sequence of public-API calls (settings.set, Tokenizer(...) with variant
# tables that keep the macro / production NAMES, default Tokenizer(), parseString); every tokenizer
# built along the way must classify by ITS configuration, and the default tokenizer at the end must
# give the classification known by construction.  Each history runs in its own forked process.
DX_KEY = "DXImageTransform.Microsoft"
DX_TEXT = "progid:DXImageTransform.Microsoft.Alpha(opacity=50)"
HOPS = ["dx", "dxF", "def", "explicit", "copy", "v_nmchar", "v_num", "v_s", "v_noratio", "v_nohash", "parse", "nocomments"]
VARIANT_PROBES = {      # by construction, for the variant dialects (independent of the reference below)
    "v_nmchar": ("a1 #b2 3px2 @m4 f5(", [["IDENT", "a"], ["NUMBER", "1"], ["S", " "], ["HASH", "#b"], ["NUMBER", "2"],
                                          ["S", " "], ["DIMENSION", "3px"], ["NUMBER", "2"], ["S", " "],
                                          ["ATKEYWORD", "@m"], ["NUMBER", "4"], ["S", " "], ["IDENT", "f"],
                                          ["NUMBER", "5"], ["CHAR", "("]]),
    "v_num": ("1.5 .5px", [["NUMBER", "1"], ["CHAR", "."], ["NUMBER", "5"], ["S", " "], ["CHAR", "."], ["DIMENSION", "5px"]]),
    "v_s": ("a\fb c", [["IDENT", "a"], ["CHAR", "\f"], ["IDENT", "b"], ["S", " "], ["IDENT", "c"]]),
    "v_noratio": ("x 4/3)", [["IDENT", "x"], ["S", " "], ["NUMBER", "4"], ["CHAR", "/"], ["NUMBER", "3"], ["CHAR", ")"]]),
    "v_nohash": ("#a1 b", [["CHAR", "#"], ["IDENT", "a1"], ["S", " "], ["IDENT", "b"]]),
}
HIST_TEXTS = ["a1 #b2 3px2 @m4 f5( \\44 6", "1.5 .5px -0.25% +7", "a\fb\tc\r\nd", "x 4/3) (4/3)", "#a1 #-x #\\41 b",
              "@import url(a) \"s\\\nt\" /* c */ u+1? ~= -->", DX_TEXT, "x " + DX_TEXT + " y", "and( AND( \\61nd( f(",
              "ur\\6C(a) UR\\4C( 'b' ) \\75\\72\\6c(c)", "'\\41\\\nb' \"\\e9\\\f0\""]


def variant_config(op, MACROS, PRODUCTIONS):
    """(macros, productions) arguments of Tokenizer() for an op; None = argument omitted"""
    if op == "explicit":
        return MACROS, PRODUCTIONS
    if op == "copy":
        return dict(MACROS), None
    m = dict(MACROS)
    if op == "v_nmchar":        # the CSS3 nmchar quoted in the cssproductions docstring (no digits in names)
        m["nmchar"] = r"[_a-zA-Z-]|{nonascii}|{escape}"
        return m, None
    if op == "v_num":
        m["num"] = r"[+-]?[0-9]+"
        return m, None
    if op == "v_s":
        m["s"] = r"\t|\r|\n|\x20"
        return m, list(PRODUCTIONS)
    if op == "v_noratio":
        return None, [q for q in PRODUCTIONS if q[0] != "RATIO"]
    if op == "v_nohash":
        return dict(MACROS), [q for q in PRODUCTIONS if q[0] != "HASH"]
    return None, None


_REF_CACHE = {}


def ref_tokens(macros, productions, text):
    """pure reference: the classification as a function of (macros, productions, text) only
    (expand the macros, compile, first matching production wins, IDENT-'(' look-ahead, at-keyword table,
    escape resolution) -- keyed on the full content of both tables"""
    key = repr((sorted(macros.items()), [tuple(q) for q in productions]))
    if key not in _REF_CACHE:
        comp = []
        for name, pat in productions:
            while re.search(r"{[a-zA-Z][a-zA-Z0-9-]*}", pat):
                pat = re.sub(r"{([a-zA-Z][a-zA-Z0-9-]*)}", lambda mo: "(?:%s)" % macros[mo.group(1)], pat)
            comp.append((name, re.compile("(?:%s)" % pat, re.U)))
        _REF_CACHE[key] = comp
    comp = _REF_CACHE[key]
    out, pos = [], 0
    mo = comp[0][1].match(text, 0)
    if mo:
        out.append([comp[0][0], mo.group(0)])
        pos = mo.end()
    if text.startswith("@charset ", pos):
        out.append(["CHARSET_SYM", "@charset "])
        pos += 9
    while pos < len(text):
        c = text[pos]
        if c in ",:;{}>[]":
            out.append(["CHAR", c])
            pos += 1
            continue
        for name, rx in comp[1:]:
            mo = rx.match(text, pos)
            if not mo:
                continue
            found = mo.group(0)
            if name == "IDENT" and found.lower() != "and" and text[mo.end():mo.end() + 1] == "(":
                continue
            value = found
            if name in ("DIMENSION", "IDENT", "STRING", "URI", "HASH", "COMMENT", "FUNCTION", "INVALID", "UNICODE-RANGE"):
                value = resolve_scan(found)
                if name in ("STRING", "INVALID"):
                    value = re.sub(r"\\(\r\n|[\n\r\f])", "", value)
            elif name == "ATKEYWORD":
                sym = ATSYMS.get(normalize(resolve_scan(found)))
                if sym:
                    name = sym
                elif found == "@charset" and text.startswith(" ", mo.end()):
                    name, found, value = "CHARSET_SYM", found + " ", found + " "
                else:
                    value = resolve_scan(found)
            out.append([name, value])
            pos += len(found)
            break
        else:
            return out + [["STUCK", text[pos:]]]
    return out


def run_history(args):
    """executed in a fresh forked process: returns a list of failure dicts"""
    ops, texts, expected_default = args
    import css_parser
    from css_parser import settings
    import css_parser.cssproductions as CP
    from css_parser.tokenize2 import Tokenizer
    fails, built = [], []
    import logging
    css_parser.log.setLevel(logging.FATAL)
    try:
        for i, op in enumerate(ops):
            if op == "dx":
                settings.set(DX_KEY, True)
            elif op == "dxF":
                settings.set(DX_KEY, False)
            elif op == "parse":
                sheet = css_parser.parseString("a1 { width: 3px; color: rgb(1,2,3) }")
                if len(sheet.cssRules) != 1:
                    fails.append({"step": i, "what": "parseString lost the rule"})
            else:
                macros, prods = variant_config(op, CP.MACROS, CP.PRODUCTIONS)
                kw = {}
                if macros is not None:
                    kw["macros"] = macros
                if prods is not None:
                    kw["productions"] = prods
                if op == "nocomments":
                    kw["doComments"] = False
                tk = Tokenizer(**kw)
                cfg = (dict(macros or CP.MACROS), [tuple(q) for q in (prods or CP.PRODUCTIONS)])
                built.append((i, op, tk, cfg))
                if op in VARIANT_PROBES:
                    text, exp = VARIANT_PROBES[op]
                    got = [[t[0], t[1]] for t in tk.tokenize(text)]
                    if got != exp:
                        fails.append({"step": i, "op": op, "what": "variant tokenizer does not classify by its own tables",
                                      "text": text, "got": got, "expect": exp})
        # every tokenizer built along the way still classifies by the configuration it was built with
        for i, op, tk, cfg in built:
            for text in texts:
                got = [[t[0], t[1]] for t in tk.tokenize(text)]
                exp = ref_tokens(cfg[0], cfg[1], text)
                if op == "nocomments":
                    exp = [t for t in exp if t[0] != "COMMENT"]
                if got != exp:
                    fails.append({"step": i, "op": op, "what": "tokenizer differs from the classification determined by its "
                                  "(macros, productions)", "text": text, "got": got, "expect": exp})
                    break
        # the default tokenizer at the end: classification known by construction (DX lexemes by the reference)
        tk = Tokenizer()
        for text, exp in expected_default:
            got = [[t[0], t[1]] for t in tk.tokenize(text)]
            if got != exp:
                fails.append({"step": len(ops), "op": "final default Tokenizer()", "what": "default tokenizer does not give the "
                              "classification known by construction after this history", "text": text, "got": got, "expect": exp})
                break
        for text in texts:
            got = [[t[0], t[1]] for t in tk.tokenize(text)]
            exp = ref_tokens(CP.MACROS, [tuple(q) for q in CP.PRODUCTIONS], text)
            if got != exp:
                fails.append({"step": len(ops), "op": "final default Tokenizer()", "what": "default tokenizer differs from the "
                              "classification determined by (MACROS, PRODUCTIONS)", "text": text, "got": got, "expect": exp})
                break
    except Exception as e:  # noqa
        fails.append({"step": -1, "what": "history raised %s: %s" % (type(e).__name__, str(e)[:200])})
    return fails


def gen_histories(ctx, thorough):
    hs = [[]]
    for n in (1, 2, 3):
        hs += [list(t) for t in itertools.product(HOPS, repeat=n)] if n < 3 else []
    # depth 3: every history that contains a cache reset and a variant (the interesting interleavings), else sampled
    d3 = [list(t) for t in itertools.product(HOPS, repeat=3)]
    keep = [h for h in d3 if "dx" in h and any(o.startswith("v_") or o in ("copy", "explicit") for o in h)]
    rest = [h for h in d3 if h not in keep]
    hs += keep + ctx.rng.sample(rest, len(rest) if thorough else 250)
    for _ in range(3000 if thorough else 200):
        hs.append([ctx.rng.choice(HOPS) for _ in range(ctx.rng.randint(4, 7))])
    return hs


def shrink_history(ops, texts, expected_default):
    def fails(h):
        return bool(run_isolated([(h, texts, expected_default)])[0])
    ops = list(ops)
    changed = True
    while changed and ops:
        changed = False
        for i in range(len(ops)):
            cand = ops[:i] + ops[i + 1:]
            if fails(cand):
                ops, changed = cand, True
                break
    return ops


def run_isolated(jobs, procs=6):
    """one fresh forked process per history (maxtasksperchild=1): histories cannot leak into each other"""
    import multiprocessing as mp
    import css_parser  # noqa  (imported before forking: the children start from the state right after import)
    with mp.get_context("fork").Pool(procs, maxtasksperchild=1) as pool:
        return pool.map(run_history, jobs, chunksize=1)


def history_stream(ctx, thorough):
    rng = ctx.rng
    # lexeme corpus for the final default tokenizer: representatives + a few random sequences (by construction)
    pool = [l for l in pool_lexemes(rng) if l["kind"] != "delim"]
    exp_default = []
    for _ in range(40):
        ls = join(rng, [rng.choice(pool) for _ in range(6)])
        if ls and not features(ls) and "progid" not in "".join(l["text"] for l in ls):
            exp_default.append(("".join(l["text"] for l in ls), expected(ls)))
    for _ in range(25):
        ls = join(rng, [rng.choice(GEN_TABLE)(rng) for _ in range(5)])
        if ls and not features(ls):
            exp_default.append(("".join(l["text"] for l in ls), expected(ls)))
    hs = gen_histories(ctx, thorough)
    res = run_isolated([(h, HIST_TEXTS, exp_default) for h in hs])
    nbad = 0
    for h, fl in zip(hs, res):
        if not fl:
            continue
        nbad += 1
        if nbad > 3:
            continue
        h2 = shrink_history(h, HIST_TEXTS, exp_default)
        fl2 = run_isolated([(h2, HIST_TEXTS, exp_default)])[0] or fl
        f0 = fl2[0]
        ctx.violation("classification depends on the configuration history, not only on (macros, productions)",
                      {"history": h2, "failure": f0, "texts": HIST_TEXTS, "expected_default": exp_default[:0]},
                      sig_text="history=%s what=%s" % (",".join(h2), f0.get("what")))
    return len(hs), nbad


def replay_history(w):
    fl = run_isolated([(w["history"], w.get("texts") or HIST_TEXTS, [tuple(x) for x in w.get("expected_default", [])])])[0]
    return fl


def known_witness_lexemes(w):
    return [dict(kind=k, text=t, ty=ty, val=v) for k, t, ty, v in w["lexemes"]]


def run(ctx):
    thorough = ctx.tier == "thorough"
    ctx.regen("tokenizer")
    b = ctx.coq_build("props/C09.v")
    binary = ctx.ocaml_build("tok")
    corpus = []
    p = VERIF / "corpus" / "C09.json"
    if p.exists():
        corpus = json.loads(p.read_text())
    seqs, n_single, n_pairs = gen_sequences(ctx, thorough)
    texts = [c["text"] for c in corpus] + ["".join(l["text"] for l in ls) for ls in seqs]
    impl = ctx.pool_map(impl_tokens, texts, procs=6, chunksize=512)
    model = [None] * len(texts)
    mism = []
    if binary:
        out = ctx.run_binary(binary, ["1 0 %s" % cps(t) for t in texts], shards=6)
        for i, (t, o) in enumerate(zip(texts, out)):
            model[i] = model_tokens(o)
            if model[i] != impl[i]:
                mism.append((t, first_diff(impl[i], model[i] or [])))
    if mism:
        ctx.broken("correspondence", "Tokenizer().tokenize vs CssV.Tokenizer.tokenize on lexeme sequences",
                   "%d of %d texts differ; first: %s" % (len(mism), len(texts), json.dumps(mism[:3])))
    # corpus entries carry their own expectation
    nc = len(corpus)
    for c, got in zip(corpus, impl[:nc]):
        if "expect" in c and got != c["expect"]:
            ctx.violation("corpus case classified differently", {"text": c["text"], "got": got, "expect": c["expect"]},
                          sig_text="features=%s kinds=corpus" % ",".join(c.get("features", [])) or "none")
    # property-level oracle: implementation == classification known by construction
    kinds, nontrivial, skipped, reported = {}, set(), 0, 0
    REPORTED.clear()
    for ls, got in zip(seqs, impl[nc:]):
        for l in ls:
            kinds[l["kind"]] = kinds.get(l["kind"], 0) + 1
        if len(ls) >= 2:
            nontrivial.add("".join(l["text"] for l in ls))
        if got != expected(ls):
            if features(ls):
                skipped += 1
            if reported < 40:
                report(ctx, ls, got)
                reported += 1
    n_hist, n_hist_bad = history_stream(ctx, thorough)
    # stored witnesses of open findings are re-run
    for f in ctx.findings:
        if f.get("status") == "open" and "witness" in f:
            ls = known_witness_lexemes(f["witness"])
            got = impl_tokens("".join(l["text"] for l in ls))
            if got != expected(ls):
                ctx.violation("token classification differs from the lexeme grammar",
                              dict(f["witness"], got=got), sig_text=f["witness"]["sig"])

    def search():
        t0 = time.time()
        rng = ctx.rng
        while time.time() - t0 < (300 if thorough else 60):
            batch = []
            for _ in range(3000):
                ls = join(rng, [rng.choice(GEN_TABLE)(rng) for _ in range(rng.randint(1, 5))])
                if ls:
                    batch.append(ls)
            res = ctx.pool_map(impl_tokens, ["".join(l["text"] for l in ls) for ls in batch], procs=6, chunksize=256)
            for ls, got in zip(batch, res):
                if got != expected(ls):
                    ls = shrink(ls, impl_fails)
                    feats = features(ls)
                    sig = "features=%s kinds=%s" % (",".join(feats) or "none", ",".join(l["kind"] for l in ls))
                    if not ctx.match_known("token classification differs from the lexeme grammar :: " + sig):
                        text = "".join(l["text"] for l in ls)
                        return {"text": text, "lexemes": [[l["kind"], l["text"], l["ty"], l["val"]] for l in ls],
                                "got": impl_tokens(text), "features": feats}
        return None

    ctx.finish({
        "evaluations": len(texts),
        "distinct_nontrivial": len(nontrivial),
        "rule": "%d single representative lexemes, %d ordered pairs of representatives (directly adjacent where the "
                "adjacency rule allows, else through a separator), then random sequences of 1-6 generated lexemes "
                "(generators cover signs, missing integer part, hex escapes with every terminator and padding, literal "
                "escapes, both quote kinds, escaped newlines, non-ASCII); non-trivial = distinct texts of >= 2 lexemes"
                % (n_single, n_pairs),
        "lexeme_kind_counts": kinds,
        "cases_matching_known_finding_features": skipped,
        "configuration_histories": n_hist,
        "configuration_histories_failed": n_hist_bad,
        "history_ops": HOPS,
        "samples": [[[l["kind"], l["text"]] for l in ls] for ls in seqs[n_single + n_pairs + 3:n_single + n_pairs + 7]],
        "disagreements_checked": len(texts) if binary else 0,
        "trusted_base": TRUSTED,
    }, assumptions=ASSUME, search=search)


def replay(ctx, path):
    rep = json.loads(open(path).read())
    bad = 0
    for v in rep.get("violations", []):
        w = v["witness"]
        if "history" in w:
            fl = replay_history(w)
            print("replay history %s -> %s" % (w["history"], "holds" if not fl else json.dumps(fl[0])[:600]))
            bad += bool(fl)
            continue
        got = impl_tokens(w["text"])
        exp = [[x[2], x[3]] for x in w["lexemes"]] if "lexemes" in w else w.get("expect")
        ok = got == exp
        print("replay %r -> %s" % (w["text"], "holds" if ok else "implementation %r, lexeme grammar %r" % (got, exp)))
        bad += not ok
    return 1 if bad else 0


TRUSTED = [
    "Coq 8.16.1 kernel and VM (vm_compute for the first-character table and the finite sweeps); no native_compute",
    "translate/tokenizer.py + translate/regexlib.py (CPython's re._parser parses the compiled patterns)",
    "extraction (ExtrOcamlBasic) + ocamlfind ocamlopt, ocaml/tok_driver.ml (shared with C08)",
    "harness/props/c09.py: lexeme generators / adjacency rule ok_follow are a hand-written Python mirror of "
    "coq/theories/Lexemes.v (lexeme classes, ok_follow); the expected (type, value) is computed by `denote`, "
    "independently of the implementation and of the model",
    "CPython 3.12 re/str semantics as the thing being modelled",
    "modelled, not verified: Tokenizer.tokenize is a hand-written Gallina transcription (coq/theories/Tokenizer.v)",
]
ASSUME = [
    "Print Assumptions for every theorem of props/C09.v: see coverage.print_assumptions (all closed)",
    "theorems are stated for fullsheet=False (the observation point of the property) and doComments=True",
    "proved for all lexemes: IDENT and FUNCTION (and( exception as coded; names beginning with u/U/an escape under the exact "
    "condition kw_free, discharged for every identifier not followed by '(' or '+'), URI (every spelling of url( the letter "
    "macros accept, quoted or bare body), UNICODE-RANGE, HASH, ATKEYWORD (+ every respelling of the six symbols, via C10's "
    "RespellFacts), NUMBER, PERCENTAGE, DIMENSION, STRING, COMMENT, S, match operators, CDO, CDC, fast-path / context-free / "
    "context-dependent delimiters incl. the lone backslash; RATIO characterised exactly on integer-initial texts; the letter "
    "macros U R L characterised exactly (letter_macro_spec); lexeme_sequence over all adjacent sequences of these",
    "finite vm_compute sweeps remain as regression examples only",
    "hex_escape_resolved is partial: an escaped backslash directly followed by a hex digit is excluded (refuted, open finding)",
    "COMMENT values are escape-resolved by design (COMMENT is in the tokenizer's resolved list); the oracle expects that",
]
