"""C03 -- serialising and re-parsing preserves the model; output is a fixpoint.

proof:          coq/props/C03.v  (string_roundtrip, string_fixpoint, string_roundtrip_backslash_refuted,
                fixpoint_of_roundtrip, reparse_equal_items) over coq/theories/{Quote,Gen/Quote,Tokenizer,Roundtrip}.v
tie:            translate/quote.py regenerates helper.string / helper.stringvalue / Base._stringtokenvalue,
                translate/tokenizer.py the productions (STRING regex) and escape regexes; the extracted model
                (ocaml/quote_driver.ml) is compared with the implementation function by function and on the
                composed first-token round trip
oracle/search:  (1) string level, on the implementation only: every string value a parse produces, written by
                helper.string and followed by any text, is read back as the same value and written identically;
                (2) end to end (harness/props/c03_e2e.py): generated sheets over the documented grammar and every
                sub-object in isolation: extract(parse(ser(x))) == extract(x) with an independent model extractor,
                and byte-equal second serialisation
"""
import itertools
import json
import re
import time

from harness.lib import cps, VERIF

# ~40 symbols: both quotes, backslash, the three newline kinds, hex digits (incl. the ones helper.string emits),
# space/tab, non-ASCII (BMP, astral, a lone surrogate), punctuation that structures CSS, NUL and VT
ALPHA = ['"', "'", "\\", "\n", "\r", "\f", "a", "d", "c", "0", "2", "5", "F", " ", "\t", "\xe9", " ",
         "\U0001f600", "x", "g", "/", "*", ";", "(", ")", "{", "}", ",", ":", "@", "-", "_", "#", "%", "!", ".",
         "\x00", "\x0b", "u", "\ud800"]
NOBS = [c for c in ALPHA if c != "\\"]
FOLLOWS = ["", " ", ";", '"', "'", "x", "\\", "\n", "a ", " !important", ")", "]", "\\22", '"x"', "/*", "0"]


# ---------------------------------------------------------------------------------- implementation adapters
def _tok1(text, fs=False):
    from css_parser.tokenize2 import Tokenizer
    toks = list(Tokenizer().tokenize(text, fullsheet=fs))
    return toks


def _stv(tok):
    from css_parser.util import Base
    try:
        return Base()._stringtokenvalue(tok)
    except IndexError:
        return "CRASH"


def _enc(sv):
    return ",".join(str(ord(c)) for c in sv)


def impl_line(line):
    """implementation side of one driver line (see ocaml/quote_driver.ml)"""
    from css_parser import helper
    k, rest = line[0], line[2:]
    un = lambda x: "".join(chr(int(v)) for v in x.split())  # noqa
    try:
        if k == "S":
            return _enc(helper.string(un(rest)))
        if k == "U":
            return _enc(helper.string(un(rest), False))
        if k == "V":
            try:
                return "=" + _enc(helper.stringvalue(un(rest)))
            except IndexError:
                return "CRASH"
        if k == "T":
            r = _stv(("STRING", un(rest), 1, 1))
            return r if r == "CRASH" else "=" + _enc(r)
        if k == "F":
            fs, text = rest[0], un(rest[2:])
            toks = _tok1(text, fs == "1")
            if not toks:
                return "NONE"
            t = toks[0]
            r = _stv(t)
            return "%s|%s|%s" % (_enc(t[0]), _enc(t[1]), r if r == "CRASH" else "=" + _enc(r))
    except Exception as e:  # noqa
        return "EXC %s" % type(e).__name__
    return "BAD"


def string_oracle(case):
    """property at string level on the implementation. case = (kind, text, follow)
       kind 'v': text is a string VALUE (claimed domain of the theorem when it has no backslash)
       kind 's': text is CSS SOURCE; if its first token is a STRING its value must survive
    returns None (holds / not applicable) or (description, feature)"""
    from css_parser import helper
    kind, text, follow = case
    try:
        if kind == "s":
            toks = _tok1(text)
            if not toks or toks[0][0] != "STRING":
                return None
            v = _stv(toks[0])
            if v == "CRASH":
                return ("_stringtokenvalue raises on a STRING token", "crash")
            v2 = helper.stringvalue(toks[0][1])
            if v2 != v:
                return ("helper.stringvalue and Base._stringtokenvalue disagree on a STRING token", "disagree")
        else:
            v = text
        t1 = helper.string(v)
        toks2 = _tok1(t1 + follow)
        feat = feature(v) + head_tag(v)
        if not toks2 or toks2[0][0] != "STRING":
            return ("serialised string value is not read back as one STRING token", feat)
        nxt = toks2[1] if len(toks2) > 1 else None
        end = _end_col(t1)
        if nxt is not None and (nxt[2], nxt[3]) != end:
            return ("serialised string value is not read back as one STRING token (token ends elsewhere)", feat)
        w = _stv(toks2[0])
        if w != v:
            return ("string value changes when serialised and re-read", feat)
        if helper.string(w) != t1:
            return ("second serialisation of a string differs", feat)
    except Exception as e:  # noqa
        return ("exception %s in the string round trip" % type(e).__name__, "exception")
    return None


def _end_col(t):
    line, col = 1, 1
    for ch in t:
        if ch == "\n":
            line, col = line + 1, 1
        else:
            col += 1
    return line, col


_HEX = "0123456789abcdefABCDEF"
_NL = {"\n": "\\a ", "\r": "\\d ", "\f": "\\c "}


def ref_string(v, linecontinuation=True):
    """reference copy of helper.string as it is at the pinned HEAD (the three-state scanner of the repairs): the open
    string finding is recognised only while the text written for the value is exactly this one"""
    out, st = [], 0
    for c in v:
        if st == 1:
            if c == "\\":
                out.append("\\")
                st = 2
                continue
            out.append("\\5c " if c in _HEX else "\\5c \\\f" if linecontinuation and c in _NL else "\\")
            st = 0
        elif st == 2:
            if c == "\\":
                out.append("\\")
                st = 1
                continue
            out.append("\\5c " if c in _HEX else "\\5c \\\f" if linecontinuation and c in _NL else "\\")
            st = 0
        elif c == "\\":
            st = 1
            continue
        out.append('\\"' if c == '"' else _NL.get(c, c))
    if st == 1:
        out.append("\\\\")
    elif st == 2:
        out.append("\\\\5c ")
    return '"%s"' % "".join(out)


def rep_ok(v):
    """QuoteStrFacts.rep_okc: the values string_roundtrip is proved for. Returns None (representable) or 'dquote'
    (an escape-introducing backslash directly before a double quote: the output pinned by test_value.py:411)"""
    st = 0
    for c in v:
        if st == 0:
            st = 1 if c == "\\" else 0
        elif c == "\\":
            st = 2 if st == 1 else 1
        else:
            if st == 1 and c == '"':
                return "dquote"
            st = 0
    return None


def head_tag(v):
    from css_parser import helper
    try:
        same = helper.string(v) == ref_string(v)
    except Exception:  # noqa
        same = False
    return " [written as the reference helper.string writes it]" if same else " [NOT written as the reference helper.string writes it]"


def feature(v):
    """crude, stable feature of a string value used in finding signatures"""
    r = rep_ok(v)
    if r == "dquote":
        return "value has a double quote preceded by an odd number of backslashes"
    if "\\" in v:
        return "value has a backslash"
    return "backslash-free value"


# ---------------------------------------------------------------------------------- case generation
def gen_function_cases(ctx, thorough):
    rng = ctx.rng
    lines = []
    small = []
    for n in range(0, 4 if thorough else 3):
        for tup in itertools.product(ALPHA, repeat=n):
            small.append("".join(tup))
    if not thorough:   # all of length 3 over the 16 most structural symbols
        for tup in itertools.product(ALPHA[:16], repeat=3):
            small.append("".join(tup))
    for v in small:
        c = cps(v)
        lines += ["S " + c, "U " + c, "V " + c, "T " + c]
    n_exh = len(lines)
    rnd = []
    for _ in range(30000 if thorough else 4000):
        k = rng.randint(4, 24)
        rnd.append("".join(rng.choice(ALPHA) if rng.random() < 0.85 else chr(rng.choice([rng.randint(0, 0x7f), rng.randint(0x80, 0x2fff), rng.randint(0x10000, 0x10ffff)])) for _ in range(k)))
    for v in rnd:
        c = cps(v)
        lines += ["S " + c, "V " + c, "T " + c]
    # composed: first token + string value, on serialised values and on raw sources
    from css_parser import helper
    comp = [v for v in small if len(v) <= (3 if thorough else 2)] + rnd[:len(rnd) // 4]
    for v in comp:
        f = rng.choice(FOLLOWS)
        lines.append("F %d %s" % (rng.randint(0, 1), cps(helper.string(v) + f)))
        lines.append("F %d %s" % (rng.randint(0, 1), cps(v)))
        q = rng.choice("\"'")
        lines.append("F %d %s" % (rng.randint(0, 1), cps(q + v + q + f)))
    return lines, n_exh


def gen_string_cases(ctx, thorough):
    rng = ctx.rng
    cases = []
    # domain of string_roundtrip: every value (representable ones must hold; an escape-introducing backslash before a
    # double quote is the open finding; backslash + newline is skipped by the oracle), every follow
    for n in range(0, 3):
        for tup in itertools.product(ALPHA, repeat=n):
            v = "".join(tup)
            cases.append(("v", v, rng.choice(FOLLOWS)))
    for tup in itertools.product(ALPHA[:15], repeat=3):
        cases.append(("v", "".join(tup), rng.choice(FOLLOWS)))
    for tup in itertools.product(ALPHA[:8], repeat=4 if not thorough else 5):
        cases.append(("v", "".join(tup), rng.choice(FOLLOWS)))
    for f in FOLLOWS:
        for v in ["", "a", '"', "'", "\n", "a\nb\r\fc", "\xe9\U0001f600", 'say "hi"', "it's", "a/*b*/", "\x00"]:
            cases.append(("v", v, f))
    n_claimed = len(cases)
    # parsed domain: sources with escapes; the value the parser extracts must survive
    for q in "\"'":
        for n in range(0, 4 if thorough else 3):
            for tup in itertools.product(ALPHA, repeat=n):
                cases.append(("s", q + "".join(tup) + q, rng.choice(FOLLOWS)))
        for tup in itertools.product(ALPHA[:12], repeat=3 if not thorough else 4):
            cases.append(("s", q + "".join(tup) + q, rng.choice(FOLLOWS)))
    for _ in range(60000 if thorough else 8000):
        q = rng.choice("\"'")
        body = "".join(rng.choice(ALPHA[:14]) if rng.random() < 0.6 else rng.choice(ALPHA) for _ in range(rng.randint(3, 14)))
        cases.append(("s", q + body + q, rng.choice(FOLLOWS)))
    return cases, n_claimed


# ---------------------------------------------------------------------------------- end to end
# normalisations of the independent extractor that are switched ON (each is a layout difference, not a model difference):
#   calc_S         white space tokens inside calc() (the serializer writes ' / ' etc.; S is not a value token)
#   selector_S     white space inside the argument of a functional pseudo-class (':nth-child( 2n )')
#   anb_sign       '- 1' (CHAR + NUMBER) vs '-1' (NUMBER) inside an+b arguments: same an+b value
#   hash_minimise  #aabbcc vs #abc for COLOUR values (documented preference minimizeColorHash; same colour: C17
#                  hash_min_same_rgb); HASH tokens outside colour values are still compared verbatim
E2E_NORMALISE = dict(calc_S=True, selector_S=True, anb_sign=True, hash_minimise=True)


def _e2e():
    from harness.props import c03_e2e as E
    E.NORMALISE.update(E2E_NORMALISE)
    return E


def e2e_case(arg):
    seed, size = arg
    import random
    E = _e2e()
    text = E.gen_sheet(random.Random(seed), size)
    try:
        fails = E.check_text(text)
    except Exception as e:  # noqa
        fails = [{"kind": "harness-exception", "where": "check_text", "detail": "%s: %s" % (type(e).__name__, e)}]
    return text, fails


LAYOUT_SEPS = ["", " ", "\n", "\t", "\r\n", "  \n", "\f"]


def layout_case(arg):
    """oracle 'layout' (the part of sheet_layout_roundtrip that is not proved): for every lineSeparator the text of a
    sheet is lineSeparator.join(rule texts) and TOKENIZING it gives the token runs of the rule texts joined by the tokens
    of the separator; re-parsing it gives the same rule kinds at the same places"""
    seed, size = arg
    import random
    import css_parser
    E = _e2e()
    text = E.gen_sheet(random.Random(seed), size, E.TRIGGERS)   # only sheets whose rule texts are clean statements
    out = []
    try:
        sheet = E._parse(text)
        tv = lambda x: [(t[0], t[1]) for t in _tok1(x)]  # noqa
        for ls in LAYOUT_SEPS:
            css_parser.ser.prefs.useDefaults()
            css_parser.ser.prefs.lineSeparator = ls
            try:
                whole = sheet.cssText.decode("utf-8")
                texts = [r.cssText for r in sheet.cssRules]
                texts = [t for t in texts if t]
                if whole != ls.join(texts):
                    out.append({"sep": ls, "what": "sheet text is not lineSeparator.join(rule texts)", "text": text})
                    continue
                want = []
                for i, t in enumerate(texts):
                    if i:
                        want += tv(ls)
                    want += tv(t)
                got = tv(whole)
                if got != want:
                    k = next((i for i, (a, b) in enumerate(zip(got, want)) if a != b), min(len(got), len(want)))
                    out.append({"sep": ls, "what": "tokens of the joined text are not the joined token runs",
                                "text": text, "at": k, "got": got[k:k + 2], "want": want[k:k + 2]})
                    continue
                types2 = [r.type for r in E._parse(whole).cssRules]
                types1 = [r.type for r in sheet.cssRules if r.cssText]
                if types1 != types2:
                    out.append({"sep": ls, "what": "re-parsed rule kinds differ", "text": text,
                                "got": types2, "want": types1})
            finally:
                css_parser.ser.prefs.useDefaults()
    except Exception as e:  # noqa
        out.append({"sep": None, "what": "exception %s: %s" % (type(e).__name__, e), "text": text})
    return out


def e2e_text(text):
    E = _e2e()
    try:
        return E.check_text(text)
    except Exception as e:  # noqa
        return [{"kind": "harness-exception", "where": "check_text", "detail": "%s: %s" % (type(e).__name__, e)}]


def sheet_feature(text):
    """string-value features present in a sheet text (see feature())"""
    feats = []
    try:
        for t in _tok1(text, True):
            if t[0] in ("STRING", "URI"):
                v = _stv(t) if t[0] == "STRING" else t[1]
                f = feature(v)
                if f != "backslash-free value" and f not in feats:
                    feats.append(f)
    except Exception:  # noqa
        pass
    return "".join(" [sheet has a string: %s]" % f for f in sorted(feats))


def _indent(line):
    return len(line) - len(line.lstrip(" \t"))


def comment_growth(t1, t2):
    """exact description of how two serialisations differ when multi-line comments are re-indented.  At the pinned HEAD
    a continuation line of a comment that sits in a selector / value ('inline') or between the rules of an @media block
    ('media-level') gains, per round, exactly the indentation of the line on which the comment opens; a comment that sits
    directly in a declaration block ('decl-block') does not move (do_css_CSSStyleDeclaration left-strips its lines).
    Anything else gets a different tag and is therefore not covered by the known finding."""
    l1, l2 = t1.split("\n"), t2.split("\n")
    if len(l1) != len(l2):
        return "[line count differs]"
    locs = set()
    # opener[i] = index of the line on which the comment that line i starts inside was opened (None: not inside a comment);
    # one scan over the first text, strings skipped
    opener, cur, q, k = [], None, None, 0
    for idx, line in enumerate(l1):
        opener.append(cur)
        k = 0
        while k < len(line):
            two = line[k:k + 2]
            if cur is not None:
                if two == "*/":
                    cur, k = None, k + 2
                    continue
            elif q:
                if line[k] == "\\":
                    k += 2
                    continue
                if line[k] == q:
                    q = None
            elif line[k] in "\"'":
                q = line[k]
            elif two == "/*":
                cur, k = idx, k + 2
                continue
            k += 1
        q = None                      # a string never spans lines in serialised text
    for i, (x, y) in enumerate(zip(l1, l2)):
        if x == y:
            continue
        if x.lstrip(" \t") != y.lstrip(" \t"):
            return "[lines differ in more than leading white space]"
        j = opener[i]
        if j is None:
            return "[a differing line is not a continuation line of a comment]"
        # a comment that opens on a continuation line of an earlier comment moves with that line
        expected = _indent(l1[j]) if opener[j] is None else _indent(l2[j]) - _indent(l1[j])
        if _indent(y) - _indent(x) != expected:
            return "[growth differs from the indentation of the line that opens the comment]"
        if l1[j].lstrip(" \t").startswith("/*"):
            k = j - 1
            while k >= 0 and not (_indent(l1[k]) < _indent(l1[j]) and l1[k].rstrip().endswith("{")):
                k -= 1
            while k >= 0 and opener[k] is not None:      # the block header itself spans lines (a comment in it)
                k = opener[k]
            if k < 0:
                locs.add("top-level")
            elif l1[k].lstrip().lower().startswith("@media"):
                locs.add("media-level")
            else:
                locs.add("decl-block")
        else:
            locs.add("inline")
    if not locs:
        return "[texts equal]"
    return "[continuation lines grow by the indentation of the opening line; comment in: %s]" % ",".join(sorted(locs))


_FORBIDDEN_IN_URI = re.compile(r""".*?[\(\)\s\;,'"\\\x00-\x1f\x7f]""", re.U)


def ref_uri(v):
    "reference copy of helper.uri at the pinned HEAD (quotes the value through helper.string only when it has to)"
    return "url(%s)" % (ref_string(v, False) if _FORBIDDEN_IN_URI.match(v) else v)


def explain_lines(t1, t2):
    """every differing line of two serialisations must be explained by a HEAD behaviour that is on record:
    number-rounding (N.0 -> N, -0.0 -> 0, 0.0px -> 0: c03_e2e._t_round maps the first line to the second) or the
    HEAD shape of comment growth (comment_growth); otherwise a tag that no signature accepts"""
    E = _e2e()
    l1, l2 = t1.split("\n"), t2.split("\n")
    if len(l1) != len(l2):
        return "[line count differs]"
    used = set()
    k1, k2 = list(l1), list(l2)
    for i, (x, y) in enumerate(zip(l1, l2)):
        if x == y:
            continue
        if E._t_round(x) == y or E._t_round(x) == E._t_round(y):
            used.add("number-rounding")
            k1[i] = k2[i] = E._t_round(x)          # neutralised for the comment analysis below
        elif x.lstrip(" \t") == y.lstrip(" \t"):
            pass
        elif E._t_round(x.lstrip(" \t")) == E._t_round(y.lstrip(" \t")):
            used.add("number-rounding")
            k1[i] = x[:_indent(x)] + E._t_round(x.lstrip(" \t"))
            k2[i] = y[:_indent(y)] + E._t_round(y.lstrip(" \t"))
        else:
            return "[a differing line is explained neither by number rounding nor by comment indentation]"
    g = comment_growth("\n".join(k1), "\n".join(k2))
    m = re.match(r"\[continuation lines grow by the indentation of the opening line; comment in: ([a-z,-]+)\]$", g)
    if m:
        used.update("comment-growth(%s)" % x for x in m.group(1).split(","))
    elif g != "[texts equal]":
        return g
    return "[differing lines explained by: %s]" % ", ".join(sorted(used))


def refine(f, text, cause):
    """a tag that pins the HEAD behaviour of the cause family more exactly than the rule-based cause does; the signatures
    of the open findings demand the tag that HEAD produces, so a regression with the same cause but another shape
    (other place, other amount, other value) is reported"""
    kind = f.get("kind", "")
    t1, t2, d = f.get("text1"), f.get("text2"), str(f.get("detail") or "")
    try:
        if cause.startswith("comment:") or cause.startswith('number: "%f"'):
            if isinstance(t1, str) and isinstance(t2, str) and t1 != t2:
                return " " + explain_lines(t1, t2)
            if cause.startswith("comment:") and kind.endswith("-model"):
                m = re.search(r": (.*?) != (.*)$", d, re.S)
                strip = lambda x: "\n".join(z.lstrip(" \t") for z in x.split("\n"))  # noqa
                if m and strip(m.group(1)) == strip(m.group(2)):
                    return " [model only: comment text differs in the leading white space of continuation lines; texts equal]"
            return " [unrecognised shape]"
        if cause.startswith("string: escaped double quote") or cause.startswith("string/url: backslash"):
            from css_parser import helper
            dq = cause.startswith("string: escaped")
            ok_s = ok_u = False
            for t in _tok1(text, True):
                if t[0] == "STRING":
                    v = _stv(t)
                    if (rep_ok(v) == "dquote") if dq else ("\\" in v):
                        if "NOT" in head_tag(v):
                            return " [string written differently from the reference helper.string]"
                        ok_s = True
                elif t[0] == "URI":
                    v = helper.urivalue(t[1])
                    if (rep_ok(v) == "dquote") if dq else ("\\" in v):
                        if helper.uri(v) != ref_uri(v):
                            return " [url written differently from the reference helper.uri]"
                        ok_u = True
            if dq:
                return " [input has such a value, written as the reference helper.string / helper.uri writes it]" if ok_s or ok_u \
                    else " [no such string value in the input]"
            # since the repair of helper.string a STRING value with a backslash is read back; what is left is helper.uri,
            # which writes a value without '(', ')', white space, ';', ',' or quotes bare, backslashes included
            if ok_u:
                return " [input has a url() value with a backslash, written as the reference helper.uri writes it]"
            return " [only string values have a backslash]" if ok_s else " [no such value in the input]"
        if cause.startswith("attribute selector:"):
            m = re.search(r"\['([^']*)', '[^']*'\] != ", d)
            dflt = _e2e()._parse(text).namespaces.get("", None)
            return " [the lost namespace is the default namespace]" if m and dflt is not None and m.group(1) == dflt \
                else " [the lost namespace is NOT the default namespace]"
        if cause.startswith("calc:") and "RATIO" in cause:
            ok = isinstance(t1, str) and any(t[0] == "RATIO" for t in _tok1(t1, True))
            return " [first text has a RATIO token]" if ok else " [first text has no RATIO token]"
        if cause.startswith("unknown at-rule: \"/\""):
            return " [input has '/' white space '*' in an at-rule]" if re.search(r"@[^;{}]*/\s+\*", text) else " [no such input]"
    except Exception as e:  # noqa
        return " [refine failed: %s]" % type(e).__name__
    return ""


IDENT_ESC = "identifier: a spelling with an escape is written back without the escape"


def escaped_idents(text):
    """resolved values of the identifier-like tokens of `text` that are spelled with an escape AND whose resolved spelling,
    written verbatim, is not read back as the same single token (so the escape was needed): `\\31 0`, `a\\:b`, `\\3`"""
    out = []
    try:
        toks = _tok1(text, True)
        lines = text.split("\n")
        starts = [0]
        for ln in lines:
            starts.append(starts[-1] + len(ln) + 1)
        offs = [starts[t[2] - 1] + t[3] - 1 for t in toks]
        for i, t in enumerate(toks):
            if t[0] not in ("IDENT", "HASH", "FUNCTION", "DIMENSION", "ATKEYWORD"):
                continue
            raw = text[offs[i]:offs[i + 1]] if i + 1 < len(toks) else text[offs[i]:]
            if "\\" not in raw or t[1] == raw:
                continue
            back = _tok1(t[1])
            if not (len(back) == 1 and back[0][0] == t[0] and back[0][1] == t[1]) and t[1] not in out:
                out.append(t[1])
    except Exception:  # noqa
        pass
    return out


def candidates(f, text):
    """family texts of one end-to-end failure: '<kind> :: <object class> [@path] :: <cause> [<HEAD shape tag>]' for EVERY
    rule of c03_e2e._CAUSES that fires (the first one is c03_e2e.family's).  A sheet-level failure is often the union of
    several recorded behaviours; it counts as known when one candidate matches an open finding, and each candidate's tag
    demands that the whole difference has the HEAD shape of its family.  'other' (no rule fires; e.g. a rule re-parsed in
    isolation behind the sheet's serialised @namespace rules) gets the string features of the whole sheet."""
    E = _e2e()
    base = E.family(f)
    prefix, first = base.rsplit(" :: ", 1)
    names = [first]
    if not first.startswith("exception") and first != "other":
        k, d = f.get("kind", ""), f.get("detail") or ""
        t1, t2 = f.get("text1") or "", f.get("text2") or ""
        t1, t2 = (t1 if isinstance(t1, str) else str(t1)), (t2 if isinstance(t2, str) else str(t2))
        w1, w2 = E._window(f)
        for name, test in E._CAUSES:
            try:
                if name not in names and test(k, w1, w2, d, t1, t2):
                    names.append(name)
            except Exception:  # noqa
                pass
    slash = 'unknown at-rule: "/" and "*" are glued into a comment start'
    if slash not in names and text is not None and re.search(r"@[^;{}]*/\s+\*", text) and \
            isinstance(f.get("text1"), str) and re.search(r"@[\w-]+[^;{}]*/\*", f["text1"]):
        names.append(slash)      # the glued comment swallowed so much that the rule of c03_e2e sees no second text
    if text is not None and not first.startswith("exception") and isinstance(f.get("text1"), str):
        vals = [v for v in escaped_idents(text) if v.lstrip("#") in f["text1"]]
        if vals:
            names.append(IDENT_ESC)  # HEAD writes the resolved value verbatim; the first text of the failing object has it
    cr = 'calc: "int / int)" of the serialised text is a RATIO token'
    if cr not in names and isinstance(f.get("text1"), str) and \
            re.search(r"calc\([^()]*(?<![0-9.a-zA-Z])[0-9]+ / [0-9]+\)", f["text1"], re.I) and f.get("text2") != f["text1"]:
        names.append(cr)         # the lost declaration shifts the following ones; c03_e2e's rule looks at a window only
    uh = "unknown at-rule: #rrggbb is minimised to #rgb"
    if uh not in names and re.search(r"tokens\[\d+\]\[1\]: #(.)\1(.)\2(.)\3 != #\1\2\3$", str(f.get("detail") or ""), re.S):
        names.append(uh)         # _hash minimises every #c1c1c2c2c3c3, hex digits or not (c03_e2e's rule asks for hex digits)
    out = []
    for n in names:
        if n == "other":
            lost = " [the rule re-parsed in isolation is lost]" if "gives 0 rules" in str(f.get("detail") or "") else ""
            out.append(prefix + " :: other" + lost + (sheet_feature(text) if text is not None else ""))
        else:
            out.append(prefix + " :: " + n + (refine(f, text, n) if text is not None else ""))
    return out


def e2e_sig(f, text=None):
    return candidates(f, text)[0]


def e2e_known(ctx, f, text):
    "the candidate family text that matches an open finding, or None"
    what = "re-parse of serialised text differs: " + f.get("kind", "")
    for c in candidates(f, text):
        if ctx.match_known(what + " :: " + c):
            return c
    return None


def report_e2e(ctx, groups, total_budget):
    """groups: candidate family texts -> (smallest failing sheet, failure). Families of which a candidate matches an open
    finding are only counted; the others are shrunk (within the total budget) and reported as violations."""
    E = _e2e()
    t_end = time.time() + total_budget
    for key, (text, f) in sorted(groups.items(), key=lambda kv: len(kv[1][0])):
        fam = key.split(" || ")[0]
        what = "re-parse of serialised text differs: " + f.get("kind", "")
        w = {"level": "sheet", "text": text, "kind": f.get("kind"), "where": f.get("where"),
             "text1": f.get("text1"), "text2": f.get("text2"), "detail": str(f.get("detail"))[:600], "family": key}
        known = e2e_known(ctx, f, text)
        if known:
            ctx.violation(what, w, sig_text=known)
            continue
        left = t_end - time.time()
        if left > 2:
            try:
                small = E.shrink(text, lambda t, fam=fam: E.wellformed_input(t) and any(e2e_sig(x, t) == fam for x in e2e_text(t)),
                                 budget_s=min(15, left))
                ff = [x for x in e2e_text(small) if e2e_sig(x, small) == fam]
                if ff:
                    w.update(text=small, where=ff[0].get("where"), text1=ff[0].get("text1"), text2=ff[0].get("text2"),
                             detail=str(ff[0].get("detail"))[:600])
            except Exception:  # noqa
                pass
        ctx.violation(what, w, sig_text=fam)


def group_e2e(results, groups, counts):
    for text, fails in results:
        for f in fails:
            key = " || ".join(candidates(f, text))
            counts[key] = counts.get(key, 0) + 1
            if key not in groups or len(text) < len(groups[key][0]):
                groups[key] = (text, f)


def run(ctx):
    thorough = ctx.tier == "thorough"
    t_stage = time.time()
    ctx.regen("tokenizer", "quote")
    ctx.coq_build("props/C03.v")
    binary = ctx.ocaml_build("quote")
    ctx.notes.append("regen + coq + ocaml build (incl. waiting for the shared locks): %.1fs" % (time.time() - t_stage))

    # ---- corpus first
    cpath = VERIF / "corpus" / "C03.json"
    corpus = json.loads(cpath.read_text()) if cpath.exists() else {"strings": [], "sheets": []}

    # ---- function-level correspondence
    lines, n_exh = gen_function_cases(ctx, thorough)
    lines = ["F 0 " + cps(x) for x in corpus.get("strings", [])] + lines
    impl = ctx.pool_map(impl_line, lines, procs=6, chunksize=2048)
    mism = []
    nontrivial = set()
    if binary:
        out = ctx.run_binary(binary, lines, shards=6)
        for ln, i, o in zip(lines, impl, out):
            if i != o:
                mism.append((ln, i, o))
            elif ln[0] == "F" and o.startswith("83,84,82,73,78,71|"):
                nontrivial.add(ln)
    if mism:
        ctx.broken("correspondence", "helper.string / stringvalue / _stringtokenvalue / first token vs CssV.Gen.Quote + Tokenizer",
                   "%d of %d lines differ; first: %s" % (len(mism), len(lines), json.dumps(mism[:3])))

    # ---- string-level oracle on the implementation
    scases, n_claimed = gen_string_cases(ctx, thorough)
    scases = [("s", x, "") for x in corpus.get("strings", [])] + scases
    sres = ctx.pool_map(string_oracle, scases, procs=6, chunksize=2048)
    s_fail = 0
    skipped_known = 0
    for case, r in zip(scases, sres):
        if r:
            s_fail += 1
            what, feat = r
            w = {"level": "string", "kind": case[0], "text": case[1], "follow": case[2]}
            if not ctx.violation(what, w, sig_text=feat + " :: " + json.dumps(case[1])):
                skipped_known += 1

    # ---- end to end
    e2e_n = 6000 if thorough else 1500
    args = [(ctx.rng.randrange(1 << 60), 1 + (i % 8)) for i in range(e2e_n)]
    t0 = time.time()
    e2e = ctx.pool_map(e2e_case, args, procs=6, chunksize=16)
    e2e_wall = time.time() - t0
    groups, fam_count = {}, {}
    group_e2e([(t, e2e_text(t)) for t in corpus.get("sheets", [])], groups, fam_count)
    group_e2e(e2e, groups, fam_count)
    e2e_fail = sum(1 for t, f in e2e if f)
    report_e2e(ctx, groups, 90 if thorough else 30)

    # ---- layout oracle (tokenization of the joined rule texts for every kind of lineSeparator)
    largs = [(ctx.rng.randrange(1 << 60), 1 + (i % 6)) for i in range(1200 if thorough else 300)]
    lay = ctx.pool_map(layout_case, largs, procs=6, chunksize=8)
    lay_fail = [f for fs in lay for f in fs]
    seen_lay = set()
    for f in lay_fail:
        key = (f["what"], f["sep"])
        if key in seen_lay:
            continue
        seen_lay.add(key)
        ctx.violation("layout: " + f["what"], dict(f, level="layout"), sig_text="sep=%r :: %s" % (f["sep"], f["what"]))

    # ---- known findings: re-run the stored witnesses
    for f in ctx.findings:
        if f.get("status") == "open":
            run_witness(ctx, f["witness"])

    def search():
        t0 = time.time()
        rng = ctx.rng
        limit = 300 if thorough else 60
        while time.time() - t0 < limit:
            batch = []
            for _ in range(3000):
                q = rng.choice("\"'")
                body = "".join(rng.choice(ALPHA) for _ in range(rng.randint(0, 10)))
                batch.append(("s", q + body + q, rng.choice(FOLLOWS)))
                batch.append(("v", body.replace("\\", ""), rng.choice(FOLLOWS)))
            for case, r in zip(batch, ctx.pool_map(string_oracle, batch, procs=6, chunksize=512)):
                if r and not ctx.match_known(r[0] + " :: " + r[1] + " :: " + json.dumps(case[1])):
                    return {"level": "string", "kind": case[0], "text": case[1], "follow": case[2], "fails": r[0]}
            args = [(rng.randrange(1 << 60), 1 + (i % 8)) for i in range(300)]
            E = _e2e()
            for text, fails in ctx.pool_map(e2e_case, args, procs=6, chunksize=8):
                for f in fails:
                    if not e2e_known(ctx, f, text):
                        return {"level": "sheet", "text": text, "kind": f.get("kind"), "where": f.get("where"),
                                "fails": e2e_sig(f, text)}
        return None

    ctx.finish({
        "evaluations": len(lines) + len(scases) + len(e2e),
        "distinct_nontrivial": len(nontrivial) + sum(1 for t, f in e2e if t.strip()),
        "rule": "function level: all strings of length <= 2 (thorough: <= 3) over a %d-symbol alphabet (quotes, backslash, "
                "newline kinds, hex digits, blanks, non-ASCII incl. astral and a lone surrogate) + all length-3 strings over "
                "its 16 structural symbols + random strings of 4-24 symbols, each through helper.string / helper.stringvalue / "
                "_stringtokenvalue (%d exhaustive lines) and through the composed first-token round trip (quoted, serialised, raw); "
                "string-level oracle: %d values (with backslashes) x follow texts (domain of string_roundtrip) and %d quoted "
                "sources with escapes (parsed domain); end to end: %d generated sheets (sizes 1-8) with all sub-objects. "
                "non-trivial = composed lines whose first token is a STRING + non-empty sheets"
                % (len(ALPHA), n_exh, n_claimed, len(scases) - n_claimed, len(e2e)),
        "samples": [lines[n_exh + 7][:200], list(scases[n_claimed + 11]), e2e[3][0][:300] if len(e2e) > 3 else ""],
        "disagreements_checked": len(lines) if binary else 0,
        "string_oracle_failures": s_fail,
        "string_oracle_failures_matching_known_findings": skipped_known,
        "e2e_sheets": len(e2e), "e2e_sheets_with_failures": e2e_fail, "e2e_failure_kinds": fam_count,
        "e2e_wall_s": round(e2e_wall, 1),
        "layout_sheets": len(lay), "layout_separators": LAYOUT_SEPS, "layout_failures": len(lay_fail),
        "trusted_base": TRUSTED,
    }, assumptions=ASSUME, search=search)


def run_witness(ctx, w):
    """re-run one stored witness through the oracle it came from; reports through ctx.violation"""
    if w.get("level") == "string":
        r = string_oracle((w["kind"], w["text"], w.get("follow", "")))
        if r:
            ctx.violation(r[0], w, sig_text=r[1] + " :: " + json.dumps(w["text"]))
        return r
    if w.get("level") == "sheet":
        E = _e2e()
        fails = e2e_text(w["text"])
        for f in fails:
            ctx.violation("re-parse of serialised text differs: " + f.get("kind", ""), w,
                          sig_text=e2e_known(ctx, f, w["text"]) or e2e_sig(f, w["text"]))
        return fails
    return None


def replay(ctx, path):
    rep = json.loads(open(path).read())
    bad = 0
    for v in rep.get("violations", []):
        w = v["witness"]
        if w.get("level") == "string":
            r = string_oracle((w["kind"], w["text"], w.get("follow", "")))
            print("replay string %r follow %r -> %s" % (w["text"], w.get("follow", ""), r[0] if r else "holds"))
            bad += bool(r)
        elif w.get("level") == "sheet":
            fails = e2e_text(w["text"])
            print("replay sheet %r -> %s" % (w["text"][:200], "; ".join("%s at %s" % (f.get("kind"), f.get("where")) for f in fails) or "holds"))
            for f in fails[:3]:
                print("   text1=%r\n   text2=%r\n   detail=%s" % (f.get("text1"), f.get("text2"), str(f.get("detail"))[:300]))
            bad += bool(fails)
    return 1 if bad else 0


TRUSTED = [
    "Coq 8.16.1 kernel and VM (vm_compute for the refutation witness, the examples and the finite checks on the generated "
    "productions: before_STRING_fail, productions_split, shapes of re_STRING); no native_compute",
    "translate/quote.py (Python ast -> Gallina, fail-closed, fixed reading in coq/theories/Quote.v) and translate/tokenizer.py + "
    "regexlib.py (CPython's re._parser)",
    "extraction (ExtrOcamlBasic only) + ocamlfind ocamlopt, ocaml/quote_driver.ml",
    "the shared tokenizer model CssV.Tokenizer (hand-written transcription of Tokenizer.tokenize, tied by C08's correspondence "
    "and by the F lines of this check)",
    "correspondence harness harness/props/c03.py; the end-to-end oracle harness/props/c03_e2e.py (generator, independent "
    "model extractor, number normalisation to 6 decimals / zero-length unit drop)",
    "premises of reparse_equal_items (not proved here): out_tokens_preserved (serializer `Out` spacing, C05), "
    "value_grammar_faithful (prodparser value grammar) and wf_item for non-string lexemes (C17 number_roundtrip, C09); "
    "validated end to end by the sheet-level oracle. HYPOTHESIS-FREE w.r.t. the value grammar since RoundtripPP.v: for "
    "non-empty values made of STRING items (representable, no double quote, no trailing backslash) and IDENT items (no "
    "colour keyword) joined by one space, value_grammar_faithful_pp / reparse_equal_items_pp instantiate vparse with the PP "
    "engine's PropertyValue parse + constructor + read-back (ProdParserValue.build_value on the regenerated production "
    "tree) and prove the premise; what is left there is only out_tokens_spaced (the `Out` premise, C05). Everything "
    "else of the value grammar (numbers, urls, colours, functions, comma / slash operators as C03 items) still rests on "
    "the premise",
    "the PP engine model (coq/theories/ProdParser*.v, Gen/ProdTrees.v, Grammar.v: tied to prodparser.py / value.py by PP's own "
    "translator and correspondence, see design_notes/PP.md) for reparse_equal_items_pp",
    "CPython 3.12 str.replace / slicing / % formatting / re as the semantics being modelled",
]
ASSUME = [
    "Print Assumptions for every theorem of props/C03.v: see coverage.print_assumptions (all closed under the global context)",
    "string_roundtrip is stated for values without a backslash; for values with a backslash it is refuted "
    "(string_roundtrip_backslash_refuted) - see known finding C03-escaped-dquote-in-string",
    "sheet / rule / selector / media level: no Coq model of the serializer's do_* methods; the composition theorem "
    "reparse_equal_items keeps Out and the value grammar as hypotheses; these levels are covered by the end-to-end oracle only",
]
