"""C20 -- @import loading is confined to the fetcher and tolerates its failures.

proof:          coq/props/C20.v over the model coq/theories/Imports.v (+ ImportsFacts.v)
tie:            translate/imports.py regenerates the enctype ladder of _readUrl, the exception tuple of _setHref, the
                position of the urljoin call, the enctype split, the retry of insertRule, the fetcher inheritance and
                the wrap-kinds of resolveImports (Gen/Import.v); the hand-written control flow (set_href, parse_src,
                urljoin, resolve) is compared with the implementation on every case below through a recording fetcher
oracle/search:  the statements of the property evaluated on the implementation alone (no model): calls only to the
                configured fetcher and only at URLs obtained by resolving an href against the importing sheet,
                documented fetcher behaviours never make the parse raise, every well-placed @import is kept with its
                href, a failed load leaves hrefFound False and an empty sheet, decoding follows the priority list,
                resolveImports inlines in order / wraps / keeps.
The default (network/file) fetcher is never used: css_parser.util._defaultFetcher is replaced by a recorder.
"""
import codecs
import itertools
import json
import logging
import re
import sys
import time
import urllib.parse

from harness.lib import VERIF

sys.setrecursionlimit(1000)

# ------------------------------------------------------------------------------------------ case language
# struct   = {"charset": str|None, "items": [["I", href, media] | ["S", sel, payload] | ["C", text] | ["N", uri]]}
# behaviour= ["none"] | ["empty"] | ["three"] | ["nonenone"] | ["httpnone", http] | ["text", http, struct]
#          | ["bytes", http, struct, codec] | ["raise", excname] | ["mistyped", kind]   (see MISTYPED)
# case     = {"top": struct, "href": str|None, "override": str|None, "table": {url: [behaviour, ...]}}
#            (the k-th call of a URL gets the k-th behaviour, the last one repeats; unknown URL -> None)
DOCUMENTED_RAISE = ("OSError", "IOError", "ValueError")
CWD_URL = None


def render(st):
    out = []
    if st.get("charset") is not None:
        out.append('@charset "%s";' % st["charset"])
    for it in st["items"]:
        if it[0] == "I":
            out.append('@import "%s"%s;' % (it[1], "" if it[2] == "all" else " " + it[2]))
        elif it[0] == "S":
            out.append('%s{content:"%s"}' % (it[1], it[2]))
        elif it[0] == "C":
            out.append("/*%s*/" % it[1])
        elif it[0] == "N":
            out.append('@namespace p "%s";' % it[1])
    return "\n".join(out) if out and out[0].startswith("@charset") else "\n".join(out)


STMT = re.compile(r'\s*(?:@import "([^"]*)"(?: ([a-z, ]+))?;|@namespace p "([^"]*)";|/\*(.*?)\*/|'
                  r'([a-z][a-z0-9]*)\{content:"([^"]*)"\})', re.S)
IDENT = re.compile(r"^-?[A-Za-z_][A-Za-z0-9_-]*$")


def enc_norm(name):
    """what CSSCharsetRule accepts: one IDENT token that codecs.lookup knows; stored lower-cased"""
    if not name or not IDENT.match(name):
        return None
    try:
        codecs.lookup(name)
    except LookupError:
        return None
    return name.lower()


def mini_parse(text):
    """statements of a text written by render() (possibly re-decoded): the harness's own reader"""
    charset = None
    pos = 0
    m = re.match(r'@charset "([^"]*)";', text)
    if m:
        charset = enc_norm(m.group(1))
        pos = m.end()
    items = []
    while True:
        m = STMT.match(text, pos)
        if not m:
            break
        pos = m.end()
        if m.group(1) is not None:
            items.append(["I", m.group(1), m.group(2) or "all"])
        elif m.group(3) is not None:
            items.append(["N", m.group(3)])
        elif m.group(4) is not None:
            items.append(["C", m.group(4)])
        else:
            items.append(["S", m.group(5), m.group(6)])
    if text[pos:].strip():
        raise ValueError("mini_parse: cannot read %r" % text[pos:pos + 40])
    return {"charset": charset, "items": items}


def detect(content):
    """codec.detectencoding_unicode / _str for the texts render() writes"""
    if isinstance(content, bytes):
        if content.startswith(b"\xef\xbb\xbf"):
            return "utf-8-sig", True
        try:
            head = content[:80].decode("latin-1")
        except Exception:  # noqa
            head = ""
    else:
        head = content[:80]
    if not head:
        return None, False
    m = re.match(r'@charset "([^"]*)"', head)
    if m:
        return m.group(1), True
    return "utf-8", False


def content_of(b):
    if b[0] == "text":
        return render(b[2])
    if b[0] == "bytes":
        return render(b[2]).encode(b[3])
    return None


MISTYPED = {"int": 5, "intcontent": (None, 123), "byteslabel": (b"utf-8", b"a{}"), "intlabel": (123, "a{}"),
            "listcontent": (None, ["a"]), "str": "ab", "true": True}


def py_result(b):
    k = b[0]
    if k == "none":
        return None
    if k == "empty":
        return ()
    if k == "three":
        return (None, "a{}", 1)
    if k == "nonenone":
        return (None, None)
    if k == "httpnone":
        return (b[1], None)
    if k in ("text", "bytes"):
        return (b[1], content_of(b))
    if k == "mistyped":
        return MISTYPED[b[1]]
    raise AssertionError(k)


# ------------------------------------------------------------------------------------------ implementation side
def dump_sheet(sheet, depth=0):
    out = []
    for r in sheet.cssRules:
        if r.type == r.CHARSET_RULE:
            out.append(["charset", r.encoding])
        elif r.type == r.IMPORT_RULE:
            sub = r.styleSheet
            out.append(["import", r.href, r.media.mediaText, bool(r.hrefFound), None if sub is None else sub.href,
                        dump_sheet(sub, depth + 1) if (sub is not None and depth < 12) else []])
        elif r.type == r.NAMESPACE_RULE:
            out.append(["ns", r.namespaceURI])
        elif r.type == r.STYLE_RULE:
            out.append(["style", r.selectorText, r.style.getPropertyValue("content")[1:-1]])
        elif r.type == r.COMMENT:
            out.append(["comment", r.cssText[2:-2]])
        elif r.type == r.MEDIA_RULE:
            out.append(["media", r.media.mediaText, dump_sheet(r, depth + 1)])
        else:
            out.append(["other", r.cssText])
    return out


def flat_dump(sheet):
    out = []
    for r in dump_sheet(sheet):
        if r[0] == "import":
            out.append(["import", r[1], r[2]])
        elif r[0] != "charset":
            out.append(r)
    return out


def run_impl(case):
    """parse with a recording fetcher, then resolveImports; returns a JSON-able observation"""
    import css_parser
    import css_parser.util as U
    css_parser.log.setLevel(logging.FATAL)
    default_calls = []

    def fake_default(url):
        default_calls.append(url)
        return None
    U._defaultFetcher = fake_default
    calls, counts = [], {}
    table = case["table"]

    def fetcher(url):
        calls.append(url)
        bl = table.get(url)
        if not bl:
            return None
        k = counts.get(url, 0)
        counts[url] = k + 1
        b = bl[min(k, len(bl) - 1)]
        if b[0] == "raise":
            raise {"OSError": OSError, "IOError": IOError, "ValueError": ValueError, "TypeError": TypeError,
                   "LookupError": LookupError, "KeyError": KeyError, "AttributeError": AttributeError,
                   "UnicodeDecodeError": lambda m: UnicodeDecodeError("utf-8", b"\xff", 0, 1, m),
                   "RuntimeError": RuntimeError}[b[1]]("fetcher says no")
        return py_result(b)
    saved = css_parser.log.raiseExceptions
    obs = {}
    try:
        p = css_parser.CSSParser(fetcher=fetcher, loglevel=logging.FATAL)
        try:
            sheet = p.parseString(render(case["top"]), href=case["href"], encoding=case["override"])
        except RecursionError:
            return {"r": "D", "trace": calls[:6]}
        except Exception as e:  # noqa
            return {"r": "E", "exn": type(e).__name__, "msg": str(e)[:160], "trace": list(calls),
                    "default_calls": list(default_calls)}
        obs = {"r": "N", "rules": dump_sheet(sheet), "trace": list(calls), "encoding": sheet.encoding,
               "href": sheet.href}
        n = len(calls)
        # resolveImports runs outside a parse: log.raiseExceptions is whatever the application set (default True)
        css_parser.log.raiseExceptions = bool(case.get("raising", True))
        try:
            flat = css_parser.resolveImports(sheet)
            obs["resolve"] = flat_dump(flat)
        except RecursionError:
            obs["resolve"] = "EXC:RecursionError"
        except Exception as e:  # noqa
            obs["resolve"] = "EXC:" + type(e).__name__
            obs["resolve_msg"] = str(e)[:160]
        obs["resolve_calls"] = calls[n:]
        obs["default_calls"] = list(default_calls)
        return obs
    finally:
        css_parser.log.raiseExceptions = saved


# ------------------------------------------------------------------------------------------ model side
def sx_str(x):
    return "'" + ",".join(str(ord(c)) for c in x)


def sx_opt(x):
    return "_" if x is None else sx_str(x)


def sx_url(u):
    try:
        p = urllib.parse.urlparse(u, allow_fragments=False)
        if p.params:
            raise AssertionError("URL with params outside the modelled subset: " + u)
        return "(%s (%s %s %s %s))" % (sx_str(u), sx_str(p.scheme), sx_str(p.netloc), sx_str(p.path), sx_str(p.query))
    except ValueError:
        return "(%s _)" % sx_str(u)


def sx_src(st, charset_done=False):
    """st: a struct as *parsed* (charset already validated when charset_done)"""
    cs = st.get("charset")
    if not charset_done:
        cs = enc_norm(cs) if cs is not None else None
    items = []
    for it in st["items"]:
        if it[0] == "I":
            items.append("(I %s %s)" % (sx_url(it[1]), sx_str(it[2])))
        elif it[0] == "S":
            items.append("(S %s %s)" % (sx_str(it[1]), sx_str(it[2])))
        elif it[0] == "C":
            items.append("(C %s)" % sx_str(it[1]))
        else:
            items.append("(N %s)" % sx_str(it[1]))
    return "(%s (%s))" % (sx_opt(cs), " ".join(items))


def structs_of(case):
    out = [case["top"]]
    for bl in case["table"].values():
        for b in bl:
            if b[0] in ("text", "bytes"):
                out.append(b[2])
    return out


def model_line(case, fuel=64):
    from translate.imports import EXN
    encs = {"utf-8", "utf-8-sig"}
    if case["override"]:
        encs.add(case["override"])
    for st in structs_of(case):
        if st.get("charset"):
            encs.add(st["charset"])
    for bl in case["table"].values():
        for b in bl:
            if b[0] in ("text", "bytes", "httpnone") and b[1]:
                encs.add(b[1])
    encs |= {e.lower() for e in encs}
    texts, byts = {}, {}

    def tid(t):
        return texts.setdefault(t, len(texts))
    fetch, det, dec = [], [], []
    for url, bl in case["table"].items():
        outs = []
        for b in bl:
            k = b[0]
            if k in ("none", "empty"):
                outs.append("(0)")
            elif k in ("three", "mistyped"):
                outs.append("(1)")
            elif k in ("nonenone", "httpnone"):
                outs.append("(2)")
            elif k == "raise":
                cls = {"IOError": "OSError"}.get(b[1], b[1])
                outs.append("(4 %d)" % EXN.index(cls))
            else:
                c = content_of(b)
                if k == "text":
                    ref = "(T %d)" % tid(c)
                else:
                    if c not in byts:
                        byts[c] = len(byts)
                    ref = "(B %d)" % byts[c]
                outs.append("(3 %s %s)" % (sx_opt(b[1]), ref))
                d = detect(c)
                det.append("(%s %s %d)" % (ref, sx_opt(d[0]), 1 if d[1] else 0))
        fetch.append("(%s (%s))" % (sx_str(url), " ".join(outs)))
    for raw, bid in list(byts.items()):
        for e in sorted(encs):
            try:
                t = codecs.getdecoder("css")(raw, encoding=e)[0]
                dec.append("(%d %s (T %d))" % (bid, sx_str(e), tid(t)))
            except UnicodeDecodeError:
                dec.append("(%d %s (R %d))" % (bid, sx_str(e), EXN.index("UnicodeDecodeError")))
            except LookupError:
                dec.append("(%d %s (R %d))" % (bid, sx_str(e), EXN.index("LookupError")))
            except Exception:  # noqa
                dec.append("(%d %s (R %d))" % (bid, sx_str(e), EXN.index("Exception")))
    parse = ["(%d %s)" % (i, sx_src(mini_parse(t), True)) for t, i in texts.items()]
    norm = ["(%s %s)" % (sx_str(e), sx_opt(enc_norm(e))) for e in sorted(encs)]
    world = "((%s) (%s) (%s) (%s) (%s))" % (" ".join(fetch), " ".join(det), " ".join(dec), " ".join(parse), " ".join(norm))
    base = "_" if case["href"] is None else sx_url(case["href"])
    top = mini_parse(render(case["top"]))
    return "(P %d %s %s %s %s %s)" % (fuel, sx_url(cwd_url()), base, sx_opt(case["override"]), sx_src(top, True), world)


def cwd_url():
    global CWD_URL
    if CWD_URL is None:
        import os
        import css_parser.helper
        CWD_URL = css_parser.helper.path2url(os.getcwd()) + "/"
    return CWD_URL


def S(x):
    return "".join(chr(c) for c in x)


def conv_rules(rs):
    out = []
    for r in rs:
        k = r[0]
        if k == "import" and len(r) == 3:
            out.append(["import", S(r[1]), S(r[2])])
        elif k == "import":
            out.append(["import", S(r[1]), S(r[2]), r[3], None if r[4] is None else S(r[4]), conv_rules(r[5])])
        elif k == "media":
            out.append(["media", S(r[1]), conv_rules(r[2])])
        else:
            out.append([k] + [S(x) for x in r[1:]])
    return out


def conv_model(line):
    m = json.loads(line)
    if m["r"] == "N":
        return {"r": "N", "rules": conv_rules(m["rules"]), "trace": [S(x) for x in m["trace"]],
                "encoding": S(m["encoding"]), "resolve": None if m["resolve"] is None else conv_rules(m["resolve"]),
                "kept": [S(x) for x in m["kept"]], "resolve_fetcher": m["resolve_fetcher"]}
    if m["r"] == "E":
        return {"r": "E", "exn": S(m["exn"]), "trace": [S(x) for x in m["trace"]]}
    return m


def compare(case, impl, model):
    """model vs implementation; returns None or a description"""
    if model["r"] == "BAD":
        return "model driver rejected the case: %s" % model.get("why")
    if impl["r"] != model["r"]:
        return "outcome class: implementation %s %s, model %s %s" % (impl["r"], impl.get("exn", ""), model["r"],
                                                                   model.get("exn", ""))
    if impl["r"] == "D":
        return None
    if impl["trace"] != model["trace"]:
        return "fetcher calls: implementation %r, model %r" % (impl["trace"], model["trace"])
    if impl["r"] == "E":
        if impl["exn"] != model["exn"]:
            return "escaping exception: implementation %s, model %s" % (impl["exn"], model["exn"])
        return None
    if impl["rules"] != model["rules"]:
        return "rule tree: implementation %s, model %s" % (json.dumps(impl["rules"]), json.dumps(model["rules"]))
    if impl["encoding"] != model["encoding"]:
        return "sheet.encoding: implementation %r, model %r" % (impl["encoding"], model["encoding"])
    if stateless(case) and not refetch_loads(case, impl):
        # (resolveImports re-requests every kept unloaded @import; the pure model of the flattening is exact when
        #  those requests fail again.  They can only succeed when a nested import is re-requested at ANOTHER url
        #  that happens to be served -- open finding C20-resolve-rebase-kept-import)
        mr = "EXC:HierarchyRequestErr" if model["resolve"] is None else model["resolve"]
        if impl["resolve"] != mr:
            return "resolveImports: implementation %s, model %s" % (json.dumps(impl["resolve"]), json.dumps(mr))
        want = "configured" if not impl["default_calls"] else "default"
        if impl["resolve"] != "EXC:HierarchyRequestErr" and model["kept"] and model["resolve_fetcher"] != want:
            return "fetcher used by resolveImports for kept imports: implementation %s, model %s" % (
                want, model["resolve_fetcher"])
    return None


def refetch_loads(case, impl):
    """does a re-request that resolveImports makes for a kept nested import reach content?  Only possible when the import
    is re-resolved in the context of the flattened sheet instead of its own sheet: ANOTHER url than at parse time, or the
    same URL that was refused at parse time because it is in the import chain (the flattened sheet has no chain)"""
    from css_parser.util import urljoin
    same = set()

    def walk(rules, base, chain):
        for r in rules:
            if r[0] == "import":
                if not r[3]:
                    try:
                        u = urljoin(base, r[1])
                        if u not in chain:          # (refused by the cycle guard: not a fetch failure)
                            same.add(u)
                    except ValueError:
                        pass
                elif r[4]:
                    walk(r[5], r[4], chain + [r[4]])
    walk(impl.get("rules", []), impl.get("href") or cwd_url(), [impl.get("href")])
    for u in impl.get("resolve_calls", []):
        bl = case["table"].get(u)
        if u not in same and bl and any(b[0] in ("text", "bytes") for b in bl):
            return True
    return False


def stateless(case):
    return all(len(bl) == 1 for bl in case["table"].values())


# ------------------------------------------------------------------------------------------ property-level oracle
def first_truthy(xs):
    for x in xs:
        if x:
            return x
    return None


def documented(case):
    for bl in case["table"].values():
        for b in bl:
            if b[0] == "raise" and b[1] not in DOCUMENTED_RAISE:
                return False
    return True


DEEP = 150


def reach(case, limit=400):
    """allowed URLs: every href of every sheet the table can serve, resolved (RFC 3986, urllib) against the URL of
    that sheet, following the import chains as the property describes them (a URL that is already in the chain is
    not loaded again); also reports whether some chain comes back to one of its URLs (import cycle) and whether a
    chain of distinct URLs is deeper than DEEP sheets"""
    allowed, cyc, deep = set(), [False], [False]
    base0 = case["href"] if case["href"] is not None else cwd_url()

    def walk(base, st, path):
        for it in st["items"]:
            if it[0] != "I" or not it[1]:
                continue
            try:
                u = std_join(base, it[1])
            except ValueError:
                continue
            allowed.add(u)
            if u in path:
                cyc[0] = True
                continue
            if len(path) > DEEP:
                deep[0] = True
            if len(path) >= limit:
                continue
            for b in case["table"].get(u, []):
                if b[0] in ("text", "bytes"):
                    walk(u, b[2], path + [u])
    walk(base0, case["top"], [case["href"]] if case["href"] is not None else [])
    return allowed, cyc[0], deep[0]


def std_join(base, href):
    return urllib.parse.urljoin(base, href, allow_fragments=False)


def expected_load(case, base, parent_enc, href, k=0, chain=()):
    """independent reading of the property for a top-level import: (loaded?, encoding the text must be decoded with)"""
    try:
        u = std_join(base, href)
    except ValueError:
        return False, None, None
    bl = case["table"].get(u)
    if not bl or u in chain:
        return False, None, u           # (a URL of the import chain is not loaded again)
    b = bl[min(k, len(bl) - 1)]
    if b[0] not in ("text", "bytes"):
        return False, None, u
    c = content_of(b)
    d = detect(c)
    enc = first_truthy([case["override"], b[1], d[0] if d[1] else None, parent_enc, "utf-8"])
    if b[0] == "text":
        return True, enc, u
    try:
        c.decode(enc)
    except (UnicodeDecodeError, LookupError):
        return False, enc, u
    return True, enc, u


def oracle(case, impl):
    """returns a list of (description, sig_text)"""
    out = []
    allowed, cyclic, deep = reach(case)
    sig = "behaviours=" + ",".join(sorted({b[0] + (":" + b[1] if b[0] == "raise" else "") for bl in case["table"].values()
                                           for b in bl})) + (" cyclic" if cyclic else " acyclic") + (" deepchain" if deep else "")
    if impl.get("default_calls"):
        out.append(("the default (network/file) fetcher was called: %r" % impl["default_calls"][:3], sig))
    absolute = bool(urllib.parse.urlparse(case["href"] or cwd_url()).scheme)
    rebased = refetch_loads(case, impl)
    # (util.urljoin deliberately differs from RFC 3986 for relative bases: 'test.css' + '../x.css' = '../x.css';
    #  the URL statements are evaluated for absolute sheet URLs only)
    if absolute and impl["r"] != "D":
        bad = [u for u in impl.get("trace", []) if u not in allowed]
        if bad and ("/../" in bad[0] or bad[0].endswith("/..")):
            out.append(("the fetcher was called with %r: '..' segments above the root are kept instead of dropped "
                        "(RFC 3986 5.2.4), which is not the href resolved against the sheet's URL" % bad[0],
                        sig + " above-root"))
        elif bad:
            out.append(("the fetcher was called with %r which is not an @import href resolved against its sheet's URL"
                        % bad[0], sig))
        bad = [u for u in impl.get("resolve_calls", []) if u not in allowed and "/../" not in u]
        if bad:
            out.append(("resolveImports re-requested a kept nested @import as %r, i.e. resolved against the flattened "
                        "sheet instead of the sheet that contains it" % bad[0], sig + " resolve-rebase"))
    if impl["r"] == "D":
        out.append(("the parse does not complete: RecursionError while loading nested imports", sig))
        return out
    if impl["r"] == "E":
        if documented(case):
            out.append(("the parse raised %s (%s) although the fetcher only shows documented behaviour"
                        % (impl["exn"], impl.get("msg", "")), sig))
        return out
    # kept rules of the top-level sheet
    top = mini_parse(render(case["top"]))
    base = case["href"] if case["href"] is not None else cwd_url()
    level, want = (1 if top["charset"] or (case["top"].get("charset") is not None) else 0), []
    for it in top["items"]:
        if it[0] == "I":
            if level <= 1 and it[1]:
                want.append(it)
            level = max(level, 1)
        elif it[0] == "C":
            level = max(level, 1)
        elif it[0] == "N":
            level = max(level, 2)
        else:
            level = 3
    got = [r for r in impl["rules"] if r[0] == "import"]
    if not absolute or any("/../" in u for u in impl["trace"]):
        want, got = [], []          # per-import statements need RFC resolution: absolute, not above the root
    if [r[1] for r in got] != [it[1] for it in want] and documented(case):
        out.append(("the @import rules kept are %r, written were %r" % ([r[1] for r in got], [it[1] for it in want]), sig))
        return out
    penc = top["charset"]
    seen = {}
    shared = not stateless(case) and any(it[0] == "I" for bl in case["table"].values() for b in bl
                                         if b[0] in ("text", "bytes") for it in b[2]["items"])
    for r, it in zip(got, want):
        if not documented(case) or shared:
            break       # (a flaky URL that nested sheets request too: which answer a rule got is not determined here)
        # a rule that failed is retried once by insertRule: the second answer counts
        u0 = None
        try:
            u0 = std_join(base, it[1])
        except ValueError:
            pass
        k = seen.get(u0, 0)
        chain0 = [case["href"]] if case["href"] is not None else []
        ok, enc, u = expected_load(case, base, penc, it[1], k, chain0)
        used = 1
        if not ok:
            ok, enc, u = expected_load(case, base, penc, it[1], k + 1, chain0)
            used = 2
        if u0 not in chain0:
            seen[u0] = k + used
        if r[3] != ok:
            out.append(("@import %r: hrefFound is %r, the fetcher's answer says %r" % (it[1], r[3], ok), sig))
            continue
        if not ok:
            if r[5] or r[4] is not None:
                out.append(("@import %r failed to load but its style sheet is not the empty sheet (href %r, %d rules)"
                            % (it[1], r[4], len(r[5])), sig))
            continue
        if r[4] != u:
            out.append(("imported sheet of %r has href %r, expected %r" % (it[1], r[4], u), sig))
        bl = case["table"][u]
        b = bl[min(seen[u0] - 1, len(bl) - 1)]
        # payloads tell which encoding the bytes were decoded with
        if b[0] == "bytes" and enc_norm(enc):
            exp = mini_parse(re.sub(r'^@charset "[^"]*"', '@charset "utf-8"', render(b[2]).encode(b[3]).decode(enc)))
            pay_exp = [x[2] for x in exp["items"] if x[0] == "S"]
            pay_got = [x[2] for x in r[5] if x[0] == "style"]
            if pay_exp != pay_got:
                out.append(("bytes of %r were not decoded with %r (priority override > HTTP > BOM/@charset > parent > "
                            "utf-8): payloads %r, expected %r" % (it[1], enc, pay_got, pay_exp), sig))
        if enc_norm(enc):
            senc = r[5][0][1] if r[5] and r[5][0][0] == "charset" else "utf-8"
            if senc != enc_norm(enc):
                out.append(("imported sheet of %r reports encoding %r, the priority list gives %r"
                            % (it[1], senc, enc_norm(enc)), sig))
    # the same statements at every depth (one answer per URL only)
    if stateless(case) and documented(case) and absolute and not any("/../" in u for u in impl["trace"]):
        enc_walk(case, impl["rules"], base, penc, out, sig, chain=[case["href"]] if case["href"] is not None else [])
    # resolveImports
    if stateless(case) and documented(case):
        res = impl.get("resolve")
        sig += " raising=%s" % bool(case.get("raising", True))
        if isinstance(res, str) and rebased:
            # consequence of a re-request at a wrong URL that is served (it loads something, with exceptions enabled)
            out.append(("resolveImports re-requested a kept nested @import in the context of the flattened sheet "
                        "(other base URL, import chain forgotten), loaded it and raised %s" % res[4:],
                        sig + " resolve-rebase"))
        elif isinstance(res, str):
            out.append(("resolveImports raised %s" % res[4:], sig + " resolve"))
        elif res is not None and not rebased:
            exp_styles, exp_kept, _ = flat_spec(impl["rules"])
            got_styles = styles_of(res)
            if got_styles != exp_styles:
                out.append(("resolveImports: style rules %r, expected (in order, media-wrapped) %r"
                            % (got_styles, exp_styles), sig + " resolve"))
            kept = [x[1] for x in res if x[0] == "import"]
            if kept != exp_kept:
                out.append(("resolveImports: kept @import rules %r, expected %r" % (kept, exp_kept), sig + " resolve"))
    return out


def nested_kept(rules, depth=0):
    """is there an unloaded @import below the top level?"""
    for r in rules:
        if r[0] == "import":
            if not r[3] and depth > 0:
                return True
            if nested_kept(r[5], depth + 1):
                return True
    return False


def enc_walk(case, rules, base, penc, out, sig, depth=1, chain=()):
    """loading and encoding priority for the imports of one sheet (URL `base`, encoding inherited by its imports
    `penc`), then recursively for every loaded sheet: the importing sheet's encoding is the encoding it was read with"""
    for r in rules:
        if r[0] != "import" or not r[1]:
            continue
        try:
            u = std_join(base, r[1])
        except ValueError:
            continue
        bl = case["table"].get(u)
        b = bl[0] if bl else ["none"]
        if u in chain:
            if r[3] or r[5]:
                out.append(("@import %r (depth %d) resolves to %r, a URL of its own import chain, and was loaded again"
                            % (r[1], depth, u), sig))
            continue
        if b[0] not in ("text", "bytes"):
            if r[3]:
                out.append(("@import %r (depth %d) is marked loaded although the fetcher gave no content" % (r[1], depth), sig))
            continue
        c = content_of(b)
        d = detect(c)
        own = [b[1], d[0] if d[1] else None, penc]
        enc = first_truthy([case["override"]] + own + ["utf-8"])
        ok = True
        if b[0] == "bytes":
            try:
                c.decode(enc)
            except (UnicodeDecodeError, LookupError):
                ok = False
        if r[3] != ok:
            out.append(("@import %r (depth %d): hrefFound is %r, but with the priority encoding %r the answer of the "
                        "fetcher is %s" % (r[1], depth, r[3], enc, "readable" if ok else "not readable"), sig))
            continue
        if not ok:
            continue
        if r[4] != u:
            out.append(("imported sheet of %r (depth %d) has href %r, expected %r" % (r[1], depth, r[4], u), sig))
            continue
        if enc_norm(enc):
            if b[0] == "bytes":
                exp = mini_parse(re.sub(r'^@charset "[^"]*"', '@charset "utf-8"', c.decode(enc)))
                pay_exp = [x[2] for x in exp["items"] if x[0] == "S"]
                pay_got = [x[2] for x in r[5] if x[0] == "style"]
                if pay_exp != pay_got:
                    out.append(("bytes of %r (depth %d) were not decoded with %r (priority override > HTTP > BOM/@charset > "
                                "importing sheet > utf-8): payloads %r, expected %r" % (r[1], depth, enc, pay_got, pay_exp), sig))
            senc = r[5][0][1] if r[5] and r[5][0][0] == "charset" else "utf-8"
            if senc != enc_norm(enc):
                out.append(("imported sheet of %r (depth %d) reports encoding %r, the priority list gives %r"
                            % (r[1], depth, senc, enc_norm(enc)), sig))
        if depth < 6:
            # what the imports of this sheet inherit: the encoding it was read with, else its own @charset rule
            inherit = first_truthy(own)
            if inherit is None and r[5] and r[5][0][0] == "charset":
                inherit = r[5][0][1]
            enc_walk(case, r[5], u, inherit, out, sig, depth + 1, list(chain) + [u])


def styles_of(flat, media=None):
    out = []
    for r in flat:
        if r[0] == "style":
            out.append([r[1], media])
        elif r[0] == "media":
            out += styles_of(r[2], r[1])
    return out


def flat_spec(rules):
    """the statement about resolveImports, read directly: (style rules in document order with the @media they end up
    in, hrefs of the @import rules that must still be there, whether something was met that cannot stand in @media).
    Loaded `all` imports are replaced by their flattened rules; a loaded media-restricted import becomes one @media
    rule, unless its flattened sheet holds anything but style rules and comments (a kept @import, @namespace, another
    @media): then the @import itself is kept; an import that is not loaded is always kept."""
    styles, kept, blocked = [], [], False
    for r in rules:
        if r[0] == "style":
            styles.append([r[1], None])
        elif r[0] == "ns":
            blocked = True
        elif r[0] == "import":
            if not r[3]:
                kept.append(r[1])
                continue
            s2, k2, b2 = flat_spec(r[5])
            if r[2] == "all":
                styles += s2
                kept += k2
                blocked = blocked or b2
            elif b2 or k2 or any(m is not None for _, m in s2):
                kept.append(r[1])
            else:
                styles += [[s_, r[2]] for s_, _ in s2]
    return styles, kept, blocked


# ------------------------------------------------------------------------------------------ generators
TOP = "http://h/d/top.css"
E_ACUTE = "\xe9"


def st(items, charset=None):
    return {"charset": charset, "items": items}


def leaf(tag, payload="p"):
    return st([["S", tag, payload]])


BEHAVIOURS = [
    ["none"], ["empty"], ["three"], ["nonenone"], ["httpnone", "utf-8"],
    ["text", None, None], ["bytes", None, None, "utf-8"], ["bytes", None, None, "latin-1"],      # latin-1 bytes: undecodable
    ["raise", "OSError"], ["raise", "IOError"], ["raise", "ValueError"],
    ["text", "bogus", None], ["bytes", "bogus", None, "utf-8"], ["bytes", "iso-8859-1", None, "latin-1"],
]
EXTRA = [["raise", "TypeError"], ["raise", "LookupError"], ["raise", "UnicodeDecodeError"], ["raise", "KeyError"],
         ["raise", "AttributeError"], ["raise", "RuntimeError"],
         ["mistyped", "int"], ["mistyped", "intcontent"], ["mistyped", "byteslabel"], ["mistyped", "intlabel"],
         ["mistyped", "listcontent"], ["mistyped", "str"], ["mistyped", "true"]]
HREFS = ["a.css", "sub/b.css", "../c.css", "./d.css", "http://o/e.css", "/root.css", "//o2/f.css", "sub/../g.css",
         "../../../x.css", "q.css?v=1", "sub/", "..", "sub//h.css", "https://h/d/s.css", "data:text/css,a", "?only=q"]
BAD_HREFS = ["http://[bad/x.css", "//[x"]
BASES = [TOP, "http://h/top.css", "file:///d/e/top.css", None, "http://h/d/", "http://h/d/e/f/top.css?x=1", "top.css",
         "../rel/top.css"]


def fill(b, struct):
    b = list(b)
    if b[0] in ("text", "bytes"):
        b[2] = struct
    return b


def case_for(imports, behaviours, href=TOP, override=None, charset=None, extra_items=(), nested=None):
    """imports: list of (href, media); behaviours: one behaviour (or list of behaviours = call sequence) per import"""
    items, table = [], {}
    base = href if href is not None else cwd_url()
    for i, ((h, media), b) in enumerate(zip(imports, behaviours)):
        items.append(["I", h, media])
        seq = b if b and isinstance(b[0], list) else [b]
        body = [["S", "s%d" % i, "p" + E_ACUTE + str(i)]]
        if nested and i in nested:
            body = [["I", nested[i][0], nested[i][1]]] + body
        try:
            u = std_join(base, h)
        except ValueError:
            continue
        table.setdefault(u, [fill(x, st(body)) for x in seq])
    items += list(extra_items)
    return {"top": st(items, charset), "href": href, "override": override, "table": table}


def gen_cases(ctx, thorough):
    rng = ctx.rng
    cases = []
    names = ["a.css", "b.css", "c.css"]
    allb = BEHAVIOURS + EXTRA
    # (1) every assignment of behaviours to 1 and 2 imports; 3 imports: all over the 11 documented kinds (thorough) or a sample
    for n in (1, 2):
        for combo in itertools.product(allb, repeat=n):
            cases.append(case_for([(names[i], "all") for i in range(n)], list(combo),
                                  extra_items=[["S", "t", "top"]]))
    trip = list(itertools.product(BEHAVIOURS[:11], repeat=3))
    if not thorough:
        trip = rng.sample(trip, 250)
    for combo in trip:
        cases.append(case_for([(names[i], "all") for i in range(3)], list(combo)))
    n_assign = len(cases)
    # (2) nesting depth 2: outer text/bytes sheet containing an import with every behaviour, in a sub-directory
    for outer in (["text", None, None], ["bytes", None, None, "utf-8"], ["text", "iso-8859-1", None],
                  ["bytes", "ascii", None, "utf-8"]):
        for inner in allb:
            for media_o, media_i in (("all", "all"), ("print", "all"), ("all", "tv"), ("print", "tv")):
                c = case_for([("sub/o.css", media_o)], [outer], nested={0: ("../n/i.css", media_i)})
                c["table"]["http://h/d/n/i.css"] = [fill(inner, st([["S", "deep", "d" + E_ACUTE]]))]
                cases.append(c)
                if not thorough and media_o != "all":
                    break
    # depth 3 chain and a nested namespace (cannot be wrapped in @media)
    for media in ("all", "print"):
        c = case_for([("l1.css", media)], [["text", None, None]], nested={0: ("l2.css", "all")})
        c["table"]["http://h/d/l2.css"] = [["text", None, st([["I", "l3.css", "all"], ["S", "m", "x"]])]]
        c["table"]["http://h/d/l3.css"] = [["bytes", None, st([["C", "deep"], ["S", "z", "y"]]), "utf-8"]]
        cases.append(c)
        c = case_for([("ns.css", media)], [["text", None, None]])
        c["table"]["http://h/d/ns.css"] = [["text", None, st([["N", "urn:x"], ["S", "n", "v"]])]]
        cases.append(c)
    # (3) encoding-source table: override x HTTP x @charset x parent charset x actual bytes x text/bytes
    for ovr in (None, "iso-8859-1", "bogus"):
        for http in (None, "iso-8859-1", "ascii", "bogus", "", "UTF-8"):
            for cs in (None, "iso-8859-1", "utf-8", "bogus", "ASCII"):
                for parent in (None, "iso-8859-1"):
                    for kind, codec in (("text", None), ("bytes", "utf-8"), ("bytes", "latin-1")):
                        b = [kind, http, st([["S", "e", "v" + E_ACUTE]], cs)] + ([codec] if codec else [])
                        c = {"top": st([["I", "a.css", "all"], ["S", "t", "top"]], parent), "href": TOP,
                             "override": ovr, "table": {"http://h/d/a.css": [b]}}
                        cases.append(c)
    # the same sources one level down: parent = imported sheet (the encoding it was READ with is what its imports
    # inherit, also when its text carries another @charset; an explicit override reaches every depth)
    for ovr in (None, "iso-8859-1"):
        for okind in ("bytes", "text"):
            for http_o in (None, "iso-8859-1"):
                for cs_o in (None, "iso-8859-1", "utf-8"):
                    for http_i in (None, "ascii", "utf-8"):
                        for cs_i in (None, "utf-8"):
                            for codec in ("utf-8", "latin-1"):
                                so = st([["I", "i.css", "all"], ["S", "o", "w" + E_ACUTE]], cs_o)
                                outer = ["bytes", http_o, so, "latin-1"] if okind == "bytes" else ["text", http_o, so]
                                inner = ["bytes", http_i, st([["S", "i", "v" + E_ACUTE]], cs_i), codec]
                                cases.append({"top": st([["I", "o.css", "all"]]), "href": TOP, "override": ovr,
                                              "table": {"http://h/d/o.css": [outer], "http://h/d/i.css": [inner]}})
    # (4) href shapes x bases; malformed hrefs; misplaced imports; comments / @charset before the import
    for base in BASES:
        for h in HREFS + BAD_HREFS:
            for b in (["text", None, None], ["none"]):
                cases.append(case_for([(h, "all")], [b], href=base))
    for b in allb:
        cases.append(case_for([("late.css", "all")], [b], extra_items=[]))
        c = case_for([("late.css", "all")], [b])
        c["top"]["items"] = [["S", "first", "x"]] + c["top"]["items"]          # @import after a rule: dropped
        cases.append(c)
        c = case_for([("a.css", "all"), ("b.css", "print")], [b, ["text", None, None]], charset="utf-8")
        c["top"]["items"] = [["C", "c"]] + c["top"]["items"] + [["N", "urn:n"], ["S", "t", "x"]]
        cases.append(c)
    # (5) flaky fetchers: the retry of insertRule sees another answer
    for b1 in allb:
        for b2 in (["text", None, None], ["none"], ["raise", "OSError"], ["bytes", None, None, "latin-1"]):
            cases.append(case_for([("f.css", "all"), ("f.css", "all")], [[b1, b2, ["none"]], ["none"]]))
    # (7) import cycles: a sheet importing itself, two and three sheets importing each other, with media, as text and bytes,
    #     reached from a top sheet inside or outside the cycle; every URL of a chain is loaded once
    for kind in ("text", "bytes"):
        def beh(struct, kind=kind):
            return ["text", None, struct] if kind == "text" else ["bytes", None, struct, "utf-8"]
        for m1 in ("all", "print"):
            for m2 in ("all", "tv"):
                cases.append({"top": st([["I", "top.css", m1], ["S", "t", "x"]]), "href": TOP, "override": None,
                              "table": {TOP: [beh(st([["I", "top.css", m2], ["S", "t", "x"]]))]}})
                cases.append({"top": st([["I", "a.css", m1], ["S", "t", "x"]]), "href": TOP, "override": None,
                              "table": {"http://h/d/a.css": [beh(st([["I", "a.css", m2], ["S", "a", "1"]]))]}})
                cases.append({"top": st([["I", "a.css", m1], ["I", "b.css", m2], ["S", "t", "x"]]), "href": TOP, "override": None,
                              "table": {"http://h/d/a.css": [beh(st([["I", "b.css", m2], ["S", "a", "1"]]))],
                                        "http://h/d/b.css": [beh(st([["I", "a.css", m1], ["I", "top.css", "all"], ["S", "b", "2"]]))]}})
                cases.append({"top": st([["I", "s/a.css", m1]]), "href": TOP, "override": None,
                              "table": {"http://h/d/s/a.css": [beh(st([["I", "../b.css", m2], ["S", "a", "1"]]))],
                                        "http://h/d/b.css": [beh(st([["I", "c.css", "all"], ["S", "b", "2"]]))],
                                        "http://h/d/c.css": [beh(st([["I", "s/a.css", m1], ["I", "./b.css", "all"], ["S", "c", "3"]]))]}})
    # (6) random mixtures
    for _ in range(4000 if thorough else 500):
        n = rng.randint(1, 3)
        imports = [(rng.choice(HREFS[:10]), rng.choice(["all", "all", "print", "tv, print"])) for _ in range(n)]
        beh = [rng.choice(allb) if rng.random() < 0.8 else [rng.choice(allb), rng.choice(allb)] for _ in range(n)]
        nested = {i: (rng.choice(HREFS[:10]), rng.choice(["all", "print"])) for i in range(n) if rng.random() < 0.5}
        c = case_for(imports, beh, href=rng.choice(BASES[:3]), override=rng.choice([None, None, "iso-8859-1"]),
                     charset=rng.choice([None, None, "iso-8859-1"]), nested=nested,
                     extra_items=[["S", "t", "top"]] if rng.random() < 0.5 else [])
        for i, (hh, mm) in nested.items():
            try:
                u1 = std_join(c["href"], imports[i][0])
                u2 = std_join(u1, hh)
            except ValueError:
                continue
            c["table"].setdefault(u2, [fill(rng.choice(allb), st([["S", "r%d" % i, "z" + E_ACUTE]],
                                                                 rng.choice([None, "iso-8859-1"])))])
        cases.append(c)
    return cases, n_assign


FAIL_KINDS = [["none"], ["raise", "OSError"], ["bytes", None, None, "latin-1"], ["nonenone"], ["raise", "ValueError"],
              ["mistyped", "intcontent"], ["raise", "IOError"], ["three"]]


def subtrees(depth, fails, extras):
    """import-tree nodes of depth <= `depth`: (media, outcome, children, extra) with outcome = 'text' | failure kind"""
    out = []
    for media in ("all", "print"):
        for f in fails:
            out.append((media, f, [], None))
        for ex in extras:
            out.append((media, "text", [], ex))
        if depth > 1:
            for ch in subtrees(depth - 1, fails, extras[:1]):
                out.append((media, "text", [ch], None))
    return out


def tree_case(nodes, raising, subdir=False):
    """a case from a list of top-level nodes; every sheet gets its own name, by default all in one directory (so that
    the re-request resolveImports makes for a kept nested import reaches the same URL again)"""
    table, counter = {}, [0]

    def build(node, base, depth):
        media, outcome, children, extra = node
        counter[0] += 1
        name = "n%d.css" % counter[0]
        href = ("s%d/" % depth + name) if subdir else name
        url = std_join(base, href)
        if outcome == "text":
            items = []
            if extra == "comment":
                items.append(["C", "c%d" % counter[0]])
            items += [build(ch, url, depth + 1) for ch in children]
            if extra == "ns":
                items.append(["N", "urn:x%d" % counter[0]])
            items.append(["S", "r%d" % counter[0], "v" + E_ACUTE])
            table[url] = [["text", None, st(items, "utf-8" if extra == "charset" else None)]]
        else:
            table[url] = [fill(outcome, leaf("x"))]
        return ["I", href, media]
    items = [build(n, TOP, 1) for n in nodes] + [["S", "t", "top"]]
    return {"top": st(items), "href": TOP, "override": None, "table": table, "raising": raising}


def gen_trees(ctx, thorough):
    fails = FAIL_KINDS if thorough else FAIL_KINDS[:4]
    extras = [None, "ns", "charset", "comment"]
    cases = []
    t3 = subtrees(3, fails, extras)
    t2 = subtrees(2, fails, extras)
    sib = [("print", "text", [], None), ("all", "text", [], None), ("print", ["none"], [], None),
           ("print", "text", [("all", ["raise", "OSError"], [], None)], None)]
    for raising in (True, False):
        for n in t3:
            cases.append(tree_case([n], raising))
        for n in (t2 if thorough else ctx.rng.sample(t2, min(len(t2), 30))):
            for s_ in sib:
                cases.append(tree_case([n, s_], raising))
                cases.append(tree_case([s_, n], raising))
        # two imports inside one imported sheet
        for a in subtrees(1, fails, extras[:2]):
            for b in subtrees(1, fails[:2], extras[:1]):
                for media in ("all", "print"):
                    cases.append(tree_case([(media, "text", [a, b], None)], raising))
        for n in (t3 if thorough else ctx.rng.sample(t3, min(len(t3), 60))):
            cases.append(tree_case([n], raising, subdir=True))
    return cases


CYCLE = {"top": st([["I", "top.css", "all"]]), "href": TOP, "override": None,
         "table": {TOP: [["text", None, st([["I", "top.css", "all"]])]]}}


# ------------------------------------------------------------------------------------------ the check
def run(ctx):
    thorough = ctx.tier == "thorough"
    ctx.regen("imports")
    ctx.coq_build("props/C20.v")
    binary = ctx.ocaml_build("imports")
    cpath = VERIF / "corpus" / "C20.json"
    corpus = json.loads(cpath.read_text()) if cpath.exists() else []
    cases, n_assign = gen_cases(ctx, thorough)
    trees = gen_trees(ctx, thorough)
    # every other generated case also runs resolveImports with exceptions switched off
    cases = corpus + cases + trees + [dict(c, raising=False) for c in cases[::2]]
    impl = ctx.pool_map(run_impl, cases, procs=6, chunksize=64)
    mism, nontrivial, skipped_known = [], set(), 0
    if binary:
        lines = [model_line(c) for c in cases]
        out = ctx.run_binary(binary, lines, shards=6)
        for c, i, o in zip(cases, impl, out):
            d = compare(c, i, conv_model(o))
            if d:
                mism.append((c, d))
        # urljoin alone, on a wider table of (base, href) pairs
        pairs = [(b, h) for b in BASES[:3] + BASES[4:] + ["http://h", "http://h/a/b/../c/./d.css", "mailto:x", "//h/p/q"]
                 for h in HREFS + BAD_HREFS + ["", "x/./y/../z.css", "/", "//", "a/b/c/../../../../up.css", ".", "./", "../",
                                                "a.css/", "http:rel.css", "HTTP://H/U.css", "file:///z.css"]]
        jl = ["(J %s %s)" % (sx_url(b), sx_url(h)) for b, h in pairs]
        jo = ctx.run_binary(binary, jl)
        from css_parser.util import urljoin
        for (b, h), o in zip(pairs, jo):
            m = json.loads(o)
            try:
                want = {"r": "ok", "url": urljoin(b, h)}
            except ValueError:
                want = {"r": "ValueError"}
            got = {"r": m["r"], "url": S(m["url"])} if m["r"] == "ok" else {"r": m["r"]}
            if got != want:
                mism.append(({"urljoin": [b, h]}, "urljoin(%r, %r): implementation %r, model %r" % (b, h, want, got)))
            if want["r"] == "ok":
                # the model keeps URLs parsed: urlparse(urlunparse(r)) must give r back for every joined URL
                try:
                    p = urllib.parse.urlparse(want["url"], allow_fragments=False)
                    rec = [p.scheme, p.netloc, p.path, p.query]
                except ValueError:
                    rec = None
                mrec = None if m.get("parsed") is None else [S(x) for x in m["parsed"]]
                if got == want and rec is not None and mrec != rec and h != want["url"]:
                    mism.append(({"urljoin": [b, h]}, "parsed form of the joined URL %r: urlparse %r, model %r"
                                 % (want["url"], rec, mrec)))
        n_join = len(pairs)
    else:
        n_join = 0
    for c, i in zip(cases, impl):
        if i["r"] == "N" and any(r[0] == "import" and r[3] for r in i["rules"]):
            nontrivial.add(json.dumps(c, sort_keys=True))
        for what, sig in oracle(c, i):
            if ctx.match_known(what + " :: " + sig):
                skipped_known += 1
            ctx.violation(what, c, sig_text=sig)
    if mism:
        ctx.broken("correspondence", "CssV.Imports (parse_string / resolve / urljoin) vs css_parser",
                   "%d of %d cases differ; first: %s" % (len(mism), len(cases), json.dumps(mism[:2], default=str)[:2500]))
    # stored witnesses of open findings are re-run
    for f in ctx.findings:
        if f.get("status") == "open":
            w = f["witness"]
            for what, sig in oracle(w, run_impl(w)):
                ctx.violation(what, w, sig_text=sig)

    def search():
        t0 = time.time()
        rng = ctx.rng
        while time.time() - t0 < (240 if thorough else 50):
            batch = []
            for _ in range(600):
                n = rng.randint(1, 3)
                doc = BEHAVIOURS
                imports = [(rng.choice(HREFS + BAD_HREFS), rng.choice(["all", "print"])) for _ in range(n)]
                nested = {i: (rng.choice(HREFS), rng.choice(["all", "print"])) for i in range(n) if rng.random() < 0.4}
                c = case_for(imports, [rng.choice(doc) for _ in range(n)], href=rng.choice(BASES),
                             override=rng.choice([None, None, "iso-8859-1", "bogus"]),
                             charset=rng.choice([None, "iso-8859-1"]), nested=nested)
                batch.append(c)
            res = ctx.pool_map(run_impl, batch, procs=6, chunksize=32)
            for c, i in zip(batch, res):
                for what, sig in oracle(c, i):
                    if not ctx.match_known(what + " :: " + sig):
                        return dict(c, fails=what)
        return None

    ctx.finish({
        "evaluations": len(cases) + n_join,
        "distinct_nontrivial": len(nontrivial),
        "rule": "cases = sheets with 1-3 @import rules, each URL answered by one of %d fetcher behaviours (%d assignment "
                "cases: all for 1 and 2 imports, 3 imports over the 11 documented kinds%s), nesting depth 2-3 with media, "
                "the encoding-source table (override x HTTP x @charset x parent x byte codec x text/bytes, one and two "
                "levels), %d href shapes x %d bases, misplaced imports, flaky fetchers (answer changes between the load "
                "and insertRule's retry), random mixtures; import trees of depth <= 3 with every labelling of the nodes by "
                "media (all / print) x outcome (loaded, failure kinds) plus @namespace/@charset/comment inside imported "
                "sheets, siblings, sub-directories (%d tree cases); resolveImports runs with log.raiseExceptions True and "
                "False; plus %d urljoin pairs; non-trivial = distinct cases in which at "
                "least one @import was loaded" % (len(BEHAVIOURS) + len(EXTRA), n_assign,
                                                  "" if thorough else " sampled", len(HREFS) + len(BAD_HREFS), len(BASES),
                                                  len(trees), n_join),
        "samples": [cases[len(corpus) + 3], cases[len(corpus) + n_assign + 7], cases[-1]],
        "disagreements_checked": (len(cases) + n_join) if binary else 0,
        "oracle_cases_matching_known_findings": skipped_known,
        "trusted_base": TRUSTED,
    }, assumptions=ASSUME, search=search)


def replay(ctx, path):
    rep = json.loads(open(path).read())
    bad = 0
    for v in rep.get("violations", []):
        w = v["witness"]
        w = {k: w[k] for k in ("top", "href", "override", "table", "raising") if k in w}
        i = run_impl(w)
        res = oracle(w, i)
        print("replay top=%r href=%r -> %s" % (render(w["top"]), w["href"], "; ".join(x for x, _ in res) or "holds"))
        bad += bool(res)
    for b in rep.get("broken", []):
        print("broken obligation recorded in the replay file: %s %s" % (b["stage"], b["name"]))
    return 1 if bad else 0


TRUSTED = [
    "Coq 8.16.1 kernel and VM (vm_compute for the finite case analyses); no native_compute",
    "translate/imports.py (ast of util._readUrl, CSSImportRule._setHref, CSSStyleSheet.insertRule/_resolveImport/"
    "_setCssTextWithEncodingOverride, CSSCharsetRule.__init__, resolveImports; exception subclass table and urllib "
    "scheme tables from the running interpreter)",
    "extraction (ExtrOcamlBasic only) + ocamlfind ocamlopt, ocaml/imports_driver.ml (s-expression reader, JSON printer)",
    "harness/props/c20.py: renderer and reader of the small sheet language, the recording fetcher, detection of "
    "@charset/BOM for rendered texts, comparison of calls / rule tree / encodings / resolveImports output",
    "world components that are Section-like parameters of the model (record `world`): the fetcher, "
    "codec.detectencoding_*, the css codec's decode (its table is filled by calling codecs.getdecoder('css'), property C14), "
    "the statement parser (the rule tree of a text), CSSCharsetRule's encoding validation",
    "urllib.parse.urlparse / urlunparse (stdlib): URLs enter the model parsed, joined URLs are assumed to re-parse to "
    "the record they were built from (checked on every joined URL of the run); URLs with ';' params are outside the model",
    "modelled by hand, not verified: urljoin, _setHref, the statement loop of CSSStyleSheet._setCssText for "
    "@charset/@import/@namespace/style/comment, _setEncoding, resolveImports with add() on these rule kinds",
]
ASSUME = [
    "Print Assumptions for every theorem of props/C20.v: see coverage.print_assumptions",
    "parse_contained: termination is proved for fetchers that serve content at finitely many URLs (fuel > their number); "
    "the implementation additionally has CPython's recursion limit (about 190 nested sheets: open finding C20-import-chain-depth)",
    "fetcher results outside the modelled shapes (a str, a non-sequence) are not covered",
]
