"""C02 -- well-formed CSS is parsed faithfully into the object model.

proof:          coq/props/C02.v over coq/theories/Grammar.v (generator grammar G: AST, layout, render, text_of,
                expected_model), Skeleton.v/Upto.v (C04: statement skeleton), Selector.v (C16: selector machine)
tie:            translate/tokenizer.py + translate/selconsts.py regenerate the tables under the shared tokenizer and selector
                models; the texts, tokens and expected models come from the extracted Coq definitions (ocaml/grammar_driver.ml);
                three-way comparison per generated derivation:
                  (1) expected_model sh (the specification, Gallina)
                  (2) the modelled layers: Tokenizer.tokenize (text) = render sh lay ++ [EOF]  (hypothesis tokenize_render),
                      Selector.run on every rendered selector = the specified components (hypothesis selector_accepts)
                  (3) the implementation's CSSOM as read by the independent Python extractor below
                (3) is what validates the Section hypotheses about the unmodelled value / media grammars
oracle/search:  extract(parseString(text)) == expected_model for validate on/off and parseComments on (all four agree);
                parseComments off == expected_model of the sheet without its comment statements
"""
import json
import time

from harness.lib import VERIF

PROCS = 6


# ================================================================================ AST construction (prefix words)
class Q(str):
    """a text string of the AST (wire: '=' + code points)"""


class NE(list):
    """a counted list that must stay non-empty when shrinking"""


class Words(tuple):
    """an opaque, already flattened piece (selectors from C16's generator)"""


def flatten(x, out):
    if isinstance(x, Q):
        out.append("=" + ",".join(str(ord(c)) for c in x))
    elif isinstance(x, Words):
        out.extend(x)
    elif isinstance(x, str):
        out.append(x)
    elif isinstance(x, bool):
        out.append("1" if x else "0")
    elif isinstance(x, int):
        out.append(str(x))
    elif x is None:
        out.append("N")
    elif isinstance(x, list):
        out.append(str(len(x)))
        for y in x:
            flatten(y, out)
    elif isinstance(x, tuple):
        for y in x:
            flatten(y, out)
    else:
        raise TypeError(repr(x))
    return out


def words_of(sheet):
    return " ".join(flatten(sheet, []))


def Y(*x):
    return ("Y",) + x


IDENTS = ["auto", "none", "a", "b", "Bold", "x-y", "inherit", "red", "BLUE", "Lime", "navy", "silver", "black", "white",
          "_u", "-m", "\xe9t", "solid", "NONE", "important", "and", "not", "url", "u"]
MY_COLORS = {"red": (255, 0, 0), "blue": (0, 0, 255), "white": (255, 255, 255), "black": (0, 0, 0),
             "lime": (0, 255, 0), "navy": (0, 0, 128), "silver": (192, 192, 192)}
PROPS = ["color", "width", "x-y", "margin", "FONT-size", "background", "_hack", "-moz-x", "content", "font-family", "src",
         "unicode-range", "Width", "top"]
INTS = ["0", "1", "10", "007", "255", "42", "100000"]
FRACS = [None, None, "5", "50", "25", "0", "125", "0625"]
UNITS = ["px", "em", "PX", "cm", "deg", "ms", "Em", "x"]
STRS = ["x", "a b", "", "a,b;c", "{}", "/*x*/", "\xe9", "!important", "a:b", "@media", "(", "url(x)"]
URLS = ["a.css", "x/y.png", "http://h/p?q=1#f", "\xe9.gif", "a_b-c", "x,y", "a;b", "a!b", "{", "a:b"]
HEXES = ["fff", "FfF", "a0b1c2", "000", "AABBCC", "123", "09aF0e"]
FNAMES = ["f", "attr", "counter", "linear-gradient", "Foo", "translate", "x-y", "format", "local"]
URANGES = ["U+0-7F", "u+26", "U+4??", "U+0025-00FF", "U+a"]
MTYPES = ["screen", "print", "tv", "handheld", "projection", "braille", "Speech"]
FEATS = ["min-width", "color", "max-height", "orientation", "MIN-WIDTH", "x"]
PREFIXES = ["p", "q", "svg"]
URIS = ["u:p", "http://x/", "u", "\xe9:x", ""]
COMMENTS = ["/*c*/", "/**/", "/* a{b:c} */", "/*;*/", "/*}*/", "/* @import */", "/***/", "/*\n*/"]
UNKNOWN = ["@foo", "@x-bar", "@Foo", "@keyframes", "@-moz-document"]
MARGINS = ["@top-left", "@bottom-center", "@TOP-right", "@left-middle"]
ENCS = ["utf-8", "UTF-8", "ascii", "iso-8859-1"]


class SheetGen:
    def __init__(self, rng, depth):
        self.r = rng
        self.depth = depth
        self.n = 0
        self.ns = []
        self.in_margin = False

    def g(self):
        self.n += 1
        return self.n - 1

    # ---- values
    def num(self, nosign=False):
        r = self.r
        sign = 0 if nosign else r.choice([0, 0, 0, 1, 2])
        frac = r.choice(FRACS)
        i = r.choice(INTS + ([""] if frac is not None else []))
        return (sign, Q(i), None if frac is None else Y(Q(frac)))

    def cterm(self):
        k = self.r.choice(["CN", "CD", "CP"])
        if k == "CD":
            return ("CD", self.num(), Q(self.r.choice(UNITS)))
        return (k, self.num())

    def term(self, depth):
        r = self.r
        k = r.choice(["I", "I", "N", "D", "D", "P", "S", "U", "H", "RGB", "F", "CALC", "UR"])
        if k in ("F", "CALC") and depth <= 0:
            k = "I"
        if k == "I":
            return ("I", Q(r.choice(IDENTS)))
        if k == "N":
            return ("N", self.num())
        if k == "D":
            return ("D", self.num(), Q(r.choice(UNITS)))
        if k == "P":
            return ("P", self.num())
        if k == "S":
            return ("S", self.g(), Q(r.choice(STRS)))
        if k == "U":
            return ("U", self.g(), Q(r.choice(URLS)))
        if k == "H":
            return ("H", Q(r.choice(HEXES)))
        if k == "RGB":
            return ("RGB", self.g(), r.randint(0, 255), self.g(), self.g(), r.randint(0, 255), self.g(), self.g(),
                    r.randint(0, 255), self.g())
        if k == "F":
            more = [(r.choice([0, 0, 1, 1, 2]), self.g(), self.g(), self.term(depth - 1)) for _ in range(r.choice([0, 0, 1, 2, 3]))]
            first = self.term(depth - 1)

            def plain(x):
                return x[0] == "N" and x[1][0] == 0 and x[1][2] is None
            if more and more[-1][0] == 2 and plain(more[-1][3]) and plain(more[-2][3] if len(more) > 1 else first):
                # open finding C02-calc-trailing-integer-ratio: "<int> / <int>)" is one RATIO token
                more[-1] = (1,) + more[-1][1:]
            return ("F", Q(r.choice(FNAMES)), self.g(), first, more, self.g())
        if k == "CALC":
            ops = "*/" if self.in_margin else "+-*/"
            first = self.cterm()
            more = [(r.choice(ops), self.g(), self.g(), self.cterm()) for _ in range(r.choice([0, 1, 1, 2, 3]))]
            # open finding C02-calc-trailing-integer-ratio: "<int> / <int>)" is one RATIO token; the divisor gets a sign
            def plain(c):
                return c[0] == "CN" and c[1][0] == 0 and c[1][2] is None
            if more and more[-1][0] == "/" and plain(more[-1][3]) and plain(more[-2][3] if len(more) > 1 else first):
                o, ga, gb, c = more[-1]
                more[-1] = (o, ga, gb, ("CN", (1, c[1][1], None)))
            return ("CALC", self.g(), self.g(), first, more, self.g())
        return ("UR", Q(r.choice(URANGES)))

    def sep(self):
        k = self.r.choice(["SP", "SP", "SP", "CO", "SL"])
        return ("SP", self.g()) if k == "SP" else (k, self.g(), self.g())

    def decl(self):
        r = self.r
        more = [(self.sep(), self.term(self.depth)) for _ in range(r.choice([0, 0, 0, 1, 1, 2, 3]))]
        imp = Y(self.g(), self.g()) if r.random() < 0.25 else None
        return (Q(r.choice(PROPS)), self.g(), self.g(), self.term(self.depth), more, self.g(), imp)

    def block(self, lo=0):
        n = self.r.choice([0, 1, 1, 2, 2, 3, 4]) if lo == 0 else self.r.choice([1, 1, 2, 3])
        return (self.g(), [(self.decl(), self.g(), self.g()) for _ in range(n)], self.g())

    # ---- media
    def mexpr(self):
        r = self.r
        v = None
        if r.random() < 0.7:
            k = r.choice(["D", "I", "N"])
            t = ("D", self.num(nosign=True), Q(r.choice(UNITS))) if k == "D" else \
                (("I", Q(r.choice(["portrait", "landscape", "a"]))) if k == "I" else ("N", self.num(nosign=True)))
            v = Y(self.g(), t)
        return (self.g(), Q(r.choice(FEATS)), self.g(), v, self.g())

    def mquery(self, types, last):
        r = self.r
        ex = [(self.g(), self.g(), self.g(), self.mexpr()) for _ in range(r.choice([0, 0, 0, 1, 1, 2]))]
        if ex and r.random() < 0.25:
            return (0, self.g(), self.g(), None, NE(ex))
        neg = r.choice([0, 0, 0, 1, 2])
        ty = types.pop()
        if last and neg == 0 and r.random() < 0.2:
            # an unknown media type: only un-negated and as the last entry of a list
            # (open findings C02-negated-unknown-media-type, C02-unknown-media-type-before-comma)
            ty = r.choice(["x-foo", "X-bar", "embossed3"])
        return (neg, self.g(), self.g(), Y(Q(ty)), ex)

    def mlist(self):
        r = self.r
        types = MTYPES[:]
        r.shuffle(types)
        if r.random() < 0.25:
            # repeated media types and `all`: MediaList keeps the effective ones (expected_model: media_effective)
            types = [r.choice(["screen", "print", "all", "Print", "tv", "ALL", "SCREEN"]) for _ in range(8)]
        n = r.choice([1, 1, 1, 2, 3, 4])
        return NE([(self.g(), self.g(), self.mquery(types, i == n - 1)) for i in range(n)])

    # ---- selectors (C16's generator, same word format)
    def selector(self, first):
        from harness.props import c16
        gen = c16.Gen(self.r, self.ns)
        while True:
            words, _ = gen.compound()
            # a comment in front of the first simple selector of a rule set is a statement of its own
            if not (first and words[0] == "H0" and (words[2] != "0" if words[1] != "0" else words[3] != "0")):
                break
        m = self.r.choice([0, 0, 0, 1, 1, 2])
        more = [str(m)]
        for _ in range(m):
            c, _ = gen.compound()
            more += gen.comb() + c
        lead = ["0"] if first else gen.w_wsl(gen.wsl())
        out = Words(lead + words + more + gen.w_wsl(gen.wsl()))
        if "=39,32,39" in out or "=34,32,34" in out:
            # open finding C02-space-string-in-pseudo-function: the string ' ' / " " inside a functional pseudo-class is taken
            # for whitespace by the selector machine
            # (selector.py `seq[-1].value == S`; reproduced by C16's model): not generated here
            return self.selector(first)
        return out

    def strform(self):
        return (self.r.choice(["FS", "FU"]), self.g())

    def soup(self, depth, block=True):
        r = self.r
        k = r.choice(["OI", "OI", "ON", "OS", "OP", "OB"])
        if (k in ("OP", "OB") and depth <= 0) or (k == "OB" and not block):
            k = "OI"
        if k == "OI":
            return ("OI", Q(r.choice(IDENTS)))
        if k == "ON":
            return ("ON", self.num())
        if k == "OS":
            return ("OS", self.g(), Q(r.choice(STRS)))
        return (k, [self.soup(depth - 1, block) for _ in range(r.choice([0, 1, 2]))])

    # ---- statements
    def comment(self):
        return ("COMMENT", Q(self.r.choice(COMMENTS)))

    def style(self):
        n = self.r.choice([1, 1, 1, 2, 3])
        return ("STYLE", NE([self.selector(i == 0) for i in range(n)]), self.block())

    def page(self):
        r = self.r
        name = Y(Q(r.choice(["foo", "Bar"]))) if r.random() < 0.3 else None
        ps = Y(Q(r.choice(["first", "left", "right", "FIRST"]))) if r.random() < 0.5 else None
        names = MARGINS[:]
        r.shuffle(names)         # a second margin box of the same name replaces the first (DOM behaviour): distinct names
        blk = self.block()
        self.in_margin = True    # open finding C02-margin-box-loses-whitespace: no additive calc() in margin boxes
        ms = [(Q(names.pop()), self.g(), self.block(), self.g()) for _ in range(r.choice([0, 0, 1, 2]))]
        self.in_margin = False
        return ("PAGE", self.g(), self.g(), (name, ps), self.g(), blk, ms)

    def unknown(self):
        r = self.r
        pre = [self.soup(1, block=False) for _ in range(r.choice([0, 1, 2]))]    # the first block ends an at-rule
        body = Y([self.soup(2) for _ in range(r.choice([0, 1, 2]))]) if r.random() < 0.5 else None
        return ("UNK", Q(r.choice(UNKNOWN)), self.g(), pre, body)

    def media(self, depth):
        body = [(self.inner(depth - 1), self.g()) for _ in range(self.r.choice([0, 1, 1, 2, 3]))]
        return ("MEDIA", self.g(), self.g(), self.mlist(), self.g(), self.g(), body)

    def inner(self, depth):
        k = self.r.choice(["STYLE", "STYLE", "STYLE", "MEDIA", "PAGE", "UNK", "COMMENT"])
        if k == "MEDIA" and depth <= 0:
            k = "STYLE"
        return {"STYLE": self.style, "PAGE": self.page, "UNK": self.unknown, "COMMENT": self.comment,
                "MEDIA": lambda: self.media(depth)}[k]()

    def body_stmt(self):
        k = self.r.choice(["STYLE", "STYLE", "STYLE", "MEDIA", "PAGE", "FF", "UNK", "COMMENT"])
        if k == "FF":
            return ("FF", self.g(), self.g(), self.block())
        if k == "MEDIA":
            return self.media(self.depth)
        return {"STYLE": self.style, "PAGE": self.page, "UNK": self.unknown, "COMMENT": self.comment}[k]()

    def sheet(self):
        r = self.r
        out = []
        if r.random() < 0.2:
            out.append((("CHARSET", Q(r.choice(ENCS))), self.g()))
        for _ in range(r.choice([0, 0, 0, 1, 2])):
            if r.random() < 0.2:
                out.append((self.comment(), self.g()))
            if r.random() < 0.1:
                out.append((self.unknown(), self.g()))      # unknown at-rules do not advance the order machine
            media = Y(self.g(), self.mlist()) if r.random() < 0.5 else None
            name = Y(self.g(), self.g(), Q(r.choice(["nm", "a b", "x"]))) if r.random() < 0.25 else None
            out.append((("IMPORT", self.g(), self.g(), self.strform(), Q(r.choice(URLS)), media, name, self.g()), self.g()))
        prefixes = PREFIXES[:]
        r.shuffle(prefixes)
        default = False
        uris = URIS[:]
        r.shuffle(uris)
        for _ in range(r.choice([0, 0, 1, 2, 3])):
            if r.random() < 0.2:
                out.append((self.comment(), self.g()))
            if r.random() < 0.1:
                out.append((self.unknown(), self.g()))
            uri = uris.pop()          # two prefixes for one URI: the namespace view keeps one of them (C15's domain)
            if not default and r.random() < 0.35:
                default = True
                p = None
                self.ns.append(("", uri))
            else:
                pn = prefixes.pop()
                p = Y(Q(pn), self.g())
                self.ns.append((pn, uri))
            out.append((("NS", self.g(), self.g(), p, self.strform(), Q(uri), self.g()), self.g()))
        for _ in range(r.choice([0, 1, 1, 2, 2, 3, 4, 6])):
            out.append((self.body_stmt(), self.g()))
        return out


def gen_case(rng, depth):
    g = SheetGen(rng, depth)
    sh = g.sheet()
    style = rng.random()
    if style < 0.15:
        lay = [0] * g.n
    elif style < 0.3:
        lay = [rng.choice([0, 1]) for _ in range(g.n)]
    else:
        lay = [rng.randint(0, 20) for _ in range(g.n)]
    return sh, lay


def wire(case):
    sh, lay = case
    return ",".join(map(str, lay)) + "\t" + words_of(sh)


# ================================================================================ shrinking (statements, declarations, terms)
def _paths(x, path=()):
    """paths to every counted list inside the tree"""
    if isinstance(x, (Q, Words, str)) or x is None or isinstance(x, (bool, int)):
        return
    if isinstance(x, list):
        yield path
    for i, y in enumerate(x):
        for p in _paths(y, path + (i,)):
            yield p


def _get(x, path):
    for i in path:
        x = x[i]
    return x


def _set(x, path, new):
    if not path:
        return new
    i = path[0]
    y = _set(x[i], path[1:], new)
    cp = list(x)
    cp[i] = y
    return type(x)(cp)


def shrink_candidates(sh):
    for p in sorted(set(_paths(sh)), key=len):
        l = _get(sh, p)
        lo = 1 if isinstance(l, NE) else 0
        for i in range(len(l)):
            if len(l) - 1 >= lo:
                yield _set(sh, p, type(l)(l[:i] + l[i + 1:]))


# ================================================================================ implementation side: CSSOM -> JSON
_ready = False


def _setup():
    global _ready
    if not _ready:
        import logging
        import css_parser
        css_parser.log.setLevel(logging.FATAL)
        _ready = True


def stub_fetcher(url):
    """never the default fetcher: every @import resolves to an empty sheet without touching file system or network"""
    return None, ""


def x_num(v):
    return repr(v)


def x_value(v):
    import css_parser
    from css_parser.css import value as V
    t = v.type
    if isinstance(v, V.ColorValue):
        return ["COLOR", v.colorType, v.red, v.green, v.blue] + ([] if v.alpha == 1.0 else ["alpha", repr(v.alpha)])
    if isinstance(v, V.DimensionValue):
        if t == "NUMBER":
            return ["NUMBER", x_num(v.value)] + ([] if v.dimension is None else ["dim", v.dimension])
        if t == "PERCENTAGE":
            return ["PERCENTAGE", x_num(v.value)] + ([] if v.dimension == "%" else ["dim", v.dimension])
        return [t, x_num(v.value), v.dimension]
    if isinstance(v, V.URIValue):
        return ["URI", v.uri]
    if isinstance(v, V.CSSCalc):
        items = []
        seq = list(v.seq)
        for it in seq[1:-1]:
            if isinstance(it.value, V.Value):
                items.append(x_value(it.value))
            elif isinstance(it.value, css_parser.css.CSSComment) or it.type == "S":
                continue
            else:
                items.append(["OP", it.value])
        return ["CALC", items, seq[0].value if seq and seq[0].value.lower() != "calc(" else None, seq[-1].value]
    if isinstance(v, V.CSSVariable) or isinstance(v, V.MSValue):
        return [type(v).__name__, v.cssText]
    if isinstance(v, V.CSSFunction):
        seq = list(v.seq)
        items = []
        for it in seq[1:-1]:
            if isinstance(it.value, V.Value):
                items.append(x_value(it.value))
            elif isinstance(it.value, css_parser.css.CSSComment):
                continue
            else:
                items.append(["OP", it.value])
        return ["FUNCTION", seq[0].value, items, seq[-1].value]
    return [t, v.value]


def canon_value(x):
    """drop the closing-delimiter bookkeeping fields the extractor adds (they must have their fixed values)"""
    if x[0] == "CALC":
        if x[2] is not None or x[3] != ")":
            return ["CALC-BAD"] + x
        return ["CALC", [canon_value(i) for i in x[1]]]
    if x[0] == "FUNCTION":
        if x[3] != ")":
            return ["FUNCTION-BAD"] + x
        return ["FUNCTION", x[1], [canon_value(i) for i in x[2]]]
    return x


def x_decls(style):
    import css_parser
    out = []
    for p in style.getProperties(all=True):
        terms = []
        for it in p.propertyValue.seq:
            if isinstance(it.value, css_parser.css.value.Value):
                terms.append(canon_value(x_value(it.value)))
            elif isinstance(it.value, css_parser.css.CSSComment):
                continue
            else:
                terms.append(["OP" if it.type == "operator" else it.type, it.value])
        out.append(["decl", p.name, p.priority, terms])
    return out


def x_selector(sel):
    import css_parser
    items = []
    for it in sel.seq:
        v = it.value
        if it.type in ("COMMENT", "S"):
            continue
        if isinstance(v, tuple):
            u = v[0]
            uj = ["any"] if u == css_parser._ANYNS else (["none"] if u is None else ["uri", u])
            items.append([it.type, uj, v[1]])
        elif isinstance(v, str):
            items.append([it.type, v])
        else:
            continue
    return ["sel", norm_comb(items), list(sel.specificity)]


COMBS = ("descendant", "child", "adjacent-sibling", "following-sibling")


def norm_comb(items):
    """whitespace next to a comment or another combinator leaves extra 'descendant' items in Selector.seq
    (`a /**/ b`, `a /**/ > b`, `a /**/`): a descendant adjacent to another combinator, or last, is dropped"""
    out, pend = [], None
    for x in items:
        if x[0] not in COMBS:
            if pend is not None:
                out.append(pend)
                pend = None
            out.append(x)
        elif x[0] == "descendant":
            if pend is None:
                pend = x
        else:
            if pend is not None and pend[0] != "descendant":
                out.append(pend)
            pend = x
    if pend is not None and pend[0] != "descendant":
        out.append(pend)
    return out


def x_mquery(q):
    import css_parser
    neg, typ, exprs = "", "", []
    seq = [it for it in q.seq if not isinstance(it.value, css_parser.css.CSSComment)]
    i = 0
    cur = None
    state = "start"
    for it in seq:
        v = it.value
        if state == "start" and it.type == "IDENT" and isinstance(v, str) and v.lower() in ("only", "not") and not neg:
            neg = v.lower()
        elif state == "start" and it.type == "IDENT":
            typ = v.lower()
            state = "after"
        elif state in ("start", "after") and v == "(":
            cur = []
            state = "feat"
        elif state == "after" and it.type == "IDENT" and v.lower() == "and":
            state = "start2"
        elif state == "start2" and v == "(":
            cur = []
            state = "feat"
        elif state == "feat" and it.type == "IDENT":
            cur.append(v.lower())
            state = "colon"
        elif state == "colon" and v == ":":
            state = "val"
        elif state == "val" and isinstance(v, css_parser.css.value.Value):
            cur.append(canon_value(x_value(v)))
            state = "close"
        elif state in ("colon", "close") and v == ")":
            exprs.append(cur)
            state = "after"
        else:
            exprs.append(["UNEXPECTED", it.type, str(v)])
    if state not in ("after",):
        exprs.append(["UNFINISHED", state])
    return ["mq", neg, typ, exprs]


def x_media(ml):
    return [x_mquery(it.value) for it in ml]


def _nocomment(text):
    """@page selector text: comments and whitespace removed, the (case-insensitive) pseudo-page lower-cased"""
    import re
    x = "".join(re.sub(r"/\*.*?\*/", "", text, flags=re.S).split())
    name, sep, pseudo = x.partition(":")
    return name + sep + pseudo.lower()


def x_rules(rules):
    import css_parser
    out = []
    for r in rules:
        t = r.type
        if t == r.CHARSET_RULE:
            out.append(["charset", r.encoding])
        elif t == r.IMPORT_RULE:
            out.append(["import", r.href, x_media(r.media), [] if r.name is None else [r.name]])
        elif t == r.NAMESPACE_RULE:
            out.append(["namespace", r.prefix, r.namespaceURI])
        elif t == r.MEDIA_RULE:
            out.append(["media", x_media(r.media), x_rules(r.cssRules)])
        elif t == r.PAGE_RULE:
            out.append(["page", _nocomment(r.selectorText), x_decls(r.style),
                        [[m.margin, x_decls(m.style)] for m in r.cssRules]])
        elif t == r.FONT_FACE_RULE:
            out.append(["font-face", x_decls(r.style)])
        elif t == r.STYLE_RULE:
            out.append(["style", [x_selector(s) for s in r.selectorList], x_decls(r.style)])
        elif t == r.UNKNOWN_RULE:
            out.append(["unknown", r.atkeyword])
        elif t == r.COMMENT:
            out.append(["comment", r.cssText])
        else:
            out.append(["other", r.typeString])
    return out


def impl_models(text):
    """the four configurations; returns [model(validate, parseComments) ...] in the order
    (True, True), (False, True), (True, False), (False, False)"""
    _setup()
    import css_parser
    out = []
    for pc in (True, False):
        for val in (True, False):
            try:
                p = css_parser.CSSParser(fetcher=stub_fetcher, parseComments=pc, validate=val)
                sh = p.parseString(text)
                out.append(x_rules(sh.cssRules))
            except Exception as e:  # noqa
                out.append(["EXC", type(e).__name__, str(e)[:200]])
    return out


def first_diff(a, b, path="$"):
    if type(a) != type(b):
        return "%s: expected %s, implementation %s" % (path, json.dumps(a)[:160], json.dumps(b)[:160])
    if isinstance(a, list):
        for i, (x, y) in enumerate(zip(a, b)):
            d = first_diff(x, y, "%s[%d]" % (path, i))
            if d:
                return d
        if len(a) != len(b):
            if len(a) > len(b):
                return "%s: missing in the implementation's model: %s" % (path, json.dumps(a[len(b)])[:200])
            return "%s: extra in the implementation's model: %s" % (path, json.dumps(b[len(a)])[:200])
        return None
    if a != b:
        return "%s: expected %s, implementation %s" % (path, json.dumps(a)[:160], json.dumps(b)[:160])
    return None


def judge(text, expected, expected_nc, models):
    """the property-level oracle; returns None or (description, sig)"""
    names = ["validate=True parseComments=True", "validate=False parseComments=True",
             "validate=True parseComments=False", "validate=False parseComments=False"]
    for k, m in enumerate(models):
        exp = expected if k < 2 else expected_nc
        if m and m[0] == "EXC":
            return "parse raised %s (%s)" % (m[1], names[k]), m[2]
        d = first_diff(exp, m)
        if d:
            return "object model differs from the sheet that was written (%s)" % names[k], d
    return None


# ================================================================================ driver plumbing
def uncps(x):
    return "".join(chr(int(c)) for c in x.split(",") if c)


def run_model(ctx, binary, cases):
    out = ctx.run_binary(binary, [wire(c) for c in cases], shards=PROCS)
    res = []
    for o in out:
        if o.startswith("BAD"):
            res.append(None)
            continue
        text, flags, e1, e2, toks = o.split("\t")
        toks = [[uncps(x) for x in t.split(":")] for t in toks.split(";")] if toks else []
        res.append((uncps(text), [int(f) for f in flags.split(" ")], json.loads(e1), json.loads(e2), toks))
    return res


def evaluate(ctx, binary, cases):
    """-> list of (case, model result, impl models, verdict)"""
    mres = run_model(ctx, binary, cases)
    texts = [m[0] if m else "" for m in mres]
    impl = ctx.pool_map(impl_models, texts, procs=PROCS, chunksize=32)
    out = []
    for c, m, i in zip(cases, mres, impl):
        v = judge(m[0], m[2], m[3], i) if m else None
        out.append((c, m, i, v))
    return out


def shrink(ctx, binary, case, sig_of):
    """greedy: drop statements / declarations / terms / list entries, then flatten the layout"""
    sh, lay = case
    t0 = time.time()
    target = sig_of(case)
    improved = True
    while improved and time.time() - t0 < 40:
        improved = False
        cands = [(c, lay) for c in shrink_candidates(sh)][:400]
        if not cands:
            break
        res = evaluate(ctx, binary, cands)
        for (c, m, i, v) in res:
            if m and m[1][2] and m[1][3] and v and _family(v) == target:
                sh = c[0]
                improved = True
                break
    for cand in ([0] * len(lay), [x % 2 for x in lay]):
        r = evaluate(ctx, binary, [(sh, cand)])[0]
        if r[1] and r[3] and _family(r[3]) == target:
            lay = cand
            break
    return sh, lay


def _family(v):
    import re
    path, _, rest = v[1].partition(":")
    rest = re.sub(r"\d+", "#", rest)
    rest = re.sub(r'"[^"]*"', '"."', rest)
    return v[0] + "|" + re.sub(r"\[\d+\]", "[]", path) + "|" + rest[:50]


def witness_of(case, m, v):
    return {"sheet_words": words_of(case[0]), "layout": case[1], "text": m[0], "fails": v[0], "detail": v[1]}


def run(ctx):
    thorough = ctx.tier == "thorough"
    rng = ctx.rng
    ctx.regen("tokenizer", "selconsts")     # the tables the shared tokenizer / selector models of the cone are built on
    b = ctx.coq_build("props/C02.v")
    binary = ctx.ocaml_build("grammar")
    cp = VERIF / "corpus" / "C02.json"
    corpus = json.loads(cp.read_text()) if cp.exists() else []
    n_eval, nontrivial, samples = 0, set(), []
    stats = {"statements": 0, "colons": 0, "with_comment_stmt": 0, "with_media": 0, "with_namespace": 0,
             "layout_nonzero": 0, "skipped_known": 0, "text_len_max": 0}
    tie_bad = {"tokenize_render": [], "selector_accepts": [], "driver": [], "generator": [], "delimited": [],
               "inert_comments": [], "order_machine": []}
    seen_viol = {}

    # ---- corpus: stored texts with their expected models (minimised past failures), always first
    for ent in corpus:
        v = judge(ent["text"], ent["expected"], ent["expected_nc"], impl_models(ent["text"]))
        n_eval += 1
        if v:
            ctx.violation(v[0], {"text": ent["text"], "detail": v[1]}, sig_text=json.dumps(ent["text"]) + " " + v[1])

    # ---- known findings: stored witnesses are re-run
    for f in ctx.findings:
        if f.get("status") == "open":
            w = f["witness"]
            v = judge(w["text"], w["expected"], w["expected_nc"], impl_models(w["text"]))
            if v:
                ctx.violation(v[0], w, sig_text=json.dumps(w["text"]) + " " + v[1])

    # ---- end-to-end stream with growing derivation depth
    if binary:
        total = 100000 if thorough else 4000
        batch = 2000 if thorough else 800
        done = 0
        while done < total:
            depth = 0 if done < total // 6 else (1 if done < total // 2 else (2 if done < 5 * total // 6 or not thorough else 3))
            cases = [gen_case(rng, depth) for _ in range(min(batch, total - done))]
            done += len(cases)
            for (c, m, i, v) in evaluate(ctx, binary, cases):
                n_eval += 1
                if m is None:
                    tie_bad["driver"].append(words_of(c[0])[:300])
                    continue
                text, flags, e1, e2, mtoks = m
                if not flags[2] or not flags[3] or not flags[7]:
                    # the generator left G: not well-ordered, undeclared prefix, or not WfSheet (hypothesis of delimited_of_wf)
                    tie_bad["generator"].append(text[:300])
                    continue
                if not flags[0]:
                    tie_bad["tokenize_render"].append(text[:300])
                if not flags[1]:
                    tie_bad["selector_accepts"].append(text[:300])
                if not flags[4]:
                    tie_bad["delimited"].append(text[:300])
                if not flags[5]:
                    tie_bad["inert_comments"].append(text[:300])
                if not flags[6]:
                    tie_bad["order_machine"].append(text[:300])
                stats["statements"] += len(e1)
                stats["colons"] += text.count(":")
                stats["with_comment_stmt"] += e1 != e2
                stats["with_media"] += "@media" in text.lower()
                stats["with_namespace"] += "@namespace" in text.lower()
                stats["layout_nonzero"] += any(c[1])
                stats["text_len_max"] = max(stats["text_len_max"], len(text))
                if len(e1) >= 2:
                    nontrivial.add(text)
                if len(samples) < 4 and 40 < len(text) < 160:
                    samples.append(text)
                if v:
                    sig = json.dumps(text) + " " + v[1]
                    if ctx.match_known(v[0] + " :: " + sig):
                        stats["skipped_known"] += 1
                        continue
                    fam = _family(v)
                    if fam in seen_viol:
                        continue
                    sc = shrink(ctx, binary, c, lambda cc: fam)
                    r = evaluate(ctx, binary, [sc])[0]
                    if r[1] and r[3]:
                        c, m, v = sc, r[1], r[3]
                    seen_viol[fam] = 1
                    w = witness_of(c, m, v)
                    w["expected"], w["expected_nc"] = m[2], m[3]
                    ctx.violation(v[0], w, sig_text=json.dumps(m[0]) + " " + v[1])
    for k, l in tie_bad.items():
        if l:
            ctx.broken("correspondence", k, "%d cases; first: %s" % (len(l), json.dumps(l[:3])))

    def search():
        if not binary:
            return None
        t0 = time.time()
        while time.time() - t0 < (300 if thorough else 60):
            cases = [gen_case(rng, rng.choice([0, 1, 2, 3])) for _ in range(600)]
            for (c, m, i, v) in evaluate(ctx, binary, cases):
                if m and m[1][2] and m[1][3] and v and not ctx.match_known(v[0] + " :: " + json.dumps(m[0]) + " " + v[1]):
                    sc = shrink(ctx, binary, c, lambda cc: _family(v))
                    r = evaluate(ctx, binary, [sc])[0]
                    if r[1] and r[3]:
                        c, m, v = sc, r[1], r[3]
                    w = witness_of(c, m, v)
                    w["expected"], w["expected_nc"] = m[2], m[3]
                    return w
        return None

    extra = {"coqchk": ctx.coqchk("props/C02.v")} if thorough and b.ok else {}
    ctx.finish({
        **extra,
        "evaluations": n_eval,
        "distinct_nontrivial": len(nontrivial),
        "rule": "derivations of grammar G (coq/theories/Grammar.v) generated with depth 0, 1, 2 (thorough: 3) (function/@media nesting), "
                "each with a layout vector (all-zero 15%, 0/1 15%, 0..20 70%); each case = 4 parses (validate x parseComments) "
                "compared with expected_model; non-trivial = distinct texts with >= 2 statements",
        "distribution": stats,
        "samples": samples,
        "disagreements_checked": n_eval,
        "trusted_base": TRUSTED,
    }, assumptions=ASSUME, search=search)


def replay(ctx, path):
    rep = json.loads(open(path).read())
    bad = 0
    for v in rep.get("violations", []):
        w = v["witness"]
        if "expected" not in w:
            print("replay: witness without expected model, text %r" % w.get("text"))
            continue
        d = judge(w["text"], w["expected"], w["expected_nc"], impl_models(w["text"]))
        print("replay %r -> %s" % (w["text"], ("FAILS: %s :: %s" % d) if d else "holds"))
        bad += bool(d)
    return 1 if bad else 0


TRUSTED = [
    "Coq 8.16.1 kernel and VM; no native_compute",
    "extraction (ExtrOcamlBasic only) + ocamlfind ocamlopt, ocaml/grammar_driver.ml (AST reader, JSON printer)",
    "harness/props/c02.py: the Python model extractor (CSSOM -> JSON through public attributes: cssRules, type, selectorList/seq/"
    "specificity, style.getProperties(all=True), propertyValue.seq, media, href, name, prefix, namespaceURI, encoding), "
    "the generator of derivations, the comparison",
    "the selector generator of harness/props/c16.py (imported) and the selector AST/renderer of coq/theories/Selector.v (C16)",
    "Section hypotheses of coq/props/C02.v validated by this run on every case: tokenize_render (shared tokenizer model "
    "re-tokenizes the rendering), selector_accepts (C16 machine builds the specified components), value_grammar_faithful, "
    "media_grammar_faithful, simple_rules_faithful (validated end to end against expected_model)",
    "hypothesis-free since GrammarPP.v (theorems value_grammar_faithful_pp, media_grammar_faithful_pp, parse_faithful_pp): "
    "declarations whose terms are single tokens (identifier / colour keyword, number, dimension, percentage, string, url, hex "
    "colour, unicode-range) or rgb(), and @media heads whose queries the PP engine model accepts (known media type, or unknown "
    "without only/not; feature values single number / dimension / percentage / non-colour identifier), in sheets of rule sets, "
    "comments and nested @media: build_value / build_media are the PP engine (coq/theories/ProdParser*.v, production trees "
    "regenerated from value.py / medialist.py / mediaquery.py by translate/prodtrees.py) plus Gallina readers; trusted there: "
    "PP's engine model and its own correspondence check (./check PP)",
    "STILL under the named hypotheses: declarations with generic functions or calc() (value_grammar_faithful), @media heads "
    "outside okm_pp and every @import media list (media_grammar_faithful / simple_rules_faithful), the heads of @charset, "
    "@import, @namespace, @page, @font-face and unknown at-rules (simple_rules_faithful), tokenize_render",
    "Python repr() of int/float as the canonical number spelling (lexemes of G have <= 6 integer and <= 4 fraction digits)",
]
ASSUME = [
    "Print Assumptions for every theorem of props/C02.v: see coverage.print_assumptions",
    "G excludes by design: escapes (C10), comments between statements as layout (they are statements), two margin boxes of one "
    "name, two prefixes for one namespace URI (C15), an empty @import name; repeated simple media types and `all` are in G "
    "and expected_model specifies the effective list (media_effective); the forms of the open findings are not generated "
    "(their stored witnesses are replayed)",
    "Delimited (decidable side condition of skeleton_faithful / media_faithful / ruleset_faithful) is evaluated on every "
    "generated derivation, not proved from AST-level side conditions",
]
