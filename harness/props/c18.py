"""C18 -- parent / owner links always mirror containment.

proof:          coq/props/C18.v (links_invariant, links_mirror, parentStyleSheet_any_depth, deleted_detached, rejected_keeps_links,
                set_cssRules_ok, property_ctor_ok) over the heap model coq/theories/Links.v
tie:            after every API operation of exhaustive-small and random histories the real object graph is
                walked; the change of containment is translated into the model's site functions (alloc / attach /
                detach / drop), the extracted model is run, and for every object ever seen the stored link
                attributes (_parentRule, _parentStyleSheet, _parent/parent, _ownerRule), the derived accessors
                (rule.parent, rule.parentStyleSheet) and the element lists are compared with the model's, by identity
oracle/search:  the statement itself on the implementation: every parent attribute of every object reachable from
                the sheet is, by identity, the object that contains it; a rule removed with deleteRule reports nothing
"""
import itertools
import json
import logging
import random
import time

INITIAL = [
    # 0: every rule kind, @media nested three deep, @page with margin rules (also inside @media), function values
    '@charset "utf-8"; /*c*/ @import "i.css" print; @namespace "u";\n'
    'a, b>c { color: rgb(1,2,3); margin: 0 calc(1px + 2px) f(g(1), 2) }\n'
    '@media print { x{top:0} @media screen { y {left: 1px} @media tv { z{right:2px} '
    '@page { margin: 1cm; @top-left { content: "n" } } } } }\n'
    '@page :first { margin: 0; @top-left { content: "x" } @bottom-right { color: red } @top-left { left: 0; top: 1px } }\n'
    '@font-face { font-family: x; src: url(f.woff) }\n@unknown foo;',
    # 1: small, two levels
    '@media print { @media screen { a{x:1} } } b{y:2}',
    # 2, 3
    'a{x:1}',
    '',
    # 4: import first
    # 4: import first, two prefixed namespaces that are both in use (an @namespace re-declaring p or q is refused)
    '@import url(k.css); @namespace p "u1"; @namespace q "u2"; @media tv { p|m {n:o} @page :left { @top-right { top: 1px } } } '
    'c, d { e: f g } q|h {i:j}',
]
IMPORTED = b'@media print { @media tv { i{j:k} } } l{m:n} @page { @top-left { o: p } }'

RULE_TEXTS = ['c{z:3}', '@media tv { d{w:4} }', '@media screen { @media print { e{v:5} @media tv { g{h:6} } } }',
              '@page :left { margin: 1cm; @top-left { content: "t" } }', '/* k */', '@font-face { font-family: f }',
              '@import "i.css" screen;', '@namespace p "u2";', '@charset "ascii";', 'bad {', '@top-right { color: red }',
              '@unknown x;', 'h, i { j: k(l(1)) }', '@page { @top-left { a: b } @top-left { c: d } }', '@namespace q "u1";',
              '@namespace r "u1";']
STYLE_TEXTS = ['color: red', 'margin: 0 calc(1px + 2px) f(g(1), 2); color: rgb(1,2,3) !important', '', 'x:',
               'top: 0; $bad; left: 1px', 'a: b; a: c']
SELECTOR_TEXTS = ['a', 'a, b > c', 'h1:hover, .k', ',', 'q|b', 'b > c']
MEDIA_TEXTS = ['print', 'screen, tv', 'all', 'print and (min-width: 10px)', '3d', 'tv']
PROPS = [('color', 'red'), ('margin', '1px 2px'), ('color', 'rgb(1, 2, 3)'), ('top', 'calc(1px + 2px)'), ('x', ''),
         ('left', 'f(g(1))'), ('color', '}')]
CSSTEXT = {
    'stylerule': ['q{r:1}', 'q{', '@media x {}', 's, t { u: v w }'],
    'media': ['@media tv { a{b:c} @media print { d{e:f} } }', '@media screen {b{y:2}} junk', '@media {', '@media all {}'],
    'page': ['@page :first { margin: 0; @top-left { content: "x" } @bottom-center {color: red} }', '@page {',
             '@page { @top-left { a: b } @top-left { c: d } }'],
    'import': ['@import url(j.css) tv;', '@import ;'],
    'fontface': ['@font-face { src: url(x) }', '@font-face {'],
    'margin': ['@top-left { y:1 }', '@top-right{y:1;!}'],
    'decl': ['a: b; c: d e', 'k: rgb(1,2,3)', '!'],
    'prop': ['k: v w', 'y: ;'],
    'pv': ['1px 2px', 'f(1, g(2))', ')'],
    # accepted, then rejected ones: misplaced @namespace / @import / @charset, undeclared prefix, unbalanced junk
    'sheet': ['m{n:o} @media print { @media tv { p{q:r} } }', '', 'p { top: 0 } @namespace x "u";', 'p{} @import "x.css";',
              'p{left:0} @charset "utf-8";', 'q|a { top: 0 }', '@media print { a{b:c} } @namespace y "v"; d{e:f}',
              'a{x:1} @page { @top-left { y:2 } } }junk{'],
}
NEW_KINDS = ['stylerule', 'media', 'page', 'margin', 'fontface', 'comment', 'decl', 'prop', 'sellist', 'selector',
             'medialist', 'import', 'namespace']

K = {'sheet': 0, 'rule': 1, 'decl': 2, 'prop': 3, 'pv': 4, 'value': 5, 'sellist': 6, 'selector': 7, 'medialist': 8}
RTOP, RSUB, RSTYLE, RSELLIST, RMEDIA, RIMPORTED, RITEM, RPV = range(8)
SINGLE = {RSTYLE, RSELLIST, RMEDIA, RIMPORTED, RPV}
SITE = {(0, RTOP): 0, (1, RSUB): 1, (1, RSTYLE): 2, (1, RSELLIST): 3, (1, RMEDIA): 4, (1, RIMPORTED): 5,
        (2, RITEM): 6, (6, RITEM): 7, (3, RPV): 8, (4, RITEM): 9, (5, RITEM): 10}
ROLE_NAMES = ['cssRules', 'cssRules', 'style', 'selectorList', 'media', 'styleSheet', 'seq', 'propertyValue']


def _mods():
    import css_parser
    from css_parser import css, stylesheets
    return css_parser, css, stylesheets


def kind_of(o):
    _, css, st = _mods()
    if isinstance(o, css.CSSStyleSheet):
        return 'sheet'
    if isinstance(o, css.CSSRule):
        return 'rule'
    if isinstance(o, css.CSSStyleDeclaration):
        return 'decl'
    if isinstance(o, css.Property):
        return 'prop'
    if isinstance(o, css.PropertyValue):
        return 'pv'
    if isinstance(o, css.Value):
        return 'value'
    if isinstance(o, css.SelectorList):
        return 'sellist'
    if isinstance(o, css.Selector):
        return 'selector'
    if isinstance(o, st.MediaList):
        return 'medialist'
    return None


def cat_of(o):
    """finer category used to select targets"""
    _, css, st = _mods()
    for name, cls in (('stylerule', css.CSSStyleRule), ('media', css.CSSMediaRule), ('page', css.CSSPageRule),
                      ('margin', css.MarginRule), ('fontface', css.CSSFontFaceRule), ('import', css.CSSImportRule),
                      ('namespace', css.CSSNamespaceRule)):
        if isinstance(o, cls):
            return name
    return kind_of(o)


def kids_of(o):
    """the objects o actually contains: [(role, child)] in list order"""
    _, css, st = _mods()
    out = []
    if isinstance(o, css.CSSStyleSheet):
        out += [(RTOP, r) for r in o.cssRules]
    elif isinstance(o, css.CSSRule):
        if isinstance(o, css.CSSStyleRule):
            out.append((RSELLIST, o.selectorList))
        if isinstance(o, (css.CSSMediaRule, css.CSSImportRule)):
            out.append((RMEDIA, o.media))
        if isinstance(o, (css.CSSStyleRule, css.CSSPageRule, css.CSSFontFaceRule, css.MarginRule)):
            out.append((RSTYLE, o.style))
        if isinstance(o, css.CSSImportRule) and o.styleSheet is not None:
            out.append((RIMPORTED, o.styleSheet))
        if isinstance(o, (css.CSSMediaRule, css.CSSPageRule)):
            out += [(RSUB, r) for r in o.cssRules]
    elif isinstance(o, css.CSSStyleDeclaration):
        out += [(RITEM, it.value) for it in o.seq if isinstance(it.value, css.Property)]
    elif isinstance(o, css.Property):
        if o.propertyValue is not None:
            out.append((RPV, o.propertyValue))
    elif isinstance(o, (css.PropertyValue, css.Value)):
        out += [(RITEM, it.value) for it in o.seq if isinstance(it.value, css.Value)]
    elif isinstance(o, css.SelectorList):
        out += [(RITEM, x) for x in o.seq]
    return [(r, c) for r, c in out if c is not None and kind_of(c) is not None]


def walk(root):
    """preorder list of the objects below root (root first)"""
    out, todo, seen = [], [root], set()
    while todo:
        o = todo.pop()
        if id(o) in seen:
            continue
        seen.add(id(o))
        out.append(o)
        todo.extend(c for _, c in reversed(kids_of(o)))
    return out


# ------------------------------------------------------------------------------------------ the oracle
def describe(o):
    c = cat_of(o)
    return c


def oracle(sheet, depth_limit=50):
    """the property on the implementation: list of (description, sig) for every parent attribute of an object
    reachable from `sheet` that is not, by identity, the object containing it"""
    bad = []
    seen = {}

    def visit(p, top, depth):
        for r, c in kids_of(p):
            if id(c) in seen:
                bad.append(("object is contained twice (harness error or shared object)", "shared " + describe(c)))
                continue
            seen[id(c)] = p
            what = None
            if r == RTOP:
                if c.parentStyleSheet is not p:
                    what = "parentStyleSheet of a top-level rule is not its sheet"
                elif c.parentRule is not None:
                    what = "parentRule of a top-level rule is not None"
                elif c.parent is not None:
                    what = "parent of a top-level rule is not None"
            elif r == RSUB:
                if c.parentRule is not p:
                    what = "parentRule of a nested rule is not the rule containing it"
                elif c.parentStyleSheet is not top:
                    what = "parentStyleSheet of a nested rule is not the sheet that contains it"
                elif c.parent is not p:
                    what = "parent of a nested rule is not the rule containing it"
            elif r in (RSTYLE, RSELLIST, RMEDIA):
                if c.parentRule is not p:
                    what = "parentRule of %s is not the rule it belongs to" % ROLE_NAMES[r]
            elif r == RIMPORTED:
                if c.ownerRule is not p:
                    what = "ownerRule of an imported sheet is not the @import rule"
            else:
                if c.parent is not p:
                    what = "parent of %s is not the %s containing it" % (describe(c), describe(p))
            if what:
                bad.append((what, "%s in %s via %s at depth %d" % (describe(c), describe(p), ROLE_NAMES[r], depth)))
            if r == RIMPORTED:
                visit(c, c, 0)
            elif r in (RTOP, RSUB):
                visit(c, top, depth + 1)
            else:
                visit(c, top, depth)
    visit(sheet, sheet, 0)
    return bad


def oracle_deleted(rule):
    if rule.parentRule is not None:
        return "rule removed with deleteRule still reports a parentRule"
    if rule.parentStyleSheet is not None:
        return "rule removed with deleteRule still reports a parentStyleSheet"
    if rule.parent is not None:
        return "rule removed with deleteRule still reports a parent"
    return None


# ------------------------------------------------------------------------------------------ the world
class World:
    """one history: the sheet, the objects the user holds (pool), the registry object -> model id, the
    model lines of the history and the expected dumps"""

    def __init__(self, text):
        cp, css, st = _mods()
        cp.log.setLevel(logging.FATAL)
        cp.log.raiseExceptions = False
        self.parser = cp.CSSParser(fetcher=lambda url: (None, IMPORTED), loglevel=logging.FATAL)
        self.reg, self.objs, self.snap = {}, [], {}
        self.lines, self.expected = ["reset"], []
        self.pool = []
        self.viol = []      # (step, description, sig)
        self.dump_step, self.step = [], -1
        self.notes = []
        self.sheet = self.parser.parseString(text)
        self.sync(None)
        self.check(-1)

    # -- registry / translation to the model's site functions
    def mid(self, o):
        if o is None:
            return -1
        return self.reg.get(id(o), -9)

    def register(self, o, pr=-1, pss=-1):
        if id(o) not in self.reg:
            self.reg[id(o)] = len(self.objs)
            self.objs.append(o)
            self.lines.append("alloc %d %d %d -1 -1" % (K[kind_of(o)], pr, pss))

    def sync(self, deleted_from):
        """translate what the last API call did to containment into model steps (generic: elements that left a
        list are dropped -- detached with the deleteRule writes when the call was deleteRule --, new objects are
        allocated, elements that entered a list are attached through the site of (container kind, role))"""
        for o in [self.sheet] + self.pool:
            self.register(o)
        i = 0
        while i < len(self.objs):
            for _, c in kids_of(self.objs[i]):
                self.register(c)
            i += 1
        now = {m: [(r, self.reg[id(c)]) for r, c in kids_of(o)] for m, o in enumerate(self.objs)}
        attaches = []
        for m in range(len(self.objs)):
            old, new = self.snap.get(m, []), now[m]
            newset = set(new)
            for r in range(8):
                oldr = [c for rr, c in old if rr == r]
                newr = [c for rr, c in new if rr == r]
                for i in range(len(oldr) - 1, -1, -1):
                    if (r, oldr[i]) not in newset:
                        if r == RSUB:
                            # deleteRule and the cssRules setter of a container rule (hence the cssText setters
                            # of @media / @page) detach the rules that leave the list
                            self.lines.append("detach 1 %d %d" % (m, i))
                        elif deleted_from is not None and deleted_from == m and r == RTOP:
                            self.lines.append("detach 0 %d %d" % (m, i))
                        else:
                            self.lines.append("drop %d %d %d" % (r, m, i))
                kept = [c for c in oldr if (r, c) in newset]
                if kept != [c for c in newr if c in kept]:
                    self.notes.append("elements of object %d reordered" % m)
                keptset = set(kept)
                for j, c in enumerate(newr):
                    if c not in keptset:
                        site = SITE.get((K[kind_of(self.objs[m])], r))
                        if site is None:
                            self.notes.append("no site for %s role %d" % (kind_of(self.objs[m]), r))
                            continue
                        attaches.append("attach %d %d %d %d" % (site, m, c, 0 if r in SINGLE else j))
        self.lines += attaches
        self.snap = now
        self.lines.append("dump")
        self.expected.append(self.snapshot())
        self.dump_step.append(self.step)

    def snapshot(self):
        out = []
        for o in self.objs:
            k = kind_of(o)
            if k == 'rule':
                f = [self.mid(o._parentRule), self.mid(o._parentStyleSheet), self.mid(o._parent), None,
                     self.mid(o.parent), self.mid(o.parentStyleSheet)]
            elif k in ('decl', 'sellist', 'medialist'):
                f = [self.mid(o._parentRule), None, None, None, None, None]
            elif k in ('prop', 'selector'):
                f = [None, None, self.mid(o._parent), None, self.mid(o.parent), None]
            elif k in ('pv', 'value'):
                f = [None, None, self.mid(o.parent), None, self.mid(o.parent), None]
            else:
                f = [None, None, None, self.mid(o._ownerRule), None, None]
            out.append([K[k]] + f + [[(r, self.reg[id(c)]) for r, c in kids_of(o)]])
        return out

    def check(self, step):
        for what, sig in oracle(self.sheet):
            self.viol.append((step, what, sig))

    # -- target selection
    def universe(self):
        out = walk(self.sheet)
        cont = self.contained_ids()
        for p in self.pool:
            if id(p) not in cont and p is not self.sheet:
                out += [o for o in walk(p) if all(o is not x for x in out)]
        return out

    def contained_ids(self):
        s = set()
        for o in self.objs:
            for _, c in kids_of(o):
                s.add(id(c))
        return s

    def select(self, cats, n):
        cand = [o for o in self.universe() if cat_of(o) in cats]
        return cand[n % len(cand)] if cand else None

    def free(self, cats, n, fresh=None):
        """an object the user holds that is nobody's element; a new one (constructed standalone) when there is none"""
        cont = self.contained_ids()
        cand = [o for o in self.pool if cat_of(o) in cats and id(o) not in cont]
        if cand and (fresh is None or n % 3):
            return cand[n % len(cand)]
        if fresh is None:
            return None
        o = make_new(fresh, n)
        self.pool.append(o)
        return o


CONTAINER = ('sheet', 'media', 'page')
POOLABLE = ('stylerule', 'media', 'page', 'margin', 'fontface', 'import', 'rule', 'namespace', 'decl', 'prop', 'sellist',
            'selector', 'medialist')
RULECATS = ('stylerule', 'media', 'page', 'margin', 'fontface', 'import', 'rule')
STYLED = ('stylerule', 'page', 'fontface', 'margin')
# op name -> (target categories, generator of the remaining arguments)
OPS = {
    # idx 99: not clamped, an invalid index (IndexSizeErr)
    'insert_text': (CONTAINER, lambda g: {'text': g.choice(RULE_TEXTS), 'idx': g.choice([None, None, 0, 1, 2, 99])}),
    'insert_obj': (CONTAINER, lambda g: {'src': g.randrange(8), 'idx': g.choice([None, None, 0, 1, 99])}),
    'delete': (CONTAINER, lambda g: {'idx': g.choice([0, 0, 1, 2, -1, 99]), 'byobj': g.random() < 0.3}),
    'set_cssrules': (CONTAINER, lambda g: {'srcs': [g.randrange(8) for _ in range(g.choice([0, 1, 2]))]}),
    'set_style_text': (STYLED, lambda g: {'text': g.choice(STYLE_TEXTS)}),
    'set_style_obj': (STYLED, lambda g: {'src': g.randrange(8)}),
    'set_selector_text': (('stylerule',), lambda g: {'text': g.choice(SELECTOR_TEXTS)}),
    'set_sellist_obj': (('stylerule',), lambda g: {'src': g.randrange(8)}),
    'append_selector': (('sellist',), lambda g: {'text': g.choice(SELECTOR_TEXTS)}),
    'append_selector_obj': (('sellist',), lambda g: {'src': g.randrange(8)}),
    'sellist_text': (('sellist',), lambda g: {'text': g.choice(SELECTOR_TEXTS)}),
    'set_media_text': (('media', 'import'), lambda g: {'text': g.choice(MEDIA_TEXTS)}),
    'set_media_obj': (('media', 'import'), lambda g: {'src': g.randrange(8)}),
    'medialist_text': (('medialist',), lambda g: {'text': g.choice(MEDIA_TEXTS)}),
    'append_medium': (('medialist',), lambda g: {'text': g.choice(MEDIA_TEXTS)}),
    'set_csstext': (tuple(CSSTEXT), lambda g: {'k': g.randrange(8)}),
    'sheet_csstext': (('sheet',), lambda g: {'k': g.randrange(8)}),
    'set_property': (('decl',), lambda g: {'k': g.randrange(len(PROPS)), 'replace': g.random() < 0.7}),
    'set_property_obj': (('decl',), lambda g: {'src': g.randrange(8), 'replace': g.random() < 0.5}),
    'remove_property': (('decl',), lambda g: {'k': g.randrange(len(PROPS))}),
    'prop_value': (('prop',), lambda g: {'k': g.randrange(len(PROPS))}),
    'set_href': (('import',), lambda g: {'text': g.choice(['n.css', '', 'o.css'])}),
    'new': (('sheet',), lambda g: {'what': g.choice(NEW_KINDS), 'k': g.randrange(6), 'ctor': g.choice([0, 0, 1, 2])}),
}
OPNAMES = sorted(OPS)


def make_new(what, k):
    cp, css, st = _mods()
    if what == 'stylerule':
        return css.CSSStyleRule(selectorText=SELECTOR_TEXTS[k % 3], style=STYLE_TEXTS[k % 2])
    if what == 'media':
        m = css.CSSMediaRule(mediaText=MEDIA_TEXTS[k % 3])
        if k % 2:
            m.cssText = '@media tv { a{b:c} @media print { d{e:f} } }'
        return m
    if what == 'page':
        p = css.CSSPageRule(selectorText=':first', style='margin: 0')
        if k % 2:
            p.cssText = '@page :left { margin: 1cm; @top-left { content: "t" } }'
        return p
    if what == 'margin':
        return css.MarginRule(margin='@top-left', style='color: red')
    if what == 'fontface':
        return css.CSSFontFaceRule(style='font-family: x')
    if what == 'comment':
        return css.CSSComment('/* c */')
    if what == 'import':
        return css.CSSImportRule(href='p.css', mediaText='print')
    if what == 'namespace':
        prefix, uri = [('p', 'u2'), ('q', 'u1'), ('', 'u3'), ('p', 'u1'), ('r', 'u2'), ('q', 'u3')][k % 6]
        return css.CSSNamespaceRule(namespaceURI=uri, prefix=prefix)
    if what == 'decl':
        return css.CSSStyleDeclaration(cssText=STYLE_TEXTS[k % 2])
    if what == 'prop':
        n, v = PROPS[k % 4]
        return css.Property(n, v)
    if what == 'sellist':
        return css.SelectorList(selectorText=SELECTOR_TEXTS[k % 3])
    if what == 'selector':
        return css.Selector(SELECTOR_TEXTS[k % 3].split(',')[0])
    if what == 'medialist':
        return st.MediaList(mediaText=MEDIA_TEXTS[k % 3])
    raise ValueError(what)


def apply_op(w, d, step):
    """run one API operation on the implementation; returns False when it could not be applied (target missing)"""
    cp, css, st = _mods()
    name = d['op']
    cats = OPS[name][0]
    t = w.select(cats, d['t']) if name != 'new' else w.sheet
    if t is None:
        return False
    deleted_from, deleted = None, None
    added_obj = None
    # both error modes: rejected input raises an xml.dom exception (rx) or is only logged
    cp.log.raiseExceptions = bool(d.get('rx', False))
    # the user holds references to (two of) the target's current elements: whatever the call replaces or removes
    # (a style, a selector list, a media list, a property, a selector, a rule) can be handed to another object later
    if name != 'new':
        for _, x in kids_of(t)[:2]:
            if cat_of(x) in POOLABLE and all(x is not y for y in w.pool):
                w.pool.append(x)
    if name in ('set_csstext', 'sheet_csstext', 'set_cssrules') and cat_of(t) in CONTAINER:
        # the user keeps references to rules that the assignment is going to drop (they are not detached by it)
        for x in list(t.cssRules)[:2]:
            if all(x is not y for y in w.pool):
                w.pool.append(x)
    try:
        if name == 'insert_text':
            if d['text'].startswith('@namespace') and cat_of(t) == 'sheet':
                deleted_from = w.mid(t)     # _cleanNamespaces removes superseded @namespace rules with deleteRule
            if d['idx'] is None:
                t.add(d['text'])
            else:
                t.insertRule(d['text'], d['idx'] if d['idx'] >= 90 else min(d['idx'], len(t.cssRules)))
        elif name == 'insert_obj':
            allowed = ('stylerule', 'media', 'page', 'fontface', 'rule', 'import', 'namespace') if cat_of(t) != 'page' else ('margin',)
            src = w.free(allowed, d['src'], 'margin' if cat_of(t) == 'page' else
                         ['stylerule', 'media', 'page', 'fontface', 'comment', 'namespace'][d['src'] % 6])
            if src is None or src is t or any(x is t for x in walk(src)):
                return False
            if isinstance(src, css.CSSCharsetRule) and d['idx'] is not None:
                return False    # whether the post settings are reached depends on the hierarchy checks (C07), not modelled
            if isinstance(src, css.CSSNamespaceRule) and cat_of(t) == 'sheet':
                # add(): no hierarchy error is possible, so the call either inserts (and _cleanNamespaces may remove
                # other @namespace rules with deleteRule), or ends in the post settings without inserting, or is
                # REFUSED by _cleanNamespaces (NoModificationAllowedErr: the handler restores the rule list)
                deleted_from = w.mid(t)
                t.add(src)
            elif d['idx'] is None:
                t.add(src)
            else:
                t.insertRule(src, d['idx'] if d['idx'] >= 90 else min(d['idx'], len(t.cssRules)))
            added_obj = src
        elif name == 'delete':
            if d['idx'] >= 90:
                t.deleteRule(d['idx'])      # out of range: IndexSizeErr, nothing may change
            elif not len(t.cssRules):
                return False
            else:
                i = d['idx'] if d['idx'] < len(t.cssRules) else len(t.cssRules) - 1
                deleted = t.cssRules[i]
                n0 = len(t.cssRules)
                t.deleteRule(deleted if d['byobj'] else i)
                if len(t.cssRules) < n0:
                    deleted_from = w.mid(t)
                    w.pool.append(deleted)
                else:
                    deleted = None
        elif name == 'set_cssrules':
            allowed = ('stylerule', 'media', 'fontface', 'rule') if cat_of(t) != 'page' else ('margin',)
            srcs = []
            for n in d['srcs']:
                s = w.free(allowed, n)
                if s is not None and all(s is not x for x in srcs) and s is not t and all(x is not t for x in walk(s)):
                    srcs.append(s)
            rl = css.CSSRuleList()
            for s in srcs:
                list.append(rl, s)
            t.cssRules = rl
        elif name == 'set_style_text':
            t.style = d['text']
        elif name == 'set_style_obj':
            src = w.free(('decl',), d['src'], 'decl')
            if src is None:
                return False
            t.style = src
        elif name == 'set_selector_text':
            t.selectorText = d['text']
        elif name == 'set_sellist_obj':
            src = w.free(('sellist',), d['src'], 'sellist')
            if src is None:
                return False
            t.selectorList = src
        elif name == 'append_selector':
            t.appendSelector(d['text'])
        elif name == 'append_selector_obj':
            src = w.free(('selector',), d['src'], 'selector')
            if src is None:
                return False
            t.appendSelector(src)
        elif name == 'sellist_text':
            t.selectorText = d['text']
        elif name == 'set_media_text':
            t.media = d['text']
        elif name == 'set_media_obj':
            src = w.free(('medialist',), d['src'], 'medialist')
            if src is None:
                return False
            t.media = src
        elif name == 'medialist_text':
            t.mediaText = d['text']
        elif name == 'append_medium':
            t.appendMedium(d['text'])
        elif name in ('set_csstext', 'sheet_csstext'):
            texts = CSSTEXT[cat_of(t)]
            t.cssText = texts[d['k'] % len(texts)]
        elif name == 'set_property':
            n, v = PROPS[d['k'] % len(PROPS)]
            t.setProperty(n, v, replace=d['replace'])
        elif name == 'set_property_obj':
            src = w.free(('prop',), d['src'], 'prop')
            if src is None:
                return False
            t.setProperty(src, replace=d['replace'])
        elif name == 'remove_property':
            t.removeProperty(PROPS[d['k'] % len(PROPS)][0])
        elif name == 'prop_value':
            t.value = PROPS[d['k'] % len(PROPS)][1]
        elif name == 'set_href':
            t.href = d['text']
        elif name == 'new':
            ctor = d.get('ctor', 0)
            if ctor and d['what'] in ('stylerule', 'comment', 'fontface'):
                # constructor arguments parentRule / parentStyleSheet: the caller's claim, stored as given
                pr = w.select(('media', 'page'), d['k']) if ctor == 1 else None
                pss = w.sheet if ctor == 2 else None
                cls = {'stylerule': css.CSSStyleRule, 'comment': css.CSSComment, 'fontface': css.CSSFontFaceRule}[d['what']]
                o = cls(parentRule=pr, parentStyleSheet=pss)
                if d['what'] == 'stylerule':
                    o.cssText = 'n{o:p}'
                elif d['what'] == 'comment':
                    o.cssText = '/*n*/'
                w.register(o, w.mid(pr), w.mid(pss))
                w.pool.append(o)
            else:
                w.pool.append(make_new(d['what'], d['k']))
    except Exception as e:  # the API reports rejected input by raising xml.dom exceptions (and a few others)
        w.notes.append("%s raised %s" % (name, type(e).__name__))
    if added_obj is not None and cat_of(t) == 'sheet' and all(x is not added_obj for x in t.cssRules) and \
            isinstance(added_obj, (css.CSSCharsetRule, css.CSSNamespaceRule)):
        # insertRule returned normally without inserting: an @charset merged into the existing one or a duplicate
        # @namespace; the post settings (cssstylesheet.py) are still executed on the rule
        w.register(added_obj)
        w.lines.append("post %d %d" % (w.mid(t), w.mid(added_obj)))
    if deleted is not None and any(x is deleted for x in t.cssRules):
        deleted, deleted_from = None, None      # deleteRule refused (e.g. an @namespace that is in use)
    w.sync(deleted_from)
    if deleted is not None:
        r = oracle_deleted(deleted)
        if r:
            w.viol.append((step, r, "deleteRule on " + cat_of(t)))
    w.check(step)
    return True


def gen_op(g):
    name = g.choice(OPNAMES)
    d = {'op': name, 't': g.randrange(12), 'rx': g.random() < 0.4}
    d.update(OPS[name][1](g))
    return d


def execute(case):
    """case = (index of the initial sheet, list of op descriptors).  Returns what the comparison needs."""
    ti, ops = case
    w = World(INITIAL[ti])
    applied = []
    for step, d in enumerate(ops):
        w.step = step
        if apply_op(w, d, step):
            applied.append(d['op'])
    return {'lines': w.lines, 'expected': w.expected, 'viol': w.viol[:10], 'notes': w.notes[:5],
            'applied': applied, 'nobj': len(w.objs), 'dump_step': w.dump_step}


def fails_like(ti, what, budget=25.0):
    t0 = time.time()

    def f(ops):
        if time.time() - t0 > budget:
            return False
        r = execute((ti, list(ops)))
        return any(v[1] == what for v in r['viol'])
    return f


# exhaustive-small alphabet: every op family once or twice, small argument values
def small_alphabet():
    al = []
    for t in (0, 1):
        al.append({'op': 'insert_text', 't': t, 'text': '@media tv { d{w:4} }', 'idx': None})
        al.append({'op': 'insert_text', 't': t, 'text': 'c{z:3}', 'idx': 0})
        al.append({'op': 'delete', 't': t, 'idx': 0, 'byobj': False})
        al.append({'op': 'insert_obj', 't': t, 'src': 0, 'idx': None})
        al.append({'op': 'set_cssrules', 't': t, 'srcs': [0]})
    al.append({'op': 'insert_text', 't': 2, 'text': '@media screen { @media print { e{v:5} @media tv { g{h:6} } } }', 'idx': None})
    al.append({'op': 'delete', 't': 2, 'idx': 0, 'byobj': True})
    al.append({'op': 'set_csstext', 't': 1, 'k': 0})
    al.append({'op': 'set_csstext', 't': 1, 'k': 1})
    al.append({'op': 'set_csstext', 't': 3, 'k': 0})
    # rejected variants, in both error modes
    for rx in (False, True):
        al.append({'op': 'sheet_csstext', 't': 0, 'k': 2, 'rx': rx})
        al.append({'op': 'sheet_csstext', 't': 0, 'k': 5, 'rx': rx})
        al.append({'op': 'set_csstext', 't': 1, 'k': 1, 'rx': rx})
        al.append({'op': 'insert_text', 't': 1, 'text': '@import "i.css" screen;', 'idx': 0, 'rx': rx})
        al.append({'op': 'insert_text', 't': 0, 'text': 'c{z:3}', 'idx': 99, 'rx': rx})
        al.append({'op': 'delete', 't': 0, 'idx': 99, 'byobj': False, 'rx': rx})
    al.append({'op': 'sheet_csstext', 't': 0, 'k': 0})
    al.append({'op': 'insert_text', 't': 0, 'text': '@page { @top-left { a: b } @top-left { c: d } }', 'idx': None})
    al.append({'op': 'remove_property', 't': 0, 'k': 4})
    al.append({'op': 'set_csstext', 't': 6, 'k': 0})
    al.append({'op': 'set_property_obj', 't': 1, 'src': 1, 'replace': False})
    al.append({'op': 'set_selector_text', 't': 0, 'text': 'q|b', 'rx': True})
    al.append({'op': 'set_style_text', 't': 0, 'text': 'top: 0; $bad; left: 1px', 'rx': True})
    al.append({'op': 'set_media_text', 't': 0, 'text': '3d', 'rx': True})
    al.append({'op': 'set_style_text', 't': 0, 'text': 'margin: 0 f(g(1), 2)'})
    al.append({'op': 'set_style_obj', 't': 0, 'src': 0})
    al.append({'op': 'set_selector_text', 't': 0, 'text': 'a, b > c'})
    al.append({'op': 'set_sellist_obj', 't': 0, 'src': 0})
    al.append({'op': 'append_selector', 't': 0, 'text': 'a'})
    al.append({'op': 'set_media_text', 't': 0, 'text': 'screen, tv'})
    al.append({'op': 'set_media_obj', 't': 0, 'src': 0})
    al.append({'op': 'set_property', 't': 0, 'k': 3, 'replace': True})
    al.append({'op': 'set_property_obj', 't': 0, 'src': 0, 'replace': False})
    for what in ('stylerule', 'media', 'decl', 'prop', 'sellist', 'medialist', 'page'):
        al.append({'op': 'new', 't': 0, 'what': what, 'k': 1})
    al.append({'op': 'new', 't': 0, 'what': 'stylerule', 'k': 0, 'ctor': 1})
    al.append({'op': 'new', 't': 0, 'what': 'stylerule', 'k': 0, 'ctor': 2})
    return al


def gen_cases(ctx, thorough):
    cases = []
    al = small_alphabet()
    depth = 2
    for n in range(0, depth + 1):
        for seq in itertools.product(al, repeat=n):
            cases.append((1, list(seq)))
    # @namespace rules on the sheet with two bound prefixes in use: accepted, merged, superseding and REFUSED insertions
    ns = [{'op': 'new', 't': 0, 'what': 'namespace', 'k': k} for k in range(6)]
    ns += [{'op': 'insert_obj', 't': 0, 'src': s, 'idx': None, 'rx': rx} for s in (1, 2) for rx in (False, True)]
    ns += [{'op': 'insert_text', 't': 0, 'text': x, 'idx': i, 'rx': rx}
           for x, i in (('@namespace q "u1";', None), ('@namespace p "u2";', 1), ('@namespace r "u1";', None)) for rx in (False, True)]
    ns += [{'op': 'delete', 't': 0, 'idx': 1, 'byobj': False}, {'op': 'delete', 't': 0, 'idx': 3, 'byobj': True},
           {'op': 'sheet_csstext', 't': 0, 'k': 2, 'rx': True}]
    for n in range(1, depth + 1):
        for seq in itertools.product(ns, repeat=n):
            cases.append((4, list(seq)))
    if thorough:
        sub = [a for a in al if a['op'] in ('insert_text', 'delete', 'insert_obj', 'set_cssrules', 'set_csstext', 'new')
               and a.get('what', 'media') in ('media', 'stylerule')]
        for seq in itertools.product(sub, repeat=3):
            cases.append((1, list(seq)))
    n_exh = len(cases)
    g = ctx.rng
    nrand = 2000 if thorough else 500
    for i in range(nrand):
        ti = g.choice([0, 0, 0, 1, 4, 4, 2, 3])
        cases.append((ti, [gen_op(g) for _ in range(g.choice([15, 15, 25, 40] if thorough else [15, 15, 20]))]))
    return cases, n_exh


def compare(exp, line):
    """expected snapshot vs the model's dump line; returns None or a description"""
    objs = line.split(";") if line else []
    if len(objs) != len(exp):
        return "model has %d objects, implementation %d" % (len(objs), len(exp))
    names = ['_parentRule', '_parentStyleSheet', '_parent', '_ownerRule', 'parent (accessor)', 'parentStyleSheet (accessor)']
    for m, (e, o) in enumerate(zip(exp, objs)):
        head, _, ks = o.partition("|")
        f = [int(x) for x in head.split(",")]
        if f[0] != e[0]:
            return "object %d: kind %d vs model %d" % (m, e[0], f[0])
        for j in range(6):
            if e[1 + j] is not None and e[1 + j] != f[1 + j]:
                return "object %d (kind %d): %s is %s in the implementation, %s in the model" % (m, e[0], names[j], e[1 + j], f[1 + j])
        mk = [tuple(int(x) for x in p.split(":")) for p in ks.split()] if ks else []
        for r in range(8):
            if [c for rr, c in mk if rr == r] != [c for rr, c in e[7] if rr == r]:
                return "object %d: %s differs: implementation %s, model %s" % (m, ROLE_NAMES[r], e[7], mk)
    return None


def run(ctx):
    thorough = ctx.tier == "thorough"
    ctx.regen("links")      # attribute writes of the rule-list sites + shape of the sheet.cssText rollback -> Gen/LinkSites.v
    ctx.coq_build("props/C18.v")
    binary = ctx.ocaml_build("links")
    corpus = []
    p = ctx_path("corpus/C18.json")
    if p.exists():
        corpus = [(c[0], c[1]) for c in json.loads(p.read_text())]
    cases, n_exh = gen_cases(ctx, thorough)
    cases = corpus + cases
    res = ctx.pool_map(execute, cases, procs=6, chunksize=32)
    # property-level oracle
    seenwhat = {}
    nontrivial, opcount, maxobj, applied_total = 0, {}, 0, 0
    for case, r in zip(cases, res):
        for a in r['applied']:
            opcount[a] = opcount.get(a, 0) + 1
        applied_total += len(r['applied'])
        maxobj = max(maxobj, r['nobj'])
        if len(r['applied']) >= 1:
            nontrivial += 1
        for step, what, sig in r['viol']:
            if what not in seenwhat:
                seenwhat[what] = (case, sig)
    for what, (case, sig) in seenwhat.items():
        if ctx.match_known(what + " :: " + sig):
            ctx.violation(what, {"initial": case[0], "ops": case[1]}, sig_text=sig)
            continue
        from harness.lib import shrink_seq
        ops = shrink_seq(case[1], fails_like(case[0], what), max_rounds=40)
        ctx.violation(what, {"initial": case[0], "initial_text": INITIAL[case[0]], "ops": ops, "fails": what}, sig_text=sig)
    # correspondence with the model
    checked = 0
    if binary:
        lines = []
        for r in res:
            lines += r['lines']
        out = ctx.run_binary(binary, lines)
        k, mism = 0, []
        for case, r in zip(cases, res):
            for step, e in enumerate(r['expected']):
                d = compare(e, out[k]) if k < len(out) else "model output missing"
                k += 1
                checked += 1
                if d and len(mism) < 5:
                    mism.append({"initial": case[0], "ops": case[1][:r['dump_step'][step] + 1], "diff": d})
            if r['notes'] and any(n.startswith(("elements of", "no site")) for n in r['notes']) and len(mism) < 5:
                mism.append({"initial": case[0], "ops": case[1], "diff": r['notes']})
        if mism:
            ctx.broken("correspondence", "link attributes / element lists: css_parser vs CssV.Links.step",
                       json.dumps(mism)[:2500])
    # stored witnesses of open findings
    for f in ctx.findings:
        if f.get("status") == "open":
            wt = f["witness"]
            r = execute((wt["initial"], wt["ops"]))
            for step, what, sig in r['viol'][:1]:
                ctx.violation(what, wt, sig_text=sig)

    def search():
        t0 = time.time()
        g = ctx.rng
        while time.time() - t0 < (300 if thorough else 60):
            batch = [(g.choice([0, 1, 4]), [gen_op(g) for _ in range(20)]) for _ in range(300)]
            rr = ctx.pool_map(execute, batch, procs=6, chunksize=16)
            for case, r in zip(batch, rr):
                for step, what, sig in r['viol']:
                    if not ctx.match_known(what + " :: " + sig):
                        from harness.lib import shrink_seq
                        ops = shrink_seq(case[1], fails_like(case[0], what), max_rounds=40)
                        return {"initial": case[0], "initial_text": INITIAL[case[0]], "ops": ops, "fails": what}
        return None

    ctx.finish({
        "evaluations": len(cases),
        "operations_applied": applied_total,
        "graph_walks_compared_with_model": checked,
        "distinct_nontrivial": nontrivial,
        "rule": "histories = all sequences of length <= 2 over a %d-operation alphabet on a sheet with @media nested two "
                "deep (%d histories, exhaustive part; thorough adds length 3 over the rule-list operations), then random "
                "histories of 15-40 operations over %d operation families on sheets with every rule kind, @media nested "
                "three deep, @page with margin rules, @import with a fetcher; after every operation the whole object graph "
                "(sheet and detached objects) is walked and compared; non-trivial = histories with at least one applied "
                "operation" % (len(small_alphabet()), n_exh, len(OPS)),
        "op_histogram": opcount,
        "max_objects_in_a_history": maxobj,
        "samples": [[c[0], c[1][:3]] for c in cases[n_exh + 1:n_exh + 4]],
        "disagreements_checked": checked if binary else 0,
        "trusted_base": TRUSTED,
    }, assumptions=ASSUME, search=search)


def ctx_path(rel):
    from harness.lib import VERIF
    return VERIF / rel


def replay(ctx, path):
    rep = json.loads(open(path).read())
    bad = 0
    wits = [v["witness"] for v in rep.get("violations", [])]
    if "initial" in rep:
        wits.append(rep)
    for w in wits:
        r = execute((w["initial"], w["ops"]))
        print("replay initial=%d ops=%s" % (w["initial"], json.dumps(w["ops"])))
        if r['viol']:
            for step, what, sig in r['viol'][:3]:
                print("  after operation %d: %s (%s)" % (step, what, sig))
            bad += 1
        else:
            print("  holds")
    return 1 if bad else 0


TRUSTED = [
    "Coq 8.16.1 kernel (vm_compute only in the Examples)",
    "extraction (ExtrOcamlBasic: bool/option/list/prod to OCaml natives, nat stays unary) + ocamlfind ocamlopt, ocaml/links_driver.ml",
    "harness/props/c18.py: the graph walker kids_of (which attributes are containment), the translation of an API call's "
    "effect on containment into alloc/attach/detach/drop steps (generic: by container kind and role; detach only for "
    "deleteRule), the comparison by identity",
    "translate/links.py (regenerates the attribute writes of insertRule / _finishInsertRule / deleteRule / the two loops of "
    "both cssRules setters and the clear / rollback shape of CSSStyleSheet._setCssText; fail-closed)",
    "modelled by hand, not verified: the attribute writes of the remaining assignment sites (coq/theories/Links.v site_writes, "
    "dsite_writes) and the derivations of the accessors; tied by the comparison of every stored attribute after every operation",
    "external to the model: which insertions the hierarchy checks accept, where add() places a rule, and the shape of parsed "
    "text (they decide WHICH steps happen, the model decides what each step writes)",
]
ASSUME = [
    "Print Assumptions of every theorem of props/C18.v: Closed under the global context (see coverage.print_assumptions)",
    "an object that is still contained elsewhere is never passed to an insertion or object assignment (the model's attach is "
    "then a no-op; 'the object that contains it' would not be unique)",
    "CSSRule.parent is read as the parent RULE (it is initialised from parentRule only): None for a top-level rule",
    "not covered: ownerNode, parentStyleSheet of an imported CSSStyleSheet (never set by the library), CSSComment objects "
    "inside declaration blocks / media lists, MediaQuery (has no parent attribute), @variables",
]
