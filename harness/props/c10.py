"""C10 -- equivalent spellings (case, escapes, quoting) give the same model.

proof:          coq/props/C10.v (normalize_respell, unicodesub_hexspell, normalize_u_respell, atkeyword_lookup_normalized,
                atkeyword_respell, important_respell, quote_kind_irrelevant, url_quoting_irrelevant, url_letters_respell,
                letter_spelling_normalizes, lower_table_ascii) over CssV.Tokenizer / CssV.Respell / Gen.RespellSites
tie:            translate/tokenizer.py regenerates the regexes and tables, translate/respellsites.py the site table;
                the extracted functions (normalize, unicodesub, normalize_u, urivalue, _stringtokenvalue, stringvalue,
                at-keyword lookup, the match length of the unicodesub regex, priority) are compared with the
                implementation's functions on exhaustive-small, respelled-name and random inputs
oracle/search:  end to end on the implementation: well-formed sheets are respelled at ONE eligible token at a time
                (and at all tokens at once); the object models read from both parses must be equal
"""
import itertools
import json
import logging
import random
import re
import time

from harness.lib import cps, VERIF

# ====================================================================== generator + respeller

HEXD = "0123456789abcdefABCDEF"
WS = " \t\n\r\f"
TERMS = [" ", "\t", "\n", "\r\n", "\f", "\r"]

# kinds of eligible pieces: property name, `important`, pseudo-class/-element name, unit, function name, colour
# function name, at-rule keyword (atkw = one of the tokenizer's symbols, atkwu = any other, margin = margin box),
# `url`, hex colour digits, attribute name, @page pseudo; plus str (quote kind) and urlbody (quoted / bare).
# Attribute names are case-sensitive in XML, so only their escapes are respelled; hex colours only change case.
# Round 2: names whose EQUALITY with another occurrence matters are generated twice and only one occurrence is
# respelled: margin box, property name (cascade), media type in a list (medium), namespace prefix declared/used
# (nsprefix: case-sensitive, escapes only), variable declared/used (varname: escapes only), pseudo twice.
NAME_KINDS = ("prop", "imp", "pseudo", "unit", "func", "cfunc", "atkw", "atkwu", "url", "hex", "attr", "margin", "pagepseudo",
              "medium", "nsprefix", "varname")
CASE_OK = ("prop", "imp", "pseudo", "unit", "func", "cfunc", "atkw", "atkwu", "url", "hex", "margin", "pagepseudo", "medium")
ESC_OK = ("prop", "imp", "pseudo", "unit", "func", "cfunc", "atkw", "atkwu", "url", "attr", "margin", "pagepseudo",
          "medium", "nsprefix", "varname")
# kinds whose hex escapes are left out of the all-at-once respelling while a finding about them is open
# (C10-atkeyword-hex-escape was repaired by b051860: nothing is excluded now)
HEX_KNOWN = ()
# kinds whose literal escapes are left out of the all-at-once respelling while a finding about them is open
# (C10-nsprefix-literal-escape was repaired by 897be56: nothing is excluded now)
LIT_KNOWN = ()


def F(t):
    return ("fix", t)


# ------------------------------------------------------------------ generator of well-formed sheets
PROPS = ["color", "width", "font-size", "margin-left", "background", "x", "-moz-box", "z-index", "border-top-width"]
UNITS = ["px", "em", "ex", "pt", "cm", "deg", "s", "ms", "hz", "khz", "rem", "vh", "fr", "dpi", "x-unit"]
PSEUDOC = ["hover", "first-child", "link", "focus", "last-of-type", "target", "x-thing"]
PSEUDOE = ["before", "after", "first-line", "first-letter", "selection"]
FPSEUDO = ["nth-child", "nth-of-type", "lang", "nth-last-child"]
FUNCS = ["attr", "foo", "counter", "x-fn", "local", "format", "translate"]
CFUNCS = ["rgb", "rgba", "hsl", "hsla"]
ATTRS = ["href", "title", "lang", "x-y", "type"]
MARGINS = ["top-left", "bottom-center", "left-middle", "top-right-corner"]
IDENTS = ["red", "bold", "auto", "x", "none", "inherit"]
URLS = ["x", "a/b.png", "http://e.org/a?b=1", "a.css", "../i.gif#f", "x y", "a,b", "it's", 'say"hi', "a(b)", "a;b"]
STRS = ["a", "a b", "x;y", "it's", 'say"hi', "{", "", "url(x)", "/*c*/"]


def url_pieces(rng, u=None):
    u = rng.choice(URLS) if u is None else u
    return [("url", "url"), F("("), ("urlbody", u), F(")")]


def gen_value_term(rng, depth=0):
    r = rng.random()
    if getattr(rng, "varnames", None) and r < 0.15:
        return [("func", "var"), F("("), ("varname", rng.choice(rng.varnames)), F(")")]
    if r < 0.2:
        return [F(rng.choice(["1", "0", "-2", "1.5", "+.5", "10"])), ("unit", rng.choice(UNITS))]
    if r < 0.3:
        return [F(rng.choice(["1", "0", "50%", "-1.25"]))]
    if r < 0.4:
        return [F(rng.choice(IDENTS))]
    if r < 0.5:
        return [F("#"), ("hex", rng.choice(["fff", "abcdef", "a0b1c2", "09f", "fade00", "123"]))]
    if r < 0.6:
        return url_pieces(rng)
    if r < 0.68:
        return [("str", rng.choice(STRS))]
    if r < 0.8:
        f = rng.choice(CFUNCS)
        if f.startswith("rgb"):
            args = rng.choice(["1,2,3", "10%, 20%, 30%", "0, 128 ,255"])
        else:
            args = rng.choice(["120, 50%, 50%", "0,0%,0%"])
        if f.endswith("a"):
            args += rng.choice([",0.5", ", 1", ",.25"])
        return [("cfunc", f), F("(" + args + ")")]
    if r < 0.86 and depth < 2:
        out = [("func", "calc"), F("(")]
        out += [F("1"), ("unit", rng.choice(UNITS[:6])), F(rng.choice([" + ", " - ", " * ", " / "])), F("2")]
        if rng.random() < 0.6:
            out += [("unit", rng.choice(UNITS[:6]))]
        return out + [F(")")]
    if depth < 2:
        out = [("func", rng.choice(FUNCS)), F("(")]
        n = rng.randint(0, 2)
        for i in range(n):
            if i:
                out.append(F(rng.choice([",", ", ", " "])))
            out += gen_value_term(rng, depth + 1)
        return out + [F(")")]
    return [F("1")]


def gen_decl(rng):
    out = [("prop", rng.choice(PROPS)), F(rng.choice([":", ": ", " :"]))]
    for i in range(rng.randint(1, 3)):
        if i:
            out.append(F(rng.choice([" ", " ", ", ", "/"])))
        out += gen_value_term(rng)
    if rng.random() < 0.3:
        out += [F(rng.choice([" !", "!", " ! "])), ("imp", "important")]
    return out


def gen_decls(rng, n=None):
    out = []
    names = []
    for i in range(rng.randint(0, 4) if n is None else n):
        if i:
            out.append(F(rng.choice([";", "; ", ";\n"])))
        d = gen_decl(rng)
        if names and rng.random() < 0.4:      # the same property again: the cascade must see one name
            d[0] = ("prop", rng.choice(names))
        names.append(d[0][1])
        out += d
    if out and rng.random() < 0.5:
        out.append(F(";"))
    return out


def gen_simple(rng):
    out = []
    r = rng.random()
    if getattr(rng, "prefixes", None) and r < 0.35:
        out += [("nsprefix", rng.choice(rng.prefixes)), F("|"), F(rng.choice(["a", "*", "b"]))]
    elif r < 0.6:
        out.append(F(rng.choice(["a", "div", "*", "h1"])))
    n = rng.randint(0 if out else 1, 2)
    for _ in range(n):
        r = rng.random()
        if r < 0.2:
            out.append(F(rng.choice([".c", "#i", ".k-1"])))
        elif r < 0.45:
            out += [F("["), ("attr", rng.choice(ATTRS))]
            if rng.random() < 0.6:
                out += [F(rng.choice(["=", "~=", "|=", "^=", "$=", "*="]))]
                out += [("str", rng.choice(["v", "a b", "it's"]))] if rng.random() < 0.6 else [F("v")]
            out.append(F("]"))
        elif r < 0.7:
            ps = rng.choice(PSEUDOC)
            out += [F(":"), ("pseudo", ps)]
            if rng.random() < 0.2:
                out += [F(":"), ("pseudo", ps)]
        elif r < 0.85:
            f = rng.choice(FPSEUDO)
            arg = "en" if f == "lang" else rng.choice(["2n+1", "odd", "3", "-n+2", "even"])
            out += [F(":"), ("pseudo", f), F("(" + arg + ")")]
        else:
            out += [F(":"), ("pseudo", "not"), F("("), F(rng.choice([".c", "a", "#i", ":hover", "[x]"])), F(")")]
    if rng.random() < 0.2:
        out += [F(rng.choice(["::", ":"])), ("pseudo", rng.choice(PSEUDOE[:4]))]
    return out


def gen_selector(rng):
    out = gen_simple(rng)
    for _ in range(rng.randint(0, 2)):
        out.append(F(rng.choice([" ", ">", " > ", "+", " ~ "])))
        out += gen_simple(rng)
    return out


def gen_style(rng):
    out = gen_selector(rng)
    for _ in range(rng.randint(0, 1)):
        out.append(F(rng.choice([",", ", "])))
        out += gen_selector(rng)
    return out + [F(rng.choice(["{", " {", " { "]))] + gen_decls(rng) + [F("}")]


def gen_import(rng):
    out = [F("@"), ("atkw", "import"), F(" ")]
    if rng.random() < 0.5:
        out += url_pieces(rng, rng.choice(URLS[:5]))
    else:
        out += [("str", rng.choice(["a.css", "b c.css", "x"]))]
    if rng.random() < 0.4:
        out += [F(" ")] + gen_medialist(rng)
    return out + [F(";")]


def gen_namespace(rng):
    out = [F("@"), ("atkw", "namespace"), F(" ")]
    if rng.random() < 0.7:
        pfx = rng.choice(["p", "svg", "x-y"])
        out += [("nsprefix", pfx), F(" ")]
        rng.prefixes = rng.prefixes + [pfx]
    out += url_pieces(rng, "http://n/s") if rng.random() < 0.5 else [("str", "http://n/s")]
    return out + [F(";")]


def gen_variables(rng):
    names = rng.sample(["c", "main-color", "x"], rng.randint(1, 2))
    out = [F("@"), ("atkw", "variables"), F(" {")]
    for i, nm in enumerate(names + ([names[0]] if rng.random() < 0.4 else [])):
        out += [F("; " if i else " "), ("varname", nm), F(": " + rng.choice(["red", "1px", "#abc"]))]
    rng.varnames = rng.varnames + names
    return out + [F(" }")]


def gen_stmt(rng, top=True):
    r = rng.random()
    if r < 0.5 or not top:
        return gen_style(rng)
    if r < 0.7:
        return gen_media(rng)
    if r < 0.85:
        return gen_page(rng)
    if r < 0.93:
        return [F("@"), ("atkw", "font-face"), F(" {")] + gen_decls(rng, 2) + [F("}")]
    return [F("@"), ("atkwu", rng.choice(["x-unknown", "keyframes"])), F(" foo {"), F("a{x:1}"), F("}")]


MEDIA = ["print", "screen", "tv", "all", "handheld"]


def gen_medialist(rng):
    out = []
    ms = [rng.choice(MEDIA) for _ in range(rng.randint(1, 3))]
    if len(ms) > 1 and rng.random() < 0.5:
        ms[-1] = ms[0]                         # the same media type twice
    for i, mt in enumerate(ms):
        if i:
            out.append(F(rng.choice([",", ", "])))
        out.append(("medium", mt))
        if rng.random() < 0.2:
            out.append(F(" and (min-width: 100px)"))
    return out


def gen_media(rng, depth=0):
    out = [F("@"), ("atkw", "media"), F(" ")] + gen_medialist(rng) + [F(" {")]
    for _ in range(rng.randint(1, 2)):
        r = rng.random()
        if r < 0.2:
            out += gen_page(rng)                # @page and @media may be nested in @media
        elif r < 0.35 and depth < 1:
            out += gen_media(rng, depth + 1)
        else:
            out += gen_style(rng)
        out.append(F(" "))
    return out + [F("}")]


def gen_page(rng):
    out = [F("@"), ("atkw", "page"), F(" ")]
    if rng.random() < 0.6:
        out += [F(":"), ("pagepseudo", rng.choice(["first", "left", "right"])), F(" ")]
    out += [F("{")] + gen_decls(rng)
    if rng.random() < 0.6:
        boxes = [rng.choice(MARGINS) for _ in range(rng.randint(1, 3))]
        if len(boxes) > 1 and rng.random() < 0.6:
            boxes[-1] = boxes[0]               # the same margin box twice: one MarginRule
        for b in boxes:
            if out[-1] != F(";") and out[-1] != F("{") and out[-1] != F("}"):
                out.append(F(";"))
            out += [F(" @"), ("margin", b), F(" {")] + gen_decls(rng, rng.randint(1, 2)) + [F("}")]
    return out + [F("}")]


def gen_stmts(rng):
    rng.prefixes, rng.varnames = [], []
    sts = []
    if rng.random() < 0.3:
        sts += [gen_import(rng) for _ in range(rng.randint(1, 2))]
    if rng.random() < 0.3:
        sts.append(gen_namespace(rng))
    if rng.random() < 0.2:
        sts.append(gen_variables(rng))
    sts += [gen_stmt(rng) for _ in range(rng.randint(0 if sts else 1, 3))]
    return [([F(rng.choice(["\n", " ", ""]))] if i else []) + st for i, st in enumerate(sts)]


def gen_sheet(rng):
    return [p for st in gen_stmts(rng) for p in st]


# ------------------------------------------------------------------ respelling
def is_hex(c):
    return c in HEXD


def needs_term(ndigits, nxt):
    """the escape \\h{ndigits} is followed by character nxt ('' = end of text)"""
    if nxt == "":
        return False
    if nxt in WS:
        return True
    return ndigits < 6 and is_hex(nxt)


def hex_escape(rng, ch, nxt, force=None):
    """one legal hex spelling of ch, given the character that follows in the respelled text"""
    h = "%x" % ord(ch)
    nd = rng.randint(len(h), 6)
    h = "0" * (nd - len(h)) + h
    h = "".join(c.upper() if rng.random() < 0.4 else c for c in h)
    if needs_term(nd, nxt) or rng.random() < 0.5:
        t = rng.choice(TERMS)
        if t == "\r" and nxt == "\n":
            t = " "
    else:
        t = ""
    return "\\" + h + t


def respell_name(rng, name, nxt, mode, kind, nohex=False):
    """spell `name` differently; nxt = first character of the text that follows the name in the sheet.
    built right-to-left so that each escape knows its successor in the *respelled* text"""
    out = ""
    follow = nxt
    n_changed = 0
    for i in range(len(name) - 1, -1, -1):
        ch = name[i]
        choices = ["plain"]
        if mode in ("case", "mix") and kind in CASE_OK and ch.isalpha() and ch.isascii():
            choices += ["case", "case"]
        if mode in ("lit", "mix") and kind in ESC_OK and not is_hex(ch) and ch not in "\n\r\f" and \
                not (nohex and kind in LIT_KNOWN):
            choices += ["lit", "lit"]
        if mode in ("hex", "mix") and kind in ESC_OK and not (nohex and kind in HEX_KNOWN):
            choices += ["hex", "hex"]
        c = rng.choice(choices)
        if c == "case":
            sp = ch.swapcase()
        elif c == "lit":
            sp = "\\" + (ch.swapcase() if (mode == "mix" and kind in CASE_OK and rng.random() < 0.3) else ch)
        elif c == "hex":
            sp = hex_escape(rng, ch.swapcase() if (mode == "mix" and kind in CASE_OK and ch.isalpha() and rng.random() < 0.3) else ch, follow)
        else:
            sp = ch
        n_changed += sp != ch
        out = sp + out
        follow = sp[0]
    return out, n_changed


def bare_ok(u):
    return u != "" and not any(c in u for c in " \t\n\r\f()'\",;\\")


def quote(rng, v, q):
    return q + v.replace("\\", "\\\\").replace(q, "\\" + q).replace("\n", "\\a ") + q


def render_piece(kind, text, choice=None):
    """default spelling"""
    if kind == "str":
        return '"' + text.replace("\\", "\\\\").replace('"', '\\"') + '"'
    if kind == "urlbody":
        return text if bare_ok(text) else '"' + text.replace("\\", "\\\\").replace('"', '\\"') + '"'
    return text


def respell_piece(rng, kind, text, nxt, mode, nohex=False):
    if kind == "str":
        q = "'" if mode != "dq" else '"'
        return q + text.replace("\\", "\\\\").replace(q, "\\" + q) + q, 1
    if kind == "urlbody":
        forms = ['"', "'"] + (["bare"] if bare_ok(text) else [])
        forms = [f for f in forms]
        f = rng.choice(forms)
        pad1, pad2 = rng.choice(["", "", " ", "\t"]), rng.choice(["", "", " ", "\n"])
        if f == "bare":
            sp = pad1 + text + pad2
        else:
            sp = pad1 + f + text.replace("\\", "\\\\").replace(f, "\\" + f) + f + pad2
        return sp, int(sp != render_piece(kind, text))
    return respell_name(rng, text, nxt, mode, kind, nohex)


def render(pieces):
    return "".join(render_piece(k, t) for k, t in pieces)


def eligible(pieces):
    return [i for i, (k, t) in enumerate(pieces) if k != "fix"]


def respell_at(rng, pieces, idxs, mode, nohex=False):
    """respell the pieces with the given indexes; returns the text (or None when nothing changed)"""
    out = [None] * len(pieces)
    changed = 0
    nxt = ""
    for i in range(len(pieces) - 1, -1, -1):
        k, t = pieces[i]
        if i in idxs:
            sp, ch = respell_piece(rng, k, t, nxt, mode, nohex)
            changed += ch
        else:
            sp = render_piece(k, t)
        out[i] = sp
        if sp:
            nxt = sp[0]
    return "".join(out), changed


# ====================================================================== model extractor (implementation side)
_lit = re.compile(r'\\([^0-9a-fA-F\n\r\f])')

def unlit(x):
    return _lit.sub(lambda m: m.group(1), x)

def value_model(pv):
    out = []
    for v in pv:
        cn = type(v).__name__
        if cn == "ColorValue":
            out.append(["COLOR", v.red, v.green, v.blue, round(v.alpha * 1000)])
        elif cn == "DimensionValue":
            out.append(["DIM", v.type, repr(v.value), v.dimension, v.cssText])
        elif cn == "URIValue":
            out.append(["URI", v.uri])
        elif cn == "CSSVariable":     # the serializer writes var( itself; name and fallback are the content
            out.append(["VAR", unlit(v.name).lower(), value_model([v.fallback])[0] if v.fallback is not None else None, v.value])
        elif cn in ("CSSFunction", "CSSCalc", "MSValue") and hasattr(v, "seq"):
            out.append([cn, v.type, seq_model(v.seq)])
        else:
            out.append([cn, v.type, v.cssText])
    return out

def seq_model(seq):
    out = []
    for i in seq:
        v = i.value
        if hasattr(v, "cssText") and type(v).__name__ in ("ColorValue", "DimensionValue", "URIValue", "CSSFunction", "CSSCalc", "CSSVariable", "MSValue", "Value"):
            out.append(value_model([v])[0])
        elif hasattr(v, "cssText"):
            out.append([str(i.type), v.cssText])
        else:
            out.append([str(i.type), v if isinstance(v, (str, int, float, type(None))) else repr(v)])
    return out

def decls(style):
    """every declaration in order, plus what the cascade makes of them (names that are the same property must be
    recognised as the same whatever their spelling)"""
    return {"all": [[p.name, p.priority, value_model(p.propertyValue)] for p in style.getProperties(all=True)],
            "effective": [[n, style.getPropertyPriority(n), value_model(style.getProperty(n).propertyValue)]
                          for n in style.keys()]}


def media_model(media):
    """media queries are case-insensitive and the library keeps their literal text: compared harness-normalised"""
    return [unlit(it.value.mediaText).lower() for it in media if hasattr(it.value, "mediaText")]

def sel_model(sel):
    items = []
    for i in sel.seq:
        v = i.value
        if isinstance(v, tuple):
            v = [v[0], unlit(v[1])]
        elif i.type in ("pseudo-class", "pseudo-element", "negation-start"):
            pass                      # the implementation normalises these itself: compared verbatim
        elif isinstance(v, str):
            v = unlit(v)
        items.append([i.type, v])
    return [items, list(sel.specificity)]

def rule_model(r):
    t = r.type
    d = {"type": t}
    if t == r.STYLE_RULE:
        d["sel"] = [sel_model(s) for s in r.selectorList]
        d["decls"] = decls(r.style)
    elif t == r.MEDIA_RULE:
        d["media"] = media_model(r.media)
        d["rules"] = [rule_model(x) for x in r.cssRules]
    elif t == r.IMPORT_RULE:
        d["href"] = r.href
        d["media"] = media_model(r.media)
        d["name"] = r.name
    elif t == r.PAGE_RULE:
        d["sel"] = unlit(r.selectorText).lower()     # selector text normalised by the harness (literal text is kept by design)
        d["spec"] = list(r.specificity)
        d["decls"] = decls(r.style)
        d["margins"] = [[m.margin, decls(m.style)] for m in r.cssRules]
        d["boxes"] = [[k, decls(r[k])] for k in r.keys()]       # what asking the page rule for a margin box gives
    elif t == r.FONT_FACE_RULE:
        d["decls"] = decls(r.style)
    elif t == r.NAMESPACE_RULE:
        d["ns"] = [r.prefix, r.namespaceURI]
    elif t == r.CHARSET_RULE:
        d["enc"] = r.encoding
    elif t == r.VARIABLES_RULE:
        d["vars"] = [[k, r.variables[k]] for k in r.variables.keys()]
    elif t == r.UNKNOWN_RULE:
        d["kw"] = r.atkeyword
        d["text"] = r.cssText
    else:
        d["text"] = r.cssText
    return d

class _Count(logging.Handler):
    def __init__(self):
        logging.Handler.__init__(self)
        self.n = 0

    def emit(self, record):
        self.n += 1


_COUNT = _Count()
_LOGGER = logging.getLogger("C10-count")
_LOGGER.handlers = [_COUNT]
_LOGGER.propagate = False
_LOGGER.setLevel(logging.ERROR)


def model(text):
    """the object model of the parsed sheet + the number of errors the parse logged (each of them is an exception
    under CSSParser(raiseExceptions=True))"""
    import css_parser
    css_parser.log.setLog(_LOGGER)
    css_parser.log.setLevel(logging.ERROR)
    css_parser.log.raiseExceptions = False
    _COUNT.n = 0
    try:
        sh = css_parser.CSSParser(validate=False, fetcher=lambda u: (None, "")).parseString(text)
        return [rule_model(r) for r in sh.cssRules] + [{"errors_logged": _COUNT.n}]
    except Exception as e:
        return ["EXC", type(e).__name__, str(e)[:200]]


# ====================================================================== function-level correspondence
NAMES = ["color", "font-size", "nth-child", "important", "@media", "@import", "@font-face", "@namespace", "@page",
         "@variables", "@charset", "@x-y", "url(", "rgb(", "px", "em", "hover", "-moz-x", "a", "f", "g", "é", "K"]
FN_ALPHA = ["a", "G", "f", "0", "9", "\\", " ", "\n", "\r", "\f", "\t", "-", "(", "@", "É", "l", '"', "'"]


def impl_fn(case):
    """the implementation's function for one command of ocaml/respell_driver.ml"""
    cmd, t = case
    from css_parser import helper
    from css_parser.tokenize2 import Tokenizer
    from css_parser.util import Base
    import sys
    try:
        if cmd == "N":
            return helper.normalize(t)
        if cmd == "P":
            return Base._normalize(t)
        if cmd in ("U", "X", "M"):
            def repl(m):
                num = int(m.group(0)[1:], 16)
                return chr(num) if num <= sys.maxunicode else m.group(0)
            if cmd == "M":
                pat = Tokenizer.unicodesub.__self__
                m = pat.match(t)
                return ("NUM", m.end()) if m else ("NUM", None)
            u = Tokenizer.unicodesub(repl, t)
            if cmd == "U":
                return u
            a, b = helper.normalize(u), Base._normalizeatkeyword(t)   # the tokenizer's and the consumers' at-keyword key
            return a if a == b else ("DIFF", a, b)
        if cmd == "V":
            a = helper.urivalue(t)
            b = Base()._uritokenvalue(("URI", t, 1, 1))
            return a if a == b else ("DIFF", a, b)
        if cmd == "S":
            return Base()._stringtokenvalue(("STRING", t, 1, 1))
        if cmd == "H":
            return helper.stringvalue(t)
        if cmd == "K":
            toks = list(Tokenizer().tokenize(t))
            ok = len(toks) == 1 and toks[0][1] == t and (toks[0][0] == "ATKEYWORD" or toks[0][0].endswith("_SYM"))
            return toks[0][0] if ok else ("SKIP",)
    except IndexError:
        return ("CRASH",)
    except Exception as e:  # noqa
        return ("EXC", type(e).__name__, str(e)[:100])


def model_out(cmd, line):
    if line == "CRASH":
        return ("CRASH",)
    if cmd == "M":
        return ("NUM", None if line == "NONE" else int(line))
    return "".join(chr(int(v)) for v in line.split(",") if v)


def gen_fn_cases(ctx, thorough):
    rng = ctx.rng
    cases = []
    maxlen = 4 if thorough else 3
    small = FN_ALPHA if thorough else FN_ALPHA[:14]
    for n in range(0, maxlen + 1):
        for tup in itertools.product(small[:12] if n == maxlen else small, repeat=n):
            t = "".join(tup)
            for cmd in ("N", "U", "M"):
                cases.append((cmd, t))
    n_exh = len(cases)
    # respelled names (legal and, by mutation, illegal respellings) through every function
    for _ in range(6000 if thorough else 1500):
        name = rng.choice(NAMES)
        kind = "atkw" if name.startswith("@") else "prop"
        at = "@" if name.startswith("@") else ""
        sp, _ch = respell_name(rng, name[len(at):], rng.choice(["", "(", " ", "a", "x", ":"]), rng.choice(["case", "lit", "hex", "mix"]), kind)
        sp = at + sp
        if rng.random() < 0.25:   # mutate: drop / insert a character (leaves the legal set)
            i = rng.randrange(len(sp) + 1)
            sp = sp[:i] + rng.choice(["", "\\", "0", "a", " ", "\n", "G"]) + sp[i + rng.choice([0, 1]):]
        for cmd in ("N", "U", "X", "M", "P"):
            cases.append((cmd, sp))
        if name.startswith("@"):
            cases.append(("K", sp))
    # URL / string token values
    for _ in range(4000 if thorough else 1000):
        u = rng.choice(URLS + STRS)
        if rng.random() < 0.3:
            u = "".join(rng.choice(FN_ALPHA + ["x", "/", ")", ",", ";"]) for _ in range(rng.randint(0, 6)))
        pre, _c = respell_name(rng, "url", "(", rng.choice(["case", "lit", "mix"]), "url")
        q = rng.choice(['"', "'", ""])
        body = q + (u.replace(q, "\\" + q) if q else u) + (q if rng.random() < 0.95 else "")
        pad1, pad2 = rng.choice(["", " ", "\t ", "\xa0"]), rng.choice(["", " ", "\n"])
        cases.append(("V", pre + "(" + pad1 + body + pad2 + ")"))
        cases.append(("S", body))
        cases.append(("H", body))
    return cases, n_exh


# ====================================================================== end-to-end oracle on the implementation
def e2e_case(args):
    """one generated sheet: returns (base text, number of pairs checked, failures, skipped, pairs by kind)"""
    seed, thorough = args
    rng = random.Random(seed)
    stmts = gen_stmts(rng)
    pcs = [p for st in stmts for p in st]
    owner = [k for k, st in enumerate(stmts) for _ in st]
    base = render(pcs)
    m0 = model(base)
    fails, pairs, skipped = [], 0, 0
    if m0 and m0[0] == "EXC":
        return base, 0, [{"kind": "base", "mode": "-", "hex": 0, "base": base, "respelled": base, "piece": "",
                          "what": "exception %s" % (m0[1:],)}], 0, {}
    kinds = {}
    el = eligible(pcs)
    for i in el:
        k = pcs[i][0]
        modes = ("q",) if k in ("str", "urlbody") else ("case", "lit", "hex", "mix")
        for mode in modes:
            for _rep in range(3 if thorough else 1):
                st = rng.getstate()
                t, ch = respell_at(rng, pcs, {i}, mode)
                if not ch:
                    continue
                pairs += 1
                kinds[k] = kinds.get(k, 0) + 1
                m1 = model(t)
                if m1 != m0:
                    # shrink to the statement that holds the respelled token, plus the @namespace / @variables
                    # statements it may refer to (together a well-formed sheet)
                    keep = [k for k, stm in enumerate(stmts)
                            if k == owner[i] or any(p in (("atkw", "namespace"), ("atkw", "variables")) for p in stm)]
                    sub, off = [], None
                    for j, (p, o) in enumerate(zip(pcs, owner)):
                        if o in keep:
                            if j == i:
                                off = len(sub)
                            sub.append(p)
                    r2 = random.Random()
                    r2.setstate(st)
                    t2, _c2 = respell_at(r2, sub, {off}, mode)
                    b2 = render(sub)
                    if model(t2) != model(b2):
                        base_w, t_w = b2, t2
                    else:
                        base_w, t_w = base, t
                    fails.append({"kind": k, "mode": mode, "base": base_w, "respelled": t_w, "piece": pcs[i][1],
                                  "hex": int(bool(re.search(r"\\[0-9a-fA-F]", respell_piece_text(t_w, base_w)))),
                                  "lit": int(bool(re.search(r"\\[^0-9a-fA-F]", respell_piece_text(t_w, base_w))))})
    if el:
        t, ch = respell_at(rng, pcs, set(el), "mix", nohex=True)   # hex escapes of the open finding's kinds excluded
        if ch:
            pairs += 1
            kinds["ALL"] = kinds.get("ALL", 0) + 1
            if model(t) != m0:
                fails.append({"kind": "ALL", "mode": "mix", "base": base, "respelled": t, "piece": "", "hex": 0})
        skipped = sum(1 for i in el if pcs[i][0] in HEX_KNOWN + LIT_KNOWN)
    return base, pairs, fails, skipped, kinds


def respell_piece_text(t, base):
    """the respelled piece = what differs between base and t (common prefix/suffix removed)"""
    a = 0
    while a < min(len(t), len(base)) and t[a] == base[a]:
        a += 1
    b = 0
    while b < min(len(t), len(base)) - a and t[-1 - b] == base[-1 - b]:
        b += 1
    return t[max(0, a - 1):len(t) - b + 2]


def sig_of(f):
    return "kind=%s mode=%s hex=%d lit=%d base=%s respelled=%s" % (f["kind"], f["mode"], f.get("hex", 0), f.get("lit", 0),
                                                             json.dumps(f["base"]), json.dumps(f["respelled"]))


def pair_fails(w):
    m0, m1 = model(w["base"]), model(w["respelled"])
    if m0 != m1:
        return "the respelled sheet gives a different object model"
    return None


def shrink_pair(f):
    """keep the single respelled token, drop the rest of the sheet: try `a{<decl>}`-style reductions by statements"""
    return f   # pairs are already single-token respellings of small sheets


# ====================================================================== the check
def run(ctx):
    thorough = ctx.tier == "thorough"
    ctx.regen("tokenizer", "respellsites")
    ctx.coq_build("props/C10.v")
    binary = ctx.ocaml_build("respell")

    corpus_p = VERIF / "corpus" / "C10.json"
    corpus = json.loads(corpus_p.read_text()) if corpus_p.exists() else {"fn": [], "pairs": []}

    # ---- function-level correspondence
    cases, n_exh = gen_fn_cases(ctx, thorough)
    cases = [tuple(c) for c in corpus.get("fn", [])] + cases
    impl = ctx.pool_map(impl_fn, cases, procs=6, chunksize=512)
    mism = []
    skipped_k = 0
    if binary:
        out = ctx.run_binary(binary, ["%s %s" % (c, cps(t)) for c, t in cases], shards=6)
        for (cmd, t), i, o in zip(cases, impl, out):
            if i == ("SKIP",):
                skipped_k += 1
                continue
            mo = model_out(cmd, o)
            if isinstance(i, list):
                i = tuple(i)
            if mo != i:
                mism.append((cmd, t, repr(i), repr(mo)))
    if mism:
        ctx.broken("correspondence", "CssV.Respell/Tokenizer functions vs helper.normalize, Tokenizer.unicodesub, "
                   "urivalue/_uritokenvalue, _stringtokenvalue, stringvalue, at-keyword lookup",
                   "%d of %d cases differ; first: %s" % (len(mism), len(cases), json.dumps(mism[:4])))

    # ---- end-to-end: respelled sheets
    for w in corpus.get("pairs", []):
        d = pair_fails(w)
        if d:
            ctx.violation(d, w, sig_text=sig_of(dict(w, hex=w.get("hex", 0), mode=w.get("mode", "-"), kind=w.get("kind", "corpus"))))
    nsheets = 3500 if thorough else 200
    seeds = [(ctx.rng.getrandbits(48), thorough) for _ in range(nsheets)]
    res = ctx.pool_map(e2e_case, seeds, procs=6, chunksize=8)
    pairs = sum(r[1] for r in res)
    kinds = {}
    for r in res:
        for k, v in r[4].items():
            kinds[k] = kinds.get(k, 0) + v
    known_skipped = 0
    seen_fail_kinds = set()
    for base, n, fails, skipped, _k in res:
        for f in fails:
            sig = sig_of(f)
            if ctx.match_known("the respelled sheet gives a different object model :: " + sig):
                known_skipped += 1
                continue
            key = (f["kind"], f["mode"])
            if key in seen_fail_kinds and len(ctx.violations) >= 5:
                continue
            seen_fail_kinds.add(key)
            ctx.violation("the respelled sheet gives a different object model", f, sig_text=sig)

    # ---- open findings: re-run the stored witnesses
    for f in ctx.findings:
        if f.get("status") == "open":
            for w in f["witnesses"] if "witnesses" in f else [f["witness"]]:
                d = pair_fails(w)
                if d:
                    ctx.violation(d, w, sig_text=sig_of(w))

    def search():
        t0 = time.time()
        n = 0
        while time.time() - t0 < (280 if thorough else 55):
            batch = [(ctx.rng.getrandbits(48), False) for _ in range(120)]
            for base, np, fails, sk, _k in ctx.pool_map(e2e_case, batch, procs=6, chunksize=4):
                n += np
                for f in fails:
                    if not ctx.match_known("the respelled sheet gives a different object model :: " + sig_of(f)):
                        f["fails"] = "the respelled sheet gives a different object model"
                        return f
        return None

    ctx.finish({
        "evaluations": len(cases) + pairs,
        "function_cases": len(cases),
        "sheet_pairs": pairs,
        "sheets": nsheets,
        "pairs_by_kind": kinds,
        "distinct_nontrivial": len({r[0] for r in res if r[1] > 0}),
        "rule": "function level: all strings of length <= %d over a %d-symbol alphabet through normalize / unicodesub / the "
                "unicodesub regex (%d cases), then legal and mutated respellings of %d names through normalize, unicodesub, "
                "normalize-after-unicodesub, priority, at-keyword lookup, and quoted/bare/padded URL and string token values; "
                "end to end: random well-formed sheets (style rules with attribute/pseudo/negation selectors, @import, "
                "@namespace, @media, @page with margin boxes, @font-face, unknown at-rules), each eligible token respelled "
                "alone in four modes (case / literal escapes / hex escapes with every terminator form / mixed) and all "
                "tokens at once; non-trivial = distinct sheets with at least one respelled pair" % (
                    4 if thorough else 3, len(FN_ALPHA), n_exh, len(NAMES)),
        "samples": [list(c) for c in cases[n_exh + 3:n_exh + 7]] + [r[0] for r in res[:3]],
        "disagreements_checked": (len(cases) - skipped_k) if binary else 0,
        "known_finding_cases_skipped": known_skipped,
        "excluded": "@charset is not respelled: tokenize2.py matches the literal text '@charset ' (CSS 2.1 4.4 requires the "
                    "exact bytes); hex escapes of unknown / margin-box at-keywords are generated, matched against the open "
                    "finding and counted in known_finding_cases_skipped; the all-at-once respelling leaves them out",
        "trusted_base": TRUSTED,
    }, assumptions=ASSUME, search=search)


def replay(ctx, path):
    rep = json.loads(open(path).read())
    bad = 0
    for v in rep.get("violations", []):
        w = v["witness"]
        if "base" not in w:
            continue
        d = pair_fails(w)
        print("replay base=%r respelled=%r -> %s" % (w["base"], w["respelled"], d or "holds"))
        if d:
            print("   model(base)      =", json.dumps(model(w["base"]))[:600])
            print("   model(respelled) =", json.dumps(model(w["respelled"]))[:600])
        bad += bool(d)
    return 1 if bad else 0


TRUSTED = [
    "Coq 8.16.1 kernel and VM (vm_compute for the finite checks: 788 544 spellings of url( through the URI regex, "
    "generated-table facts); no native_compute",
    "translate/tokenizer.py, translate/regexlib.py (CPython's re._parser parses the patterns); translate/respellsites.py "
    "(ast walker: its table of token-value sources, normalisers and understood expression shapes is reviewed by hand; the "
    "29 exemptions of coq/theories/RespellSites.v are reviewed by hand)",
    "extraction (ExtrOcamlBasic only) + ocamlfind ocamlopt, ocaml/respell_driver.ml",
    "harness/props/c10.py: sheet generator, respeller (its notion of a legal hex-escape terminator is the relation "
    "HexRespelling of Respell.v, re-implemented in Python), model extractor (selector names of type/class/id/attribute "
    "items and the @page selector are compared after removing literal escapes: the library keeps their literal text)",
    "CPython 3.12 re / str.lower / str.strip / str.replace as the semantics being modelled",
    "checked by all_sites_normalised on the regenerated table: every comparison / lookup / store of a name-like token value "
    "in 18 modules is normalised; NOT proved: that the handlers' control flow between those sites is spelling-independent "
    "(validated end to end only)",
]
ASSUME = [
    "Print Assumptions for every theorem of props/C10.v: see coverage.print_assumptions (all closed)",
    "respell_same_model (whole-parser statement) is not proved as one theorem; proved: the value-level theorems + the checked "
    "site table (all_sites_normalised); the composition through the handlers' control flow is tested end to end",
    "ASCII letters only (non-ASCII case mapping is outside the property)",
]
