"""C15 -- selectors are bound to namespace URIs, not prefixes.

proof:          coq/props/C15.v over the model coq/theories/Namespaces.v (+ NamespacesFacts.v)
tie:            correspondence: the extracted model (ocaml/namespaces_driver.ml) and the implementation are run
                on the same start sheets x operation histories; after the parse and after every operation the
                outcome class, the rule list (incl. the items of every @namespace rule and the (uri, name) pairs of
                every selector), dict(sheet.namespaces), the spelling of every selector and the re-parsed sheet
                are compared as canonical strings
oracle/search:  the property's clauses evaluated on the implementation alone (spec resolver written here,
                independent of the model): pairs at parse time, frame of pairs, @namespace text keeps the URI,
                view = effective rules, used URI stays declared, serialised sheet re-parses to the same pairs
"""
import itertools
import json
import re
import time

from harness.lib import VERIF

# ----------------------------------------------------------------------------------------------- case language
# stmt:  ("N", prefix, uri) | ("S", [item...]) | ("M", [[item...], ...]) | ("H",) | ("C",)
# item:  ("s", kind, form, name) kind in t u a n; form in "-" (none) "e" (|x) "*" or "p:<prefix>"   |  ("o",)
# op:    ("set",p,u) ("del",p) ("addo",p,u) ("inso",p,u,i) ("addt",p,u) ("inst",p,u,i) ("delr",i)


def enc(s):
    return ",".join(str(ord(c)) for c in s) if s else "-"


def enc_item(it):
    if it[0] == "o":
        return "o"
    f = it[2]
    if f.startswith("p:"):
        f = "p:" + enc(f[2:])
    return "s %s %s %s" % (it[1], f, enc(it[3]))


def enc_case(start, ops):
    out = []
    for st in start:
        if st[0] == "N":
            out.append("N %s %s" % (enc(st[1]), enc(st[2])))
        elif st[0] == "S":
            out.append("S %d %s" % (len(st[1]), " ".join(enc_item(i) for i in st[1])))
        elif st[0] == "M":
            out.append("M %d %s" % (len(st[1]), " ".join("%d %s" % (len(r), " ".join(enc_item(i) for i in r))
                                                         for r in st[1])))
        else:
            out.append(st[0])
    out.append("|")
    for o in ops:
        if o[0] in ("set", "addo", "addt"):
            out.append("%s %s %s" % (o[0], enc(o[1]), enc(o[2])))
        elif o[0] == "del":
            out.append("del %s" % enc(o[1]))
        elif o[0] in ("inso", "inst"):
            out.append("%s %s %s %d" % (o[0], enc(o[1]), enc(o[2]), o[3]))
        else:
            out.append("delr %d" % o[1])
    return " ".join(out)


def form_text(f):
    return {"-": "", "e": "|", "*": "*|"}.get(f, f[2:] + "|")


def item_text(it):
    if it[0] == "o":
        return ".k"
    _, k, f, n = it
    t = form_text(f) + n
    return {"a": "[%s]" % t, "n": ":not(%s)" % t}.get(k, t)


def style_text(items):
    return ", ".join(item_text(i) for i in items) + " {left: 0}"


def start_text(start):
    out = []
    for st in start:
        if st[0] == "N":
            out.append('@namespace %s"%s";' % (st[1] + " " if st[1] else "", st[2]))
        elif st[0] == "S":
            out.append(style_text(st[1]))
        elif st[0] == "M":
            out.append("@media all {" + " ".join(style_text(r) for r in st[1]) + "}")
        elif st[0] == "H":
            out.append('@charset "utf-8";')
        else:
            out.append("/*c*/")
    return "\n".join(out)


# ----------------------------------------------------------------------------------------------- implementation side
def _uri_out(u):
    if u is None:
        return "None"
    if u == -1:
        return "ANY"
    return "'%s'" % u


_KIND = {"type-selector": "t", "universal": "u", "attribute-selector": "a", "negation-type-selector": "n"}


def _sel_items(selectorlist):
    out = []
    for sel in selectorlist:
        for it in sel.seq:
            if isinstance(it.value, tuple):
                out.append("%s:%s:%s" % (_KIND.get(it.type, "?" + it.type), _uri_out(it.value[0]), it.value[1]))
            elif it.type.endswith("-selector"):
                out.append("A:%s" % it.value)
    return out


def _style_out(r):
    return "S(" + ",".join(_sel_items(r.selectorList)) + ")"


def sheet_out(sheet):
    out = []
    for r in sheet.cssRules:
        if r.type == r.NAMESPACE_RULE:
            its = []
            for i in r.seq:
                if i.type == "prefix":
                    its.append("P=%s" % i.value)
                elif i.type == "namespaceURI":
                    its.append("U=%s" % i.value)
                else:
                    its.append("C")
            out.append("N(%s;%s;%s)" % (r.prefix, r.namespaceURI, ",".join(its)))
        elif r.type == r.STYLE_RULE:
            out.append(_style_out(r))
        elif r.type == r.MEDIA_RULE:
            out.append("M(" + "".join(_style_out(x) for x in r.cssRules if x.type == x.STYLE_RULE) + ")")
        elif r.type == r.CHARSET_RULE:
            out.append("H")
        elif r.type == r.COMMENT:
            out.append("C")
        else:
            out.append("?%s" % r.type)
    return " ".join(out)


def _forms(sheet):
    out = []
    for r in sheet.cssRules:
        rs = [r] if r.type == r.STYLE_RULE else \
            ([x for x in r.cssRules if x.type == x.STYLE_RULE] if r.type == r.MEDIA_RULE else [])
        for x in rs:
            out.append("[" + ",".join(s.selectorText for s in x.selectorList if s.selectorText != ".k") + "]")
    return "".join(out)


def _obs(sheet):
    """everything the oracles need, read from the implementation only"""
    import css_parser
    rules = []
    for r in sheet.cssRules:
        if r.type == r.NAMESPACE_RULE:
            rules.append((r.prefix, r.namespaceURI, r.cssText))
    pairs = []
    for r in sheet.cssRules:
        rs = [r] if r.type == r.STYLE_RULE else \
            ([x for x in r.cssRules if x.type == x.STYLE_RULE] if r.type == r.MEDIA_RULE else [])
        for x in rs:
            pairs += [p for p in _sel_items(x.selectorList) if not p.startswith("A:")]
    text = sheet.cssText
    if isinstance(text, bytes):
        text = text.decode("utf-8")
    re_sheet = css_parser.parseString(text)
    re_pairs = []
    for r in re_sheet.cssRules:
        rs = [r] if r.type == r.STYLE_RULE else \
            ([x for x in r.cssRules if x.type == x.STYLE_RULE] if r.type == r.MEDIA_RULE else [])
        for x in rs:
            re_pairs += [p for p in _sel_items(x.selectorList) if not p.startswith("A:")]
    return {"rules": rules, "view": list(sheet.namespaces.items()), "pairs": pairs, "re_pairs": re_pairs,
            "others": [r.type for r in sheet.cssRules if r.type != r.NAMESPACE_RULE],
            "text": text, "re_state": sheet_out(re_sheet)}


def _state(oc, sheet):
    o = _obs(sheet)
    line = "%s # %s # %s # %s # %s" % (oc, sheet_out(sheet), ",".join("%s=%s" % kv for kv in o["view"]),
                                       _forms(sheet), o["re_state"])
    del o["re_state"], o["text"]      # only needed for the line; keeps the result lists small
    return line, o


def apply_op(sheet, o):
    from css_parser.css import CSSNamespaceRule
    k = o[0]
    if k == "set":
        sheet.namespaces[o[1]] = o[2]
    elif k == "del":
        del sheet.namespaces[o[1]]
    elif k == "addo":
        sheet.add(CSSNamespaceRule(prefix=o[1], namespaceURI=o[2]))
    elif k == "inso":
        sheet.insertRule(CSSNamespaceRule(prefix=o[1], namespaceURI=o[2]), o[3])
    elif k == "addt":
        sheet.add('@namespace %s"%s";' % (o[1] + " " if o[1] else "", o[2]))
    elif k == "inst":
        sheet.insertRule('@namespace %s"%s";' % (o[1] + " " if o[1] else "", o[2]), o[3])
    elif k == "delr":
        if o[1] < len(sheet.cssRules) and sheet.cssRules[o[1]].type == sheet.cssRules[o[1]].NAMESPACE_RULE:
            sheet.deleteRule(o[1])
        else:
            return "skip"
    return "ok"


def impl_run(case):
    """-> (list of canonical state lines, list of observation dicts) ; first entry = after the parse"""
    import logging
    import css_parser
    css_parser.log.setLevel(logging.FATAL)
    start, ops = case
    try:
        css_parser.log.raiseExceptions = True
        sheet = css_parser.parseString(start_text(start))
        lines, obs = [], []
        l, o = _state("ok", sheet)
        lines.append(l)
        obs.append(o)
        for op in ops:
            try:
                oc = apply_op(sheet, op)
            except Exception as e:  # noqa
                oc = type(e).__name__
            l, o = _state(oc, sheet)
            o["outcome"] = oc
            lines.append(l)
            obs.append(o)
        return lines, obs
    except Exception as e:  # noqa
        return ["EXC %s %s" % (type(e).__name__, str(e)[:200])], []
    finally:
        css_parser.log.raiseExceptions = True


# ----------------------------------------------------------------------------------------------- the property, executable
def spec_pairs(start):
    """pairs the property demands after parsing `start` (CSS namespaces: a later declaration of a prefix replaces
    the earlier one; all declarations precede the selectors; unprefixed type/universal selectors take the default
    namespace, attributes never; a rule with an undeclared prefix is rejected as a whole)"""
    decl, seen_body, out = {}, False, []
    for st in start:
        if st[0] == "N" and not seen_body:
            decl[st[1]] = st[2]
        elif st[0] in ("S", "M"):
            seen_body = True
            for items in ([st[1]] if st[0] == "S" else st[1]):
                got, ok = [], True
                for it in items:
                    if it[0] == "o":
                        continue
                    _, k, f, n = it
                    if k == "a" and f in ("-", "e"):
                        continue
                    if f == "*":
                        u = "ANY"
                    elif f == "e":
                        u = "''"
                    elif f == "-":
                        u = "'%s'" % decl[""] if "" in decl else "None"
                    elif f[2:] in decl:
                        u = "'%s'" % decl[f[2:]]
                    else:
                        ok = False
                        break
                    got.append("%s:%s:%s" % (k, u, n))
                if ok:
                    out += got
    return out


def features(o):
    """features of a state that name the known failure families (computed from the implementation's own view/pairs)"""
    f = []
    view = dict(o["view"])
    default = view.get("")
    byuri = {}
    for p, u in o["view"]:
        byuri.setdefault(u, []).append(p)
    for p in o["pairs"]:
        k, u, n = p.split(":", 2)
        if u == "None" and default:
            f.append("unbound-with-default")
        if k == "a" and u.startswith("'") and byuri.get(u[1:-1]) == [""]:
            f.append("attr-uri-default-only")
    return sorted(set(f))


def explained(o):
    """the re-parsed pairs that the two spelling gaps alone would produce: an unbound pair or a URI without any
    prefix is printed '|x' (-> ''), an attribute whose URI has only the default prefix (or none) is printed bare"""
    view = dict(o["view"])
    default = view.get("")
    byuri = {}
    for p, u in o["view"]:
        byuri.setdefault(u, []).append(p)
    out = []
    for pr in o["pairs"]:
        k, u, n = pr.split(":", 2)
        if u == "None" and default:
            u = "''"
        elif u.startswith("'") and u != "''":
            ps = byuri.get(u[1:-1])
            if k == "a" and (ps == [""] or not ps):
                continue
            if not ps:
                u = "''"
        out.append("%s:%s:%s" % (k, u, n))
    return out


def effective_ok(o):
    """sheet.namespaces against the @namespace rules: (i) every entry p->u is what the LAST rule declaring p says,
    (ii) every URI declared by such a last rule is a value of the view, (iii) one prefix per URI"""
    last = {}
    for p, u, _ in o["rules"]:
        last[p] = u
    view = o["view"]
    for p, u in view:
        if last.get(p) != u:
            return "entry %r->%r but the last @namespace rule for that prefix declares %r" % (p, u, last.get(p))
    vals = [u for _, u in view]
    for p, u in last.items():
        if u not in vals:
            return "URI %r declared by the effective rule for %r is missing from the view" % (u, p)
    if len(set(vals)) != len(vals):
        return "two prefixes for one URI in the view"
    return None


def oracle(case, obs):
    """yields (what, step index, feature list) for every clause that fails on the implementation"""
    start, ops = case
    if not obs:
        yield ("parsing the start sheet raised", 0, [])
        return
    want = spec_pairs(start)
    if obs[0]["pairs"] != want:
        yield ("pairs after parsing differ from prefix resolution (want %s got %s)" % (want, obs[0]["pairs"]), 0, [])
    redeclared = False
    for i, o in enumerate(obs):
        feats = features(o)
        if i > 0:
            op = ops[i - 1]
            before = dict(obs[i - 1]["view"])
            if op[0] in ("addo", "inso") and op[1] in before and before[op[1]] != op[2] and \
                    o["outcome"] == "NoModificationAllowedErr":
                redeclared = True     # the open finding: _cleanNamespaces refused half-way, rule left inserted
            if o["others"] != obs[i - 1]["others"]:
                yield ("a namespace operation added or removed a rule that is not an @namespace rule", i, feats)
            if op[0] == "del" and o["outcome"] == "ok":
                b, a = [r[:2] for r in obs[i - 1]["rules"]], [r[:2] for r in o["rules"]]
                gone = [r for r in b if b.count(r) > a.count(r)]
                if len(a) != len(b) - 1 or not gone or gone[0][0] != op[1]:
                    yield ("del sheet.namespaces[p] succeeded without removing an @namespace rule of that prefix", i,
                           feats)
            if o["pairs"] != obs[i - 1]["pairs"]:
                yield ("a namespace operation changed the (uri, name) pairs of a selector", i, feats)
            used = set(p.split(":", 2)[1][1:-1] for p in obs[i - 1]["pairs"] if p.split(":", 2)[1].startswith("'"))
            decl_before = set(u for _, u, _ in obs[i - 1]["rules"])
            decl_after = set(u for _, u, _ in o["rules"])
            gone = (used & decl_before) - decl_after
            if gone:
                yield ("the last @namespace rule of a URI still used by a selector was deleted (%s)" % sorted(gone),
                       i, feats)
            if o["outcome"] not in ("ok", "skip", "IndexSizeErr", "HierarchyRequestErr", "NoModificationAllowedErr",
                                    "NamespaceErr", "SyntaxErr"):
                yield ("operation raised %s" % o["outcome"], i, feats)
        if redeclared:
            feats = feats + ["after-redeclare-raised-halfway"]
        for p, u, text in o["rules"]:
            m = re.fullmatch(r'@namespace (?:/\*c\*/ )?(?:([A-Za-z0-9_-]+) )?"([^"]*)";', text)
            if not m or (m.group(1) or "") != p or m.group(2) != u:
                yield ("@namespace rule (%r, %r) serialises as %r" % (p, u, text), i, feats)
        e = effective_ok(o)
        if e:
            yield ("sheet.namespaces differs from the effective @namespace rules: " + e, i, feats)
        if o["re_pairs"] != o["pairs"]:
            if explained(o) != o["re_pairs"]:
                feats = feats + ["unexplained"]
            yield ("re-parsed pairs differ (stored %s, re-parsed %s)" % (o["pairs"], o["re_pairs"]), i, feats)


def _short(what):
    return re.split(r"[:(]", what)[0].strip()


def report(ctx, case, obs, counters):
    n = 0
    for what, i, feats in oracle(case, obs):
        n += 1
        w = {"start": case[0], "ops": [list(o) for o in case[1][:i]], "css": start_text(case[0]), "fails_at_step": i}
        short = _short(what)
        sig = "features=%s" % ",".join(feats)
        if ctx.violation(short, w, sig_text=sig, detail=what):
            pass
        else:
            counters["known"] = counters.get("known", 0) + 1
    return n


# ----------------------------------------------------------------------------------------------- generators
P, Q = "p", "q"
U1, U2, U3 = "u1", "u2", "u3"
SEL_ALL = [("s", "t", "p:p", "a"), ("s", "t", "e", "b"), ("s", "t", "*", "c"), ("s", "t", "-", "e"),
           ("s", "u", "p:p", "*"), ("s", "u", "-", "*"), ("s", "a", "p:p", "a"), ("s", "a", "-", "d"), ("o",)]


def sels_for(decls):
    """selector sets: every declared non-empty prefix in element/universal/attribute/negation position + the
    prefix-free forms"""
    pref = sorted(set(p for p, _ in decls if p))
    a = [("s", "t", "-", "e"), ("s", "t", "e", "b"), ("s", "t", "*", "c")]
    b = []
    for p in pref:
        a.append(("s", "t", "p:" + p, "a"))
        b += [("s", "a", "p:" + p, "a"), ("s", "u", "p:" + p, "*"), ("s", "n", "p:" + p, "x")]
    b += [("s", "u", "-", "*"), ("s", "a", "-", "d"), ("s", "a", "e", "f"), ("s", "a", "*", "g"), ("o",)]
    return a, b


def start_sheets(thorough):
    decl_lists = [[]]
    pool = [("", U1), (P, U1), (P, U2), (Q, U1), (Q, U2), ("", U2)]
    for d in pool:
        decl_lists.append([d])
    for d1, d2 in itertools.product(pool, repeat=2):
        decl_lists.append([d1, d2])
    three = [[(P, U1), (Q, U2), ("", U3)], [(P, U1), (Q, U1), (P, U2)], [("", U1), (P, U1), (Q, U2)],
             [(P, U1), (P, U2), (Q, U2)], [(P, U1), (Q, U2), (P, U2)], [("", U1), ("", U2), (P, U1)]]
    decl_lists += three
    out = []
    for k, decls in enumerate(decl_lists):
        a, b = sels_for(decls)
        ns = [("N", p, u) for p, u in decls]
        variants = [ns + [("S", a)], ns + [("S", a), ("S", b)]]
        if k % 3 == 0:
            variants.append([("C",)] + ns + [("S", a), ("M", [b, [("s", "t", "p:r", "z")]])])
        if k % 2 == 1:   # prefixed selectors ONLY inside @media (in-use protection must look into the block)
            variants.append(ns + [("S", [("s", "t", "e", "b")]), ("M", [a, b])])
        # every item kind as the ONLY user of a declared prefix (type, universal, attribute, negation), once at top
        # level and once inside @media; the kind rotates with the declaration list, all prefixes of the list
        pref = sorted(set(p for p, _ in decls if p))
        if pref:
            kind = "tuan"[k % 4]
            only = [("s", kind, "p:" + p, "*" if kind == "u" else "x") for p in pref]
            variants.append(ns + [("S", [("s", "t", "e", "b")]), ("S", only)])
            kind2 = "tuan"[(k // 4) % 4]
            only2 = [("s", kind2, "p:" + p, "*" if kind2 == "u" else "y") for p in pref]
            variants.append([("C",)] + ns + [("M", [only2])])
        if k % 5 == 0:
            variants.append([("H",)] + ns + [("S", b)])
        if k % 7 == 0:   # undeclared prefix: the rule must be rejected; declaration after a rule set: ignored
            variants.append(ns + [("S", a + [("s", "t", "p:zz", "a")]), ("S", b), ("N", "late", "u9")])
        if k % 4 == 0:
            variants.append(ns + [("S", [("s", "t", "-", "e")])])
        out += variants
    return out


def op_alphabet(small):
    ops = [("set", "", U1), ("set", "", U2), ("set", P, U1), ("set", P, U2), ("set", Q, U1), ("set", Q, U2),
           ("set", "r", U3), ("del", ""), ("del", P), ("del", Q), ("del", "zz"),
           ("addo", P, U2), ("addo", Q, U1), ("addo", "", U1), ("addo", "r", U2),
           ("inso", P, U1, 0), ("inso", "r", U1, 1), ("inso", Q, U2, 2),
           ("addt", "r", U1), ("addt", P, U2), ("addt", "", U2), ("inst", "r", U2, 1), ("inst", "t", U3, 0),
           ("delr", 0), ("delr", 1), ("delr", 2)]
    if not small:
        ops += [("set", "r", ""), ("inso", "r", U3, 7), ("inst", "", U1, 2), ("addo", P, U1), ("set", "", U3),
                ("delr", 3), ("inso", "", U2, 1)]
    return ops


def gen_cases(ctx, thorough):
    starts = start_sheets(thorough)
    small = op_alphabet(True)
    full = op_alphabet(False)
    cases = []
    for s in starts:
        cases.append((s, ()))
        for o in full:
            cases.append((s, (o,)))
    n1 = len(cases)
    sub = starts if thorough else [s for i, s in enumerate(starts) if i % 6 == 0]
    for s in sub:
        for o1, o2 in itertools.product(small, repeat=2):
            cases.append((s, (o1, o2)))
    if thorough:
        for s in [s for i, s in enumerate(starts) if i % 9 == 0]:
            for t in itertools.product(small[:20], repeat=3):
                cases.append((s, t))
    n_exh = len(cases)
    rng = ctx.rng
    for _ in range(20000 if thorough else 1500):
        s = rng.choice(starts)
        k = rng.randint(3, 7)
        ops = []
        for _ in range(k):
            kind = rng.choice(["set", "set", "del", "addo", "inso", "addt", "inst", "delr"])
            p = rng.choice(["", P, Q, "r", "t"])
            u = rng.choice([U1, U2, U3])
            i = rng.randint(0, 5)
            ops.append({"set": ("set", p, u), "del": ("del", p), "addo": ("addo", p, u), "inso": ("inso", p, u, i),
                        "addt": ("addt", p, u), "inst": ("inst", p, u, i), "delr": ("delr", i)}[kind])
        cases.append((s, tuple(ops)))
    return cases, n1, n_exh


def _norm(case):
    return ([tuple(x) if x[0] != "S" and x[0] != "M" else
             ("S", [tuple(i) for i in x[1]]) if x[0] == "S" else ("M", [[tuple(i) for i in r] for r in x[1]])
             for x in case[0]], tuple(tuple(o) for o in case[1]))


# ----------------------------------------------------------------------------------------------- run
def run(ctx):
    thorough = ctx.tier == "thorough"
    ctx.coq_build("props/C15.v")
    binary = ctx.ocaml_build("namespaces")
    cp = VERIF / "corpus" / "C15.json"
    corpus = [_norm((c["start"], c["ops"])) for c in json.loads(cp.read_text())] if cp.exists() else []
    cases, n1, n_exh = gen_cases(ctx, thorough)
    cases = corpus + cases
    res = ctx.pool_map(impl_run, cases, procs=6, chunksize=64)
    counters = {}
    mism, states, nontrivial, hist = [], 0, set(), {}
    model = ctx.run_binary(binary, [enc_case(*c) for c in cases], shards=6) if binary else None
    for idx, (case, (lines, obs)) in enumerate(zip(cases, res)):
        states += len(lines)
        for o in obs[1:]:
            hist[o["outcome"]] = hist.get(o["outcome"], 0) + 1
        if any(a["rules"] != b["rules"] for a, b in zip(obs, obs[1:])):
            nontrivial.add(idx)
        if model is not None:
            m = model[idx].split("\t")
            if m != lines:
                k = next((j for j, (x, y) in enumerate(itertools.zip_longest(m, lines)) if x != y), 0)
                mism.append({"css": start_text(case[0]), "ops": [list(o) for o in case[1]], "step": k,
                             "model": m[k] if k < len(m) else None, "impl": lines[k] if k < len(lines) else None})
        report(ctx, case, obs, counters)
    if mism:
        ctx.broken("correspondence", "css_parser namespaces vs CssV.Namespaces (parse/step/view/ser/reparse)",
                   "%d of %d histories differ; first: %s" % (len(mism), len(cases), json.dumps(mism[:2])))
    # stored witnesses of open findings are re-run on every run
    for f in ctx.findings:
        if f.get("status") == "open":
            c = _norm((f["witness"]["start"], f["witness"]["ops"]))
            lines, obs = impl_run(c)
            report(ctx, c, obs, {})

    def search():
        t0 = time.time()
        rng = ctx.rng
        starts = start_sheets(True)
        alpha = op_alphabet(False)
        while time.time() - t0 < (300 if thorough else 55):
            batch = [(rng.choice(starts), tuple(rng.choice(alpha) for _ in range(rng.randint(0, 4))))
                     for _ in range(1500)]
            for case, (lines, obs) in zip(batch, ctx.pool_map(impl_run, batch, procs=6, chunksize=64)):
                for what, i, feats in oracle(case, obs):
                    short = _short(what)
                    if not ctx.match_known(short + " :: features=%s" % ",".join(feats)):
                        ops = list(case[1][:i])
                        # histories are shrunk by dropping operations while the same clause still fails
                        changed = True
                        while changed:
                            changed = False
                            for j in range(len(ops)):
                                cand = (case[0], tuple(ops[:j] + ops[j + 1:]))
                                _, ob2 = impl_run(cand)
                                if any(_short(w2) == short and
                                       not ctx.match_known(short + " :: features=%s" % ",".join(f2))
                                       for w2, _, f2 in oracle(cand, ob2)):
                                    ops = list(cand[1])
                                    changed = True
                                    break
                        return {"start": case[0], "ops": [list(o) for o in ops], "css": start_text(case[0]),
                                "fails": what}
        return None

    sample = [{"css": start_text(c[0]), "ops": [list(o) for o in c[1]]}
              for c in (cases[len(corpus) + 3], cases[len(corpus) + n1 + 77], cases[-1], cases[-7])]
    ctx.finish({
        "evaluations": states,
        "histories": len(cases),
        "distinct_nontrivial": len(nontrivial),
        "rule": "start sheets: %d sheets built from every declaration list of length <= 2 over {'',p,q} x {u1,u2} "
                "plus 6 lists of length 3 (default, prefixed, duplicate URIs, re-declared prefixes), selectors in "
                "every prefix form (p|e |e *|e e p|* * [p|a] [a] [|a] [*|a] :not(p|x)), variants with a comment / "
                "@charset in front, an @media block, an undeclared prefix, a late @namespace; histories: all of "
                "length <= 1 over a %d-operation alphabet, all of length 2 over %d operations on %s start sheets "
                "(%d exhaustive histories), then random histories of length 3-7; evaluations = states compared "
                "(after the parse and after every operation); non-trivial = histories in which at least one "
                "operation changed the list of @namespace rules" % (
                    len(start_sheets(thorough)), len(op_alphabet(False)), len(op_alphabet(True)),
                    "all" if thorough else "every 6th", n_exh),
        "outcome_histogram": hist,
        "oracle_failures_matching_known_findings": counters.get("known", 0),
        "samples": sample,
        "disagreements_checked": states if binary else 0,
        "trusted_base": TRUSTED,
    }, assumptions=ASSUME, search=search)


def replay(ctx, path):
    rep = json.loads(open(path).read())
    bad = 0
    for v in rep.get("violations", []):
        w = v["witness"]
        case = _norm((w["start"], w["ops"]))
        lines, obs = impl_run(case)
        fails = [what for what, i, feats in oracle(case, obs)]
        print("replay %s\n  ops %s\n  final state: %s\n  -> %s" % (json.dumps(w.get("css")), w["ops"],
                                                                 lines[-1] if lines else None,
                                                                 "; ".join(fails) or "holds"))
        bad += bool(fails)
    return 1 if bad else 0


TRUSTED = [
    "Coq 8.16.1 kernel and VM (vm_compute for the refutation witnesses and Examples); no native_compute",
    "extraction (ExtrOcamlBasic only) + ocamlfind ocamlopt, ocaml/namespaces_driver.ml (input decoding, printing)",
    "correspondence harness harness/props/c15.py (generators, canonical state strings, the Python readers of "
    "rule.seq / selector.seq / sheet.namespaces)",
    "modelled by hand, not verified: util._Namespaces, CSSStyleSheet._cleanNamespaces/_getUsedURIs/deleteRule/"
    "insertRule(@namespace branch)/namespacerule handler, CSSNamespaceRule constructor/_setPrefix/_setNamespaceURI, "
    "Selector.append's prefix resolution, do_css_Selector's URI->prefix choice, do_CSSNamespaceRule "
    "(coq/theories/Namespaces.v)",
    "hypothesised: the tokenizer/selector state machine delivers the prefix forms as written (covered by C08/C16), "
    "prefixes are identifiers, URIs are non-empty strings other than '*', style rules are not empty "
    "(an empty rule is not serialised), comments inside @namespace rules are not generated",
]
ASSUME = [
    "Print Assumptions for every theorem of props/C15.v: see coverage.print_assumptions",
    "selectors detached from a sheet (_SimpleNamespaces) are outside the model",
    "direct assignment to CSSNamespaceRule.prefix of a rule inside a sheet is not an operation of the histories "
    "(the property quantifies over sheet.namespaces assignments/deletions and @namespace insertions)",
    "view_matches_rules / reparse_same_pairs are proved for clean, spellable sheets; that every history keeps the "
    "sheet clean and spellable is REFUTED (three open findings); see design_notes/C15.md",
]
