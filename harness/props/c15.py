"""C15 -- selectors are bound to namespace URIs, not prefixes.

proof:          coq/props/C15.v over the model coq/theories/Namespaces.v (+ NamespacesFacts.v)
tie:            correspondence: the extracted model (ocaml/namespaces_driver.ml) and the implementation are run
                on the same start sheets x operation histories; after the parse and after every operation the
                outcome class, the rule list (incl. the items of every @namespace rule and the (uri, name) pairs of
                every selector), dict(sheet.namespaces), the spelling of every selector and the re-parsed sheet
                are compared as canonical strings
oracle/search:  the property's clauses evaluated on the implementation alone (spec resolver written here,
                independent of the model): pairs at parse time, frame of pairs, @namespace text keeps the URI,
                view = effective rules, used URI stays declared, serialised sheet re-parses to the same pairs
"""
import itertools
import json
import re
import time

from harness.lib import VERIF

# ----------------------------------------------------------------------------------------------- case language
# stmt:  ("N", prefix, uri) | ("S", [item...]) | ("M", [[item...], ...]) | ("H",) | ("C",)
# item:  ("s", kind, form, name) kind in t u a n; form in "-" (none) "e" (|x) "*" or "p:<prefix>"   |  ("o",)
# op:    ("set",p,u) ("del",p) ("addo",p,u) ("inso",p,u,i) ("addt",p,u) ("inst",p,u,i) ("delr",i)


def enc(s):
    return ",".join(str(ord(c)) for c in s) if s else "-"


def enc_item(it):
    if it[0] == "o":
        return "o"
    f = it[2]
    if f.startswith("p:"):
        f = "p:" + enc(f[2:])
    return "s %s %s %s" % (it[1], f, enc(it[3]))


def enc_addr(a):
    return ":".join(str(x) for x in a)


def enc_items(items):
    return "%d %s" % (len(items), " ".join(enc_item(i) for i in items))


def enc_op(o):
    k = o[0]
    if k in ("set", "addo", "addt"):
        return "%s %s %s" % (k, enc(o[1]), enc(o[2]))
    if k == "del":
        return "del %s" % enc(o[1])
    if k in ("inso", "inst"):
        return "%s %s %s %d" % (k, enc(o[1]), enc(o[2]), o[3])
    if k == "delr":
        return "delr %d" % o[1]
    # selector-side operations (two spellings of the implementation map to one model operation)
    if k in ("ssel", "xsel"):
        return "rep %s %d %s" % (enc_addr(o[1]), o[2], enc_item(o[3]))
    if k in ("lsel", "rsel"):
        return "ltx %s %s" % (enc_addr(o[1]), enc_items(o[2]))
    if k == "asel":
        return "app %s %s" % (enc_addr(o[1]), enc_item(o[2]))
    if k == "dsel":
        return "dli %s %d" % (enc_addr(o[1]), o[2])
    if k == "istyle":
        return "ins %s %s" % ("-" if o[2] is None else o[2], enc_items(o[1]))
    if k == "minner":
        return "inn %d %s %s" % (o[1], "-" if o[3] is None else o[3], enc_items(o[2]))
    if k == "dstyle":
        return "dst %s" % enc_addr(o[1])
    raise ValueError(o)


def enc_case(start, ops):
    out = []
    for st in start:
        if st[0] == "N":
            out.append("N %s %s" % (enc(st[1]), enc(st[2])))
        elif st[0] == "S":
            out.append("S " + enc_items(st[1]))
        elif st[0] == "M":
            out.append("M %d %s" % (len(st[1]), " ".join(enc_items(r) for r in st[1])))
        else:
            out.append(st[0])
    out.append("|")
    out += [enc_op(o) for o in ops]
    return " ".join(out)


def form_text(f):
    return {"-": "", "e": "|", "*": "*|"}.get(f, f[2:] + "|")


def item_text(it):
    if it[0] == "o":
        return ".k"
    _, k, f, n = it
    t = form_text(f) + n
    return {"a": "[%s]" % t, "n": ":not(%s)" % t}.get(k, t)


# declaration blocks: a rule set with declarations, an empty one, a comment-only one, one whose only declaration is
# unknown to the profiles, one whose only declaration is dropped by the parser
BODIES = {"decl": "{left: 0}", "empty": "{}", "comment": "{/*c*/}", "unknown": "{foo: 1}", "dropped": "{left: }"}


def style_text(items, body="decl"):
    return ", ".join(item_text(i) for i in items) + " " + BODIES[body]


def bodies_of(st):
    """body kinds of a statement: ("S", items[, body]) / ("M", rules[, bodies])"""
    if st[0] == "S":
        return [st[2] if len(st) > 2 else "decl"]
    if st[0] == "M":
        return list(st[2]) if len(st) > 2 else ["decl"] * len(st[1])
    return []


def plain_bodies(start):
    return all(b == "decl" for st in start for b in bodies_of(st))


def start_text(start):
    out = []
    for st in start:
        if st[0] == "N":
            out.append('@namespace %s"%s";' % (st[1] + " " if st[1] else "", st[2]))
        elif st[0] == "S":
            out.append(style_text(st[1], bodies_of(st)[0]))
        elif st[0] == "M":
            out.append("@media all {" + " ".join(style_text(r, b) for r, b in zip(st[1], bodies_of(st))) + "}")
        elif st[0] == "H":
            out.append('@charset "utf-8";')
        else:
            out.append("/*c*/")
    return "\n".join(out)


# ----------------------------------------------------------------------------------------------- implementation side
def _uri_out(u):
    if u is None:
        return "None"
    if u == -1:
        return "ANY"
    return "'%s'" % u


_KIND = {"type-selector": "t", "universal": "u", "attribute-selector": "a", "negation-type-selector": "n"}


def _sel_items(selectorlist):
    out = []
    for sel in selectorlist:
        for it in sel.seq:
            if isinstance(it.value, tuple):
                out.append("%s:%s:%s" % (_KIND.get(it.type, "?" + it.type), _uri_out(it.value[0]), it.value[1]))
            elif it.type.endswith("-selector"):
                out.append("A:%s" % it.value)
    return out


def _style_out(r):
    return "S(" + ",".join(_sel_items(r.selectorList)) + ")"


def sheet_out(sheet):
    out = []
    for r in sheet.cssRules:
        if r.type == r.NAMESPACE_RULE:
            its = []
            for i in r.seq:
                if i.type == "prefix":
                    its.append("P=%s" % i.value)
                elif i.type == "namespaceURI":
                    its.append("U=%s" % i.value)
                else:
                    its.append("C")
            out.append("N(%s;%s;%s)" % (r.prefix, r.namespaceURI, ",".join(its)))
        elif r.type == r.STYLE_RULE:
            out.append(_style_out(r))
        elif r.type == r.MEDIA_RULE:
            out.append("M(" + "".join(_style_out(x) for x in r.cssRules if x.type == x.STYLE_RULE) + ")")
        elif r.type == r.CHARSET_RULE:
            out.append("H")
        elif r.type == r.COMMENT:
            out.append("C")
        else:
            out.append("?%s" % r.type)
    return " ".join(out)


def _style_rules(sheet, written_only=False):
    """rule sets in document order (top level and inside @media); written_only: those the serializer writes under
    the preferences in force, as the rule's own cssText says"""
    out = []
    for r in sheet.cssRules:
        if r.type == r.STYLE_RULE:
            rs = [r]
        elif r.type == r.MEDIA_RULE and (not written_only or r.cssText):
            rs = [x for x in r.cssRules if x.type == x.STYLE_RULE]
        else:
            rs = []
        out += [x for x in rs if not written_only or x.cssText]
    return out


def _forms(sheet):
    return "".join("[" + ",".join(s.selectorText for s in x.selectorList if s.selectorText != ".k") + "]"
                   for x in _style_rules(sheet))


def _pairs(rules):
    out = []
    for x in rules:
        out += [p for p in _sel_items(x.selectorList) if not p.startswith("A:")]
    return out


# preference rows that decide which @namespace rules / rule sets are written
PREF_ROWS = [("default", {})] + \
    [("used=%d,empty=%d,comments=%d" % (u, e, c),
      {"keepUsedNamespaceRulesOnly": bool(u), "keepEmptyRules": bool(e), "keepComments": bool(c)})
     for u in (0, 1) for e in (0, 1) for c in (1, 0) if (u, e, c) != (0, 0, 1)] + [("minified", "useMinified")]


def _roundtrip(sheet, row):
    """(pairs of the rule sets that are written, pairs after re-parsing the text, text, re-parsed sheet)
    under one preference row; the preferences are put back"""
    import css_parser
    prefs = css_parser.ser.prefs
    try:
        if row == "useMinified":
            prefs.useMinified()
        else:
            for k, v in row.items():
                setattr(prefs, k, v)
        written = _pairs(_style_rules(sheet, written_only=True))
        text = sheet.cssText
        if isinstance(text, bytes):
            text = text.decode("utf-8")
    finally:
        prefs.useDefaults()
    re_sheet = css_parser.parseString(text)
    return written, _pairs(_style_rules(re_sheet)), text, re_sheet


def _obs(sheet, rows=()):
    """everything the oracles need, read from the implementation only"""
    rules = []
    for r in sheet.cssRules:
        if r.type == r.NAMESPACE_RULE:
            rules.append((r.prefix, r.namespaceURI, r.cssText))
    written, re_pairs, text, re_sheet = _roundtrip(sheet, {})
    o = {"rules": rules, "view": list(sheet.namespaces.items()), "pairs": _pairs(_style_rules(sheet)),
         "written": written, "re_pairs": re_pairs,
         "others": [r.type for r in sheet.cssRules if r.type != r.NAMESPACE_RULE],
         "re_state": sheet_out(re_sheet), "rows": []}
    for name, row in rows:
        w, rp, _, _ = _roundtrip(sheet, row)
        o["rows"].append((name, w, rp))
    return o


def _state(oc, sheet, rows=()):
    o = _obs(sheet, rows)
    line = "%s # %s # %s # %s # %s" % (oc, sheet_out(sheet), ",".join("%s=%s" % kv for kv in o["view"]),
                                       _forms(sheet), o["re_state"])
    del o["re_state"]      # only needed for the line; keeps the result lists small
    return line, o


def _style_at(sheet, a):
    """the rule set at address ("t", r) / ("m", r, j) or None"""
    rules = sheet.cssRules
    if a[1] >= len(rules):
        return None
    r = rules[a[1]]
    if a[0] == "t":
        return r if r.type == r.STYLE_RULE else None
    if r.type != r.MEDIA_RULE or a[2] >= len(r.cssRules):
        return None
    return r.cssRules[a[2]]


def apply_op(sheet, o):
    from css_parser.css import CSSNamespaceRule
    k = o[0]
    if k == "set":
        sheet.namespaces[o[1]] = o[2]
    elif k == "del":
        del sheet.namespaces[o[1]]
    elif k == "addo":
        sheet.add(CSSNamespaceRule(prefix=o[1], namespaceURI=o[2]))
    elif k == "inso":
        sheet.insertRule(CSSNamespaceRule(prefix=o[1], namespaceURI=o[2]), o[3])
    elif k == "addt":
        sheet.add('@namespace %s"%s";' % (o[1] + " " if o[1] else "", o[2]))
    elif k == "inst":
        sheet.insertRule('@namespace %s"%s";' % (o[1] + " " if o[1] else "", o[2]), o[3])
    elif k == "delr":
        if o[1] < len(sheet.cssRules) and sheet.cssRules[o[1]].type == sheet.cssRules[o[1]].NAMESPACE_RULE:
            sheet.deleteRule(o[1])
        else:
            return "skip"
    elif k in ("ssel", "xsel", "lsel", "rsel", "asel", "dsel"):
        rule = _style_at(sheet, o[1])
        if rule is None:
            return "skip"
        sl = rule.selectorList
        if k in ("ssel", "xsel", "dsel") and o[2] >= len(sl):
            return "skip"
        if k == "ssel":
            sl[o[2]].selectorText = item_text(o[3])          # the Selector object stays in the list
        elif k == "xsel":
            sl[o[2]] = item_text(o[3])
        elif k == "lsel":
            sl.selectorText = ", ".join(item_text(i) for i in o[2])
        elif k == "rsel":
            rule.selectorText = ", ".join(item_text(i) for i in o[2])
        elif k == "asel":
            sl.appendSelector(item_text(o[2]))
        elif len(sl) < 2:
            return "skip"
        else:
            del sl[o[2]]
    elif k == "istyle":
        if o[2] is None:
            sheet.add(style_text(o[1]))
        else:
            sheet.insertRule(style_text(o[1]), o[2])
    elif k == "minner":
        if o[1] >= len(sheet.cssRules) or sheet.cssRules[o[1]].type != sheet.cssRules[o[1]].MEDIA_RULE:
            return "skip"
        m = sheet.cssRules[o[1]]
        if o[3] is None:
            m.add(style_text(o[2]))
        else:
            m.insertRule(style_text(o[2]), o[3])
    elif k == "dstyle":
        if _style_at(sheet, o[1]) is None:
            return "skip"
        if o[1][0] == "t":
            sheet.deleteRule(o[1][1])
        else:
            sheet.cssRules[o[1][1]].deleteRule(o[1][2])
    else:
        raise ValueError(o)
    return "ok"


def impl_run(case):
    """-> (list of canonical state lines, list of observation dicts) ; first entry = after the parse.
    case = (start, ops[, rowsel]): rowsel "all" = every preference row on every state, an int = that row on the
    last state"""
    import logging
    import css_parser
    css_parser.log.setLevel(logging.FATAL)
    start, ops = case[0], case[1]
    rowsel = case[2] if len(case) > 2 else None
    all_rows = PREF_ROWS[1:] if rowsel == "all" else ()
    try:
        css_parser.log.raiseExceptions = True
        css_parser.ser.prefs.useDefaults()
        sheet = css_parser.parseString(start_text(start))
        lines, obs = [], []
        l, o = _state("ok", sheet, all_rows or
                      ([PREF_ROWS[1 + rowsel % (len(PREF_ROWS) - 1)]] if isinstance(rowsel, int) and not ops else ()))
        lines.append(l)
        obs.append(o)
        for n, op in enumerate(ops):
            try:
                oc = apply_op(sheet, op)
            except Exception as e:  # noqa
                oc = type(e).__name__
            last = n == len(ops) - 1
            l, o = _state(oc, sheet, all_rows or
                          ([PREF_ROWS[1 + rowsel % (len(PREF_ROWS) - 1)]] if isinstance(rowsel, int) and last else ()))
            o["outcome"] = oc
            lines.append(l)
            obs.append(o)
        return lines, obs
    except Exception as e:  # noqa
        return ["EXC %s %s" % (type(e).__name__, str(e)[:200])], []
    finally:
        css_parser.log.raiseExceptions = True
        css_parser.ser.prefs.useDefaults()


# ----------------------------------------------------------------------------------------------- the property, executable
def resolve_items(decl, items):
    """pairs the property demands for selectors written as `items` when `decl` maps prefixes to URIs ('' = default
    namespace): unprefixed type/universal selectors take the default namespace, attributes never; None when a
    prefix is undeclared (the selector must be rejected)"""
    got = []
    for it in items:
        if it[0] == "o":
            continue
        _, k, f, n = it
        if k == "a" and f in ("-", "e"):
            continue
        if f == "*":
            u = "ANY"
        elif f == "e":
            u = "''"
        elif f == "-":
            u = "'%s'" % decl[""] if "" in decl else "None"
        elif f[2:] in decl:
            u = "'%s'" % decl[f[2:]]
        else:
            return None
        got.append("%s:%s:%s" % (k, u, n))
    return got


def spec_pairs(start):
    """pairs the property demands after parsing `start` (CSS namespaces: a later declaration of a prefix replaces
    the earlier one; all declarations precede the selectors; a rule with an undeclared prefix is rejected as a
    whole)"""
    decl, seen_body, out = {}, False, []
    for st in start:
        if st[0] == "N" and not seen_body:
            decl[st[1]] = st[2]
        elif st[0] in ("S", "M"):
            seen_body = True
            for items in ([st[1]] if st[0] == "S" else st[1]):
                out += resolve_items(decl, items) or []
    return out


def features(o):
    """features of a state that name the known failure families (computed from the implementation's own view/pairs)"""
    f = []
    view = dict(o["view"])
    default = view.get("")
    byuri = {}
    for p, u in o["view"]:
        byuri.setdefault(u, []).append(p)
    for p in o["pairs"]:
        k, u, n = p.split(":", 2)
        if u == "None" and default:
            f.append("unbound-with-default")
        if k == "a" and u.startswith("'") and byuri.get(u[1:-1]) == [""]:
            f.append("attr-uri-default-only")
    return sorted(set(f))


def explained(o, pairs):
    """the re-parsed pairs that the two spelling gaps alone would produce: an unbound pair or a URI without any
    prefix is printed '|x' (-> ''), an attribute whose URI has only the default prefix (or none) is printed bare"""
    view = dict(o["view"])
    default = view.get("")
    byuri = {}
    for p, u in o["view"]:
        byuri.setdefault(u, []).append(p)
    out = []
    for pr in pairs:
        k, u, n = pr.split(":", 2)
        if u == "None" and default:
            u = "''"
        elif u.startswith("'") and u != "''":
            ps = byuri.get(u[1:-1])
            if k == "a" and (ps == [""] or not ps):
                continue
            if not ps:
                u = "''"
        out.append("%s:%s:%s" % (k, u, n))
    return out


def effective_ok(o):
    """sheet.namespaces against the @namespace rules: (i) every entry p->u is what the LAST rule declaring p says,
    (ii) every URI declared by such a last rule is a value of the view, (iii) one prefix per URI"""
    last = {}
    for p, u, _ in o["rules"]:
        last[p] = u
    view = o["view"]
    for p, u in view:
        if last.get(p) != u:
            return "entry %r->%r but the last @namespace rule for that prefix declares %r" % (p, u, last.get(p))
    vals = [u for _, u in view]
    for p, u in last.items():
        if u not in vals:
            return "URI %r declared by the effective rule for %r is missing from the view" % (u, p)
    if len(set(vals)) != len(vals):
        return "two prefixes for one URI in the view"
    return None


NS_OPS = ("set", "del", "addo", "inso", "addt", "inst", "delr")


def op_items(op):
    """the selectors a selector-side operation writes"""
    k = op[0]
    if k in ("ssel", "xsel"):
        return [op[3]]
    if k in ("lsel", "rsel"):
        return list(op[2])
    if k == "asel":
        return [op[2]]
    if k == "istyle":
        return list(op[1])
    if k == "minner":
        return list(op[2])
    return []


def oracle(case, obs):
    """yields (what, step index, feature list) for every clause that fails on the implementation"""
    start, ops = case[0], case[1]
    if not obs:
        yield ("parsing the start sheet raised", 0, [])
        return
    want = spec_pairs(start)
    if obs[0]["pairs"] != want:
        yield ("pairs after parsing differ from prefix resolution (want %s got %s)" % (want, obs[0]["pairs"]), 0, [])
    for i, o in enumerate(obs):
        feats = features(o)
        if i > 0:
            op = ops[i - 1]
            prev = obs[i - 1]
            before = dict(prev["view"])
            if op[0] in NS_OPS:
                if o["others"] != prev["others"]:
                    yield ("a namespace operation added or removed a rule that is not an @namespace rule", i, feats)
                if op[0] == "del" and o["outcome"] == "ok":
                    b, a = [r[:2] for r in prev["rules"]], [r[:2] for r in o["rules"]]
                    gone = [r for r in b if b.count(r) > a.count(r)]
                    if len(a) != len(b) - 1 or not gone or gone[0][0] != op[1]:
                        yield ("del sheet.namespaces[p] succeeded without removing an @namespace rule of that prefix",
                               i, feats)
                if o["pairs"] != prev["pairs"]:
                    yield ("a namespace operation changed the (uri, name) pairs of a selector", i, feats)
            else:
                # selector-side operation: new selectors are bound through the mapping in force, or rejected
                wanted = resolve_items(before, op_items(op))
                if o["rules"] != prev["rules"]:
                    yield ("a selector operation changed the @namespace rules", i, feats)
                if o["outcome"] != "ok":
                    if o["pairs"] != prev["pairs"]:
                        yield ("a rejected or skipped selector operation changed the pairs", i, feats)
                    if o["outcome"] == "NamespaceErr" and wanted is not None:
                        yield ("a selector whose prefixes are all declared in sheet.namespaces was rejected with "
                               "NamespaceErr (it was not resolved through the sheet's mapping)", i, feats)
                elif wanted is None:
                    yield ("a selector with an undeclared prefix was accepted", i, feats)
                else:
                    odd = [p for p in o["pairs"] if p not in prev["pairs"] and p not in wanted]
                    lost = [p for p in wanted if p not in o["pairs"]]
                    if odd or lost:
                        yield ("a new selector is not stored with the URI its prefix denotes (unexpected %s, missing %s)"
                               % (odd, lost), i, feats)
            used = set(p.split(":", 2)[1][1:-1] for p in prev["pairs"] if p.split(":", 2)[1].startswith("'"))
            decl_before = set(u for _, u, _ in prev["rules"])
            decl_after = set(u for _, u, _ in o["rules"])
            gone = (used & decl_before) - decl_after
            if gone:
                yield ("the last @namespace rule of a URI still used by a selector was deleted (%s)" % sorted(gone),
                       i, feats)
            if o["outcome"] not in ("ok", "skip") and \
                    (o["rules"], o["pairs"], o["others"], o["view"]) != \
                    (prev["rules"], prev["pairs"], prev["others"], prev["view"]):
                yield ("a rejected operation changed the sheet", i, feats)
            if o["outcome"] not in ("ok", "skip", "IndexSizeErr", "HierarchyRequestErr", "NoModificationAllowedErr",
                                    "NamespaceErr", "SyntaxErr"):
                yield ("operation raised %s" % o["outcome"], i, feats)
        declared = set(u for _, u, _ in o["rules"])
        loose = sorted(set(p.split(":", 2)[1] for p in o["pairs"]
                           if p.split(":", 2)[1].startswith("'") and p.split(":", 2)[1] != "''"
                           and p.split(":", 2)[1][1:-1] not in declared))
        if loose:
            yield ("a selector is bound to a URI that no @namespace rule declares (%s)" % loose, i, feats)
        for p, u, text in o["rules"]:
            m = re.fullmatch(r'@namespace (?:/\*c\*/ )?(?:([A-Za-z0-9_-]+) )?"([^"]*)";', text)
            if not m or (m.group(1) or "") != p or m.group(2) != u:
                yield ("@namespace rule (%r, %r) serialises as %r" % (p, u, text), i, feats)
        e = effective_ok(o)
        if e:
            yield ("sheet.namespaces differs from the effective @namespace rules: " + e, i, feats)
        # the serialised sheet re-parses to the same pairs (of the rule sets that are written), under the default
        # preferences and under every preference row that decides which @namespace rules / rule sets are written
        for name, written, re_pairs in [("default", o["written"], o["re_pairs"])] + list(o["rows"]):
            if re_pairs != written:
                f2 = feats + (["unexplained"] if explained(o, written) != re_pairs else [])
                yield ("re-parsed pairs differ (preferences %s: written %s, re-parsed %s)" % (name, written, re_pairs),
                       i, f2)


def _short(what):
    return re.split(r"[:(]", what)[0].strip()


def report(ctx, case, obs, counters):
    n = 0
    for what, i, feats in oracle(case, obs):
        n += 1
        w = {"start": case[0], "ops": [list(o) for o in case[1][:i]], "css": start_text(case[0]), "fails_at_step": i}
        short = _short(what)
        sig = "features=%s" % ",".join(feats)
        if ctx.violation(short, w, sig_text=sig, detail=what):
            pass
        else:
            counters["known"] = counters.get("known", 0) + 1
    return n


# ----------------------------------------------------------------------------------------------- generators
P, Q = "p", "q"
U1, U2, U3 = "u1", "u2", "u3"
SEL_ALL = [("s", "t", "p:p", "a"), ("s", "t", "e", "b"), ("s", "t", "*", "c"), ("s", "t", "-", "e"),
           ("s", "u", "p:p", "*"), ("s", "u", "-", "*"), ("s", "a", "p:p", "a"), ("s", "a", "-", "d"), ("o",)]


def sels_for(decls):
    """selector sets: every declared non-empty prefix in element/universal/attribute/negation position + the
    prefix-free forms"""
    pref = sorted(set(p for p, _ in decls if p))
    a = [("s", "t", "-", "e"), ("s", "t", "e", "b"), ("s", "t", "*", "c")]
    b = []
    for p in pref:
        a.append(("s", "t", "p:" + p, "a"))
        b += [("s", "a", "p:" + p, "a"), ("s", "u", "p:" + p, "*"), ("s", "n", "p:" + p, "x")]
    b += [("s", "u", "-", "*"), ("s", "a", "-", "d"), ("s", "a", "e", "f"), ("s", "a", "*", "g"), ("o",)]
    return a, b


def start_sheets(thorough):
    decl_lists = [[]]
    pool = [("", U1), (P, U1), (P, U2), (Q, U1), (Q, U2), ("", U2)]
    for d in pool:
        decl_lists.append([d])
    for d1, d2 in itertools.product(pool, repeat=2):
        decl_lists.append([d1, d2])
    three = [[(P, U1), (Q, U2), ("", U3)], [(P, U1), (Q, U1), (P, U2)], [("", U1), (P, U1), (Q, U2)],
             [(P, U1), (P, U2), (Q, U2)], [(P, U1), (Q, U2), (P, U2)], [("", U1), ("", U2), (P, U1)]]
    decl_lists += three
    out = []
    for k, decls in enumerate(decl_lists):
        a, b = sels_for(decls)
        ns = [("N", p, u) for p, u in decls]
        variants = [ns + [("S", a)], ns + [("S", a), ("S", b)]]
        if k % 3 == 0:
            variants.append([("C",)] + ns + [("S", a), ("M", [b, [("s", "t", "p:r", "z")]])])
        if k % 2 == 1:   # prefixed selectors ONLY inside @media (in-use protection must look into the block)
            variants.append(ns + [("S", [("s", "t", "e", "b")]), ("M", [a, b])])
        # every item kind as the ONLY user of a declared prefix (type, universal, attribute, negation), once at top
        # level and once inside @media; the kind rotates with the declaration list, all prefixes of the list
        pref = sorted(set(p for p, _ in decls if p))
        if pref:
            kind = "tuan"[k % 4]
            only = [("s", kind, "p:" + p, "*" if kind == "u" else "x") for p in pref]
            variants.append(ns + [("S", [("s", "t", "e", "b")]), ("S", only)])
            kind2 = "tuan"[(k // 4) % 4]
            only2 = [("s", kind2, "p:" + p, "*" if kind2 == "u" else "y") for p in pref]
            variants.append([("C",)] + ns + [("M", [only2])])
            # rule sets without (kept) declarations as the sole users of a prefix: what is written depends on the
            # serializer preferences (keepEmptyRules, keepComments, keepUsedNamespaceRulesOnly)
            body = ["empty", "comment", "unknown", "dropped"][k % 4]
            variants.append(ns + [("S", [("s", "t", "e", "b")]), ("S", only, body)])
            variants.append(ns + [("S", [("s", "t", "e", "b")]), ("M", [only2, [("s", "t", "-", "e")]],
                                                                   [["comment", "empty", "unknown", "dropped"][k % 4],
                                                                    "decl"])])
        if k % 5 == 0:
            variants.append([("H",)] + ns + [("S", b)])
        if k % 7 == 0:   # undeclared prefix: the rule must be rejected; declaration after a rule set: ignored
            variants.append(ns + [("S", a + [("s", "t", "p:zz", "a")]), ("S", b), ("N", "late", "u9")])
        if k % 4 == 0:
            variants.append(ns + [("S", [("s", "t", "-", "e")])])
        out += variants
    return out


def op_alphabet(small):
    ops = [("set", "", U1), ("set", "", U2), ("set", P, U1), ("set", P, U2), ("set", Q, U1), ("set", Q, U2),
           ("set", "r", U3), ("del", ""), ("del", P), ("del", Q), ("del", "zz"),
           ("addo", P, U2), ("addo", Q, U1), ("addo", "", U1), ("addo", "r", U2),
           ("inso", P, U1, 0), ("inso", "r", U1, 1), ("inso", Q, U2, 2),
           ("addt", "r", U1), ("addt", P, U2), ("addt", "", U2), ("inst", "r", U2, 1), ("inst", "t", U3, 0),
           ("delr", 0), ("delr", 1), ("delr", 2)]
    if not small:
        ops += [("set", "r", ""), ("inso", "r", U3, 7), ("inst", "", U1, 2), ("addo", P, U1), ("set", "", U3),
                ("delr", 3), ("inso", "", U2, 1)]
    return ops


def addresses(start):
    """addresses of the rule sets of the parsed start sheet: (top-level addresses, media rule indices, inner ones)"""
    import logging
    import css_parser
    css_parser.log.setLevel(logging.FATAL)
    try:
        sheet = css_parser.parseString(start_text(start))
    except Exception:  # noqa
        return [], [], []
    top, med, inner = [], [], []
    for r, rule in enumerate(sheet.cssRules):
        if rule.type == rule.STYLE_RULE:
            top.append(("t", r))
        elif rule.type == rule.MEDIA_RULE:
            med.append(r)
            inner += [("m", r, j) for j in range(len(rule.cssRules))]
    return top, med, inner


def T(kind, form, name):
    return ("s", kind, form, name)


def sel_alphabet(start):
    """selector-side operations for one start sheet: in-place re-target of a Selector, list level edits, rule level
    edits, insertion / deletion of rule sets at top level and inside @media; every item kind, declared prefixes p/q,
    the default namespace, an undeclared prefix zz"""
    top, med, inner = addresses(start)
    targets = top[:1] + inner[:1]
    ops = []
    news = [T("t", "p:p", "x"), T("a", "p:p", "x"), T("n", "p:p", "x"), T("u", "p:p", "*"), T("t", "p:q", "x"),
            T("t", "-", "e"), T("t", "e", "b"), T("t", "p:zz", "x")]
    for a in targets:
        # every single-selector entry point gets every spelling (declared prefix in each item kind, default
        # namespace, no namespace, undeclared prefix): the entry points resolve through different code paths
        for it in news:
            ops.append(("ssel", a, 0, it))
            ops.append(("xsel", a, 0, it))
            ops.append(("asel", a, it))
        ops += [("xsel", a, 1, T("n", "p:q", "y")),
                ("lsel", a, (T("t", "-", "e"),)), ("lsel", a, (T("a", "p:p", "z"), T("t", "*", "c"))),
                ("rsel", a, (T("n", "p:q", "z"), T("t", "-", "e"))), ("rsel", a, (T("t", "p:zz", "z"), T("t", "-", "e"))),
                ("asel", a, T("t", "p:p", "x")), ("asel", a, T("t", "-", "e")), ("asel", a, T("u", "p:zz", "*")),
                ("dsel", a, 0), ("dstyle", a)]
    at = top[0][1] if top else 0
    ops += [("istyle", (T("t", "p:p", "w"),), None), ("istyle", (T("a", "p:q", "w"), T("t", "-", "e")), at),
            ("istyle", (T("t", "-", "e"),), 0), ("istyle", (T("n", "p:zz", "w"),), None),
            ("istyle", (T("t", "e", "b"),), 9)]
    for m in med[:1]:
        ops += [("minner", m, (T("n", "p:p", "v"),), 0), ("minner", m, (T("t", "-", "e"), T("u", "p:q", "*")), None),
                ("minner", m, (T("t", "p:zz", "v"),), None), ("minner", m, (T("t", "e", "b"),), 7)]
    return ops


def unused_declaration(start):
    """some @namespace declaration of the sheet is used by no selector (by the spec resolver)"""
    decl = {}
    for st in start:
        if st[0] == "N":
            decl[st[1]] = st[2]
        elif st[0] in ("S", "M"):
            break
    used = set(p.split(":", 2)[1][1:-1] for p in spec_pairs(start) if p.split(":", 2)[1].startswith("'"))
    return bool(set(decl.values()) - used)


NS_CRITICAL = [("del", ""), ("del", P), ("del", Q), ("delr", 0), ("delr", 1), ("set", "", U1), ("addo", Q, U1),
               ("set", "r", U3), ("addo", P, U2)]
NS_CRITICAL_QUICK = [("del", ""), ("del", P), ("del", Q), ("delr", 0), ("set", "", U1), ("addo", P, U2)]


def gen_cases(ctx, thorough):
    starts = start_sheets(thorough)
    small = op_alphabet(True)
    full = op_alphabet(False)
    cases = []
    for s in starts:
        cases.append((s, (), "all"))          # every preference row on every start sheet
        for o in full:
            cases.append((s, (o,)))
    for s in (starts if thorough else starts[::4]):
        for o in sel_alphabet(s):
            cases.append((s, (o,)))
    n1 = len(cases)
    sub = starts[::2] if thorough else [s for i, s in enumerate(starts) if i % 16 == 0]
    for s in sub:
        for o1, o2 in itertools.product(small, repeat=2):
            cases.append((s, (o1, o2)))
    # mixed histories: a selector-side operation around a namespace operation (the in-use check and the mapping
    # must follow the CURRENT selectors)
    # quick: every sheet with a declared but unused URI (there the in-use status can flip) + every 25th other
    flip = [s for s in starts if unused_declaration(s)]
    for n, s in enumerate(flip + [s for s in starts[::2] if s not in flip] if thorough else
                          flip[::3] + [s for i, s in enumerate(starts) if i % 40 == 7 and s not in flip]):
        sel = sel_alphabet(s)
        for o1, o2 in itertools.product(sel, NS_CRITICAL if thorough else NS_CRITICAL_QUICK):
            cases.append((s, (o1, o2)))
            cases.append((s, (o2, o1)))
        if thorough and n % 3 == 0:
            for o1, o2 in itertools.product(sel[:25], repeat=2):
                cases.append((s, (o1, o2)))
    if thorough:
        for s in [s for i, s in enumerate(starts) if i % 24 == 0]:
            for t in itertools.product(small[:20], repeat=3):
                cases.append((s, t))
    n_exh = len(cases)
    rng = ctx.rng
    for n in range(8000 if thorough else 2000):
        s = rng.choice(starts)
        sel = sel_alphabet(s)
        k = rng.randint(3, 7)
        ops = []
        for _ in range(k):
            kind = rng.choice(["set", "set", "del", "addo", "inso", "addt", "inst", "delr", "sel", "sel", "sel", "sel"])
            if kind == "sel" and sel:
                ops.append(rng.choice(sel))
                continue
            kind = "del" if kind == "sel" else kind
            p = rng.choice(["", P, Q, "r", "t"])
            u = rng.choice([U1, U2, U3])
            i = rng.randint(0, 5)
            ops.append({"set": ("set", p, u), "del": ("del", p), "addo": ("addo", p, u), "inso": ("inso", p, u, i),
                        "addt": ("addt", p, u), "inst": ("inst", p, u, i), "delr": ("delr", i)}[kind])
        cases.append((s, tuple(ops), n))      # one preference row (rotating) on the last state
    return cases, n1, n_exh


def _norm(case):
    def tup(x):
        return tuple(tup(i) for i in x) if isinstance(x, (list, tuple)) else x
    return (tup(case[0]), tup(case[1]))


# ----------------------------------------------------------------------------------------------- run
def run(ctx):
    thorough = ctx.tier == "thorough"
    ctx.coq_build("props/C15.v")
    binary = ctx.ocaml_build("namespaces")
    cp = VERIF / "corpus" / "C15.json"
    corpus = [_norm((c["start"], c["ops"])) for c in json.loads(cp.read_text())] if cp.exists() else []
    cases, n1, n_exh = gen_cases(ctx, thorough)
    cases = corpus + cases
    res = ctx.pool_map(impl_run, cases, procs=6, chunksize=64)
    counters = {}
    mism, states, nontrivial, hist = [], 0, set(), {}
    model = ctx.run_binary(binary, [enc_case(c[0], c[1]) for c in cases], shards=6) if binary else None
    for idx, (case, (lines, obs)) in enumerate(zip(cases, res)):
        states += len(lines)
        for o in obs[1:]:
            hist[o["outcome"]] = hist.get(o["outcome"], 0) + 1
        if any(a["rules"] != b["rules"] for a, b in zip(obs, obs[1:])):
            nontrivial.add(idx)
        if model is not None:
            m = model[idx].split("\t")
            if not plain_bodies(case[0]):      # the model has no declaration blocks: its re-parse keeps every rule set
                m = [x.rsplit(" # ", 1)[0] for x in m]
                lines = [x.rsplit(" # ", 1)[0] for x in lines]
            if m != lines:
                k = next((j for j, (x, y) in enumerate(itertools.zip_longest(m, lines)) if x != y), 0)
                mism.append({"css": start_text(case[0]), "ops": [list(o) for o in case[1]], "step": k,
                             "model": m[k] if k < len(m) else None, "impl": lines[k] if k < len(lines) else None})
        report(ctx, case, obs, counters)
    if mism:
        ctx.broken("correspondence", "css_parser namespaces vs CssV.Namespaces (parse/step/view/ser/reparse)",
                   "%d of %d histories differ; first: %s" % (len(mism), len(cases), json.dumps(mism[:2])))
    # stored witnesses of open findings are re-run on every run
    for f in ctx.findings:
        if f.get("status") == "open":
            c = _norm((f["witness"]["start"], f["witness"]["ops"]))
            lines, obs = impl_run(c)
            report(ctx, c, obs, {})

    def search():
        t0 = time.time()
        rng = ctx.rng
        starts = start_sheets(True)
        alpha = op_alphabet(False)
        while time.time() - t0 < (300 if thorough else 55):
            batch = []
            for n in range(1500):
                s0 = rng.choice(starts)
                both = alpha + sel_alphabet(s0) * 2
                batch.append((s0, tuple(rng.choice(both) for _ in range(rng.randint(0, 4))), n))
            for case, (lines, obs) in zip(batch, ctx.pool_map(impl_run, batch, procs=6, chunksize=64)):
                for what, i, feats in oracle(case, obs):
                    short = _short(what)
                    if not ctx.match_known(short + " :: features=%s" % ",".join(feats)):
                        ops = list(case[1][:i])
                        # histories are shrunk by dropping operations while the same clause still fails
                        changed = True
                        while changed:
                            changed = False
                            for j in range(len(ops)):
                                cand = (case[0], tuple(ops[:j] + ops[j + 1:]), "all")
                                _, ob2 = impl_run(cand)
                                if any(_short(w2) == short and
                                       not ctx.match_known(short + " :: features=%s" % ",".join(f2))
                                       for w2, _, f2 in oracle(cand, ob2)):
                                    ops = list(cand[1])
                                    changed = True
                                    break
                        return {"start": case[0], "ops": [list(o) for o in ops], "css": start_text(case[0]),
                                "fails": what}
        return None

    sample = [{"css": start_text(c[0]), "ops": [list(o) for o in c[1]]}
              for c in (cases[len(corpus) + 3], cases[len(corpus) + n1 + 77], cases[-1], cases[-7])]
    ctx.finish({
        "evaluations": states,
        "histories": len(cases),
        "distinct_nontrivial": len(nontrivial),
        "rule": "start sheets: %d sheets built from every declaration list of length <= 2 over {'',p,q} x {u1,u2} "
                "plus 6 lists of length 3 (default, prefixed, duplicate URIs, re-declared prefixes), selectors in "
                "every prefix form (p|e |e *|e e p|* * [p|a] [a] [|a] [*|a] :not(p|x)), variants with a comment / "
                "@charset in front, an @media block, an undeclared prefix, a late @namespace; histories: all of "
                "length <= 1 over a %d-operation alphabet, all of length 2 over %d operations on %s start sheets "
                "(%d exhaustive histories), then random histories of length 3-7; evaluations = states compared "
                "(after the parse and after every operation); non-trivial = histories in which at least one "
                "operation changed the list of @namespace rules" % (
                    len(start_sheets(thorough)), len(op_alphabet(False)), len(op_alphabet(True)),
                    "all" if thorough else "every 6th", n_exh),
        "outcome_histogram": hist,
        "oracle_failures_matching_known_findings": counters.get("known", 0),
        "samples": sample,
        "disagreements_checked": states if binary else 0,
        "trusted_base": TRUSTED,
    }, assumptions=ASSUME, search=search)


def replay(ctx, path):
    rep = json.loads(open(path).read())
    bad = 0
    for v in rep.get("violations", []):
        w = v["witness"]
        case = _norm((w["start"], w["ops"]))
        lines, obs = impl_run(case + ("all",))       # every preference row on every state
        fails = [what for what, i, feats in oracle(case, obs)]
        print("replay %s\n  ops %s\n  final state: %s\n  -> %s" % (json.dumps(w.get("css")), w["ops"],
                                                                 lines[-1] if lines else None,
                                                                 "; ".join(fails) or "holds"))
        bad += bool(fails)
    return 1 if bad else 0


TRUSTED = [
    "Coq 8.16.1 kernel and VM (vm_compute for the refutation witnesses and Examples); no native_compute",
    "extraction (ExtrOcamlBasic only) + ocamlfind ocamlopt, ocaml/namespaces_driver.ml (input decoding, printing)",
    "correspondence harness harness/props/c15.py (generators, canonical state strings, the Python readers of "
    "rule.seq / selector.seq / sheet.namespaces)",
    "modelled by hand, not verified: util._Namespaces, CSSStyleSheet._cleanNamespaces/_getUsedURIs/deleteRule/"
    "insertRule(@namespace branch)/namespacerule handler, CSSNamespaceRule constructor/_setPrefix/_setNamespaceURI, "
    "Selector.append's prefix resolution, do_css_Selector's URI->prefix choice, do_CSSNamespaceRule "
    "(coq/theories/Namespaces.v)",
    "hypothesised: the tokenizer/selector state machine delivers the prefix forms as written (covered by C08/C16), "
    "prefixes are identifiers, URIs are non-empty strings other than '*', style rules are not empty "
    "(an empty rule is not serialised), comments inside @namespace rules are not generated",
]
ASSUME = [
    "Print Assumptions for every theorem of props/C15.v: see coverage.print_assumptions",
    "selectors detached from a sheet (_SimpleNamespaces) are outside the model",
    "direct assignment to CSSNamespaceRule.prefix of a rule inside a sheet is not an operation of the histories "
    "(the property quantifies over sheet.namespaces assignments/deletions and @namespace insertions)",
    "view_matches_rules_partial / reparse_same_pairs_partial are proved for clean, spellable sheets; that every history "
    "keeps the sheet spellable is REFUTED (two open findings), that it keeps it clean is not proved (no counter-example "
    "since fix a5cb308); see design_notes/C15.md",
]
