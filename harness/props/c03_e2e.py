"""C03 end-to-end oracle -- serialise / re-parse equality on the implementation.

Public API (all module level, picklable, all randomness from the `rng` argument):

    gen_sheet(rng, size=6) -> str            random well-formed sheet text over the documented grammar
    extract_sheet / extract_rule / extract_selector / extract_style / extract_medialist /
    extract_mediaquery / extract_value       independent model extractor (reads the CSSOM through object
                                             attributes, never through cssText / selectorText / mediaText)
    check_text(text) -> list[dict]           the oracle: [] = the property holds for this text
    shrink(text, pred, budget_s=20) -> str   greedy structural + character level shrinking
    family(failure) -> str                   "<kind> :: <feature signature>" for matching known findings
    coverage(text) -> dict                   feature counts of what survived the first parse (generator coverage)
    campaign_chunk((seed, n, sizes)) -> dict worker for multiprocessing campaigns

NORMALISE holds the model normalisations.  The three `documented` ones are ON (they are the limits the property
text itself grants, plus the documented default preference keepEmptyRules=False); every other entry is a CANDIDATE
DEFECT switch, default OFF, which exists only so that a campaign can look behind a frequent finding.
"""
import logging
import random
import re
import time

import css_parser
from css_parser import css as _css
from css_parser import stylesheets as _ss
from css_parser.css import value as _val

# ------------------------------------------------------------------------------------------------- set-up
NORMALISE = {
    # documented limits (property text / documented default preferences)
    'six_decimals': True,        # numbers are compared after rounding to 6 decimal places
    'zero_length_unit': True,    # a zero cm/mm/in/px/pc/pt/em/ex length is compared without its unit
    'prune_empty_rules': True,   # prefs.keepEmptyRules=False: rules without content are not serialised
    'tiny_is_zero': True,        # consequence of the two number limits: a value that is 0 at 6 decimals is a zero
    # candidate-defect switches (default OFF, see the C03 report)
    'selector_S': False,         # ignore 'S' items inside functional pseudo-class arguments
    'anb_sign': False,           # compare ['minus' '-'] ['NUMBER' '1'] and ['NUMBER' '-1'] in pseudo arguments alike
    'hash_minimise': False,      # compare #aabbcc and #abc as the same colour token
    'calc_S': False,             # ignore 'S' items inside calc()
}

_ZERO_UNITS = ('cm', 'mm', 'in', 'px', 'pc', 'pt', 'em', 'ex')
_ready = False


def _setup():
    global _ready
    if not _ready:
        # css_parser.log is an ErrorHandler wrapper; setLevel is forwarded to the wrapped logging.Logger
        css_parser.log.setLevel(logging.CRITICAL + 1)
        _ready = True


def _nofetch(url):
    "no file / network access for @import"
    return (None, None)


def _parse(text):
    _setup()
    p = css_parser.CSSParser(validate=True, raiseExceptions=False, fetcher=_nofetch)
    return p.parseString(text)


class _ListHandler(logging.Handler):
    def __init__(self):
        logging.Handler.__init__(self, logging.DEBUG)
        self.records = []

    def emit(self, record):
        self.records.append((record.levelname, record.getMessage()))


_VALIDITY_MSG = ('Property: Invalid value for', 'Property: Unknown Property name', 'Property: Not valid for profile',
                 'CSSImportRule: While processing imported style sheet', 'MediaQuery: Unknown media type',
                 'CSSPageRule: Unknown @page selector')


def parse_messages(text, level=logging.WARNING):
    """(levelname, message) pairs the library logs while it parses `text` as a sheet (the global log object is
    replaced for the duration of the call and put back afterwards)"""
    _setup()
    h = _ListHandler()
    lg = logging.Logger('c03e2e.capture', level)
    lg.addHandler(h)
    old = css_parser.log._log
    css_parser.log.setLog(lg)
    try:
        _parse(text)
    finally:
        css_parser.log.setLog(old)
    return h.records


def parse_errors(text):
    """ERROR messages of the first parse other than validity verdicts: [] means the library accepted every
    construct of `text` (used to keep shrinking inside the well-formed inputs and to audit the generator)"""
    return [m for lv, m in parse_messages(text, logging.ERROR)
            if lv in ('ERROR', 'CRITICAL') and not m.startswith(_VALIDITY_MSG)]


class _NoRaise(object):
    "objects built outside a parser run log their errors instead of raising (as the sheet parser does)"

    def __enter__(self):
        self.old = css_parser.log.raiseExceptions
        css_parser.log.raiseExceptions = False

    def __exit__(self, *a):
        css_parser.log.raiseExceptions = self.old
        return False


# ------------------------------------------------------------------------------------------------- extractor
def _numstr(v):
    """a number as text within the documented limits: rounded to 6 decimals, trailing zeros stripped"""
    if isinstance(v, int):
        return str(v)
    if v == int(v) and abs(v) >= 1e15:
        return str(int(v))
    s = '%.6f' % v
    if '.' in s:
        s = s.rstrip('0').rstrip('.')
    if s in ('-0', ''):
        s = '0' if NORMALISE['tiny_is_zero'] or v == 0 else s
    return s


def _xnum(v):
    val = v.value
    dim = v.dimension
    s = _numstr(val) if NORMALISE['six_decimals'] else repr(val)
    iszero = (val == 0) or (NORMALISE['tiny_is_zero'] and s in ('0', '-0'))
    if iszero:
        s = '0'
        if NORMALISE['zero_length_unit'] and dim in _ZERO_UNITS:
            dim = None
    elif v._sign == '+':
        s = '+' + s
    return ['NUM', s, dim]


def _comment_text(c):
    return getattr(c, '_cssText', None)


def _xitem(item, ctx=''):
    "one util.Item of a value-ish seq -> plain data"
    v = item.value
    t = item.type
    if isinstance(v, _css.ColorValue):
        ct = v.colorType
        if ct == 'FUNCTION':
            return ['COLOR', ct, _xseq(v.seq, 'color'),
                    [_numstr(c) if isinstance(c, (int, float)) else c for c in (v.red, v.green, v.blue, v.alpha)]]
        # a HASH / named colour keeps its token as the only seq item (ColorValue has no own value attribute)
        val = v.seq[0].value if len(v.seq) else None
        if ct == 'HASH' and NORMALISE['hash_minimise'] and isinstance(val, str) and len(val) == 7 \
                and val[1] == val[2] and val[3] == val[4] and val[5] == val[6]:
            val = '#' + val[1] + val[3] + val[5]
        return ['COLOR', ct, val]
    if isinstance(v, _css.DimensionValue):
        return _xnum(v)
    if isinstance(v, _css.URIValue):
        return ['URI', v.uri]
    if isinstance(v, _val.CSSCalc):
        return ['CALC', _xseq(v.seq, 'calc')]
    if isinstance(v, _css.CSSVariable):
        fb = v.fallback
        return ['VAR', v.name, _xitem(_Fake(fb)) if fb is not None else None]
    if isinstance(v, _css.MSValue):
        return ['MS', _xseq(v.seq, 'ms')]
    if isinstance(v, _css.CSSFunction):
        return ['FUNCTION', _xseq(v.seq, 'function')]
    if isinstance(v, _css.Value):
        return [v.type, v.value]
    if isinstance(v, _css.CSSComment):
        return ['COMMENT', _comment_text(v)]
    if isinstance(v, _ss.MediaQuery):
        return ['MediaQuery', extract_mediaquery(v)]
    if isinstance(v, _ss.MediaList):
        return ['MediaList', extract_medialist(v)]
    if isinstance(v, _css.CSSStyleDeclaration):
        return ['style']
    if isinstance(v, tuple):
        return [t, list(v)]
    if t == 'S' and isinstance(v, str):
        return ['S', ' ']
    if isinstance(v, (str, int, bool)) or v is None:
        return [t, v]
    if hasattr(v, 'seq'):
        return [t, type(v).__name__, _xseq(v.seq)]
    return [t, type(v).__name__]


class _Fake(object):
    def __init__(self, value, type_=None):
        self.value = value
        self.type = type_


def _xseq(seq, ctx=''):
    out = []
    for item in seq:
        if ctx == 'calc' and NORMALISE['calc_S'] and item.type == 'S':
            continue
        out.append(_xitem(item, ctx))
    return out


def extract_value(pv):
    "PropertyValue -> {'wellformed', 'items'}"
    return {'wellformed': bool(pv.wellformed), 'items': _xseq(pv.seq, 'value')}


def _xprop(p):
    return {'name': p.name, 'literalname': p.literalname, 'value': extract_value(p.propertyValue),
            'priority': p.priority, 'valid': bool(p.valid), 'wellformed': bool(p.wellformed)}


def extract_style(style):
    "CSSStyleDeclaration -> {'props': [...], 'layout': [...]}; layout = order of properties and comments"
    props = [_xprop(p) for p in style.getProperties(all=True)]
    layout = []
    for item in style.seq:
        v = item.value
        if isinstance(v, _css.Property):
            layout.append('P')
        elif isinstance(v, _css.CSSComment):
            layout.append(['COMMENT', _comment_text(v)])
        elif isinstance(v, _css.CSSRule):
            layout.append(['RULE', extract_rule(v)])
        else:
            layout.append(['?', type(v).__name__])
    return {'props': props, 'layout': layout}


def extract_selector(sel):
    "Selector -> {'seq': [[type, value]...], 'specificity', 'element', 'wellformed'}"
    out = []
    fdepth = 0
    for item in sel.seq:
        t, v = item.type, item.value
        if isinstance(v, str) and v.endswith('(') and t in ('pseudo-class', 'pseudo-element'):
            fdepth += 1
        elif t == 'function-end':
            fdepth -= 1
        if t == 'S' and fdepth > 0 and NORMALISE['selector_S']:
            continue
        if isinstance(v, tuple):
            out.append([t, list(v)])
        elif isinstance(v, _css.CSSComment):
            out.append(['COMMENT', _comment_text(v)])
        elif NORMALISE['anb_sign'] and fdepth > 0 and t == 'NUMBER' and out and out[-1][0] in ('minus', 'plus') \
                and isinstance(v, str) and v[:1] not in '+-':
            out[-1] = ['NUMBER', out[-1][1] + v]
        else:
            out.append([t, v])
    el = sel.element
    return {'seq': out, 'specificity': list(sel.specificity),
            'element': list(el) if isinstance(el, tuple) else el,
            'wellformed': bool(sel.wellformed)}


def extract_mediaquery(mq):
    return {'mediaType': mq.mediaType, 'seq': _xseq(mq.seq, 'mq'), 'wellformed': bool(mq.wellformed)}


def extract_medialist(ml):
    "MediaList -> {'wellformed', 'items': [['MediaQuery', {...}] | ['COMMENT', text]]}"
    return {'wellformed': bool(ml.wellformed), 'items': _xseq(ml.seq, 'ml')}


def _seq_comments(rule):
    out = []
    for item in rule.seq:
        if isinstance(item.value, _css.CSSComment):
            out.append(_comment_text(item.value))
    return out


def extract_rule(rule):
    "any CSSRule -> dict, children recursively"
    t = rule.type
    name = rule.typeString
    d = {'type': name}
    if t == rule.COMMENT:
        d['text'] = _comment_text(rule)
        return d
    d['wellformed'] = bool(rule.wellformed)
    if t == rule.CHARSET_RULE:
        d['encoding'] = rule.encoding
    elif t == rule.IMPORT_RULE:
        d['href'] = rule.href
        d['hreftype'] = rule.hreftype
        d['name'] = rule.name
        d['media'] = extract_medialist(rule.media)
        d['layout'] = [it.type if not isinstance(it.value, _css.CSSComment)
                       else ['COMMENT', _comment_text(it.value)] for it in rule.seq
                       if it.type != 'media']
    elif t == rule.NAMESPACE_RULE:
        d['prefix'] = rule.prefix
        d['namespaceURI'] = rule.namespaceURI
        d['comments'] = _seq_comments(rule)
    elif t == rule.STYLE_RULE:
        d['selectors'] = [extract_selector(s) for s in rule.selectorList]
        d['style'] = extract_style(rule.style)
        d['valid'] = all(p['valid'] for p in _effective(rule.style, d['style']))
    elif t == rule.MEDIA_RULE:
        d['media'] = extract_medialist(rule.media)
        d['name'] = rule.name
        d['comments'] = _seq_comments(rule)
        d['rules'] = [extract_rule(r) for r in rule.cssRules]
    elif t == rule.PAGE_RULE:
        d['selector'] = [[it.type, it.value] if not isinstance(it.value, _css.CSSComment)
                         else ['COMMENT', _comment_text(it.value)] for it in rule._selectorText]
        d['specificity'] = list(rule.specificity)
        d['style'] = extract_style(rule.style)
        d['rules'] = [extract_rule(r) for r in rule.cssRules]
    elif t == rule.FONT_FACE_RULE:
        d['style'] = extract_style(rule.style)
        d['valid'] = bool(rule.valid)
        d['comments'] = _seq_comments(rule)
    elif t == rule.MARGIN_RULE:
        d['margin'] = rule.margin
        d['style'] = extract_style(rule.style)
    elif t == rule.UNKNOWN_RULE:
        d['atkeyword'] = rule.atkeyword
        toks = []
        for it in rule.seq:
            if it.type == 'S':
                continue
            if isinstance(it.value, _css.CSSComment):
                toks.append(['COMMENT', _comment_text(it.value)])
            else:
                toks.append([it.type, it.value])
        d['tokens'] = toks
    return d


def _effective(style, smodel):
    """models of the effective properties (what CSSStyleRule.valid looks at), found through the public
    getProperties() so that the verdict is the library's, but without re-validating every property"""
    allp = style.getProperties(all=True)
    idx = {id(p): i for i, p in enumerate(allp)}
    out = []
    for p in style.getProperties():
        i = idx.get(id(p))
        out.append(smodel['props'][i] if i is not None else {'valid': bool(p.valid)})
    return out


def extract_sheet(sheet):
    ns = []
    try:
        for prefix, uri in sheet.namespaces.items():
            ns.append([prefix, uri])
    except Exception as e:  # pragma: no cover
        ns = ['<error %r>' % (e,)]
    ns.sort(key=lambda x: repr(x))
    return {'encoding': sheet.encoding, 'namespaces': ns,
            'rules': [extract_rule(r) for r in sheet.cssRules]}


# ------------------------------------------------------------------------------------------------- model helpers
def _style_empty(s):
    return not s['layout']


def _rule_empty(m):
    "model level keepEmptyRules=False (serialize.py: do_CSSStyleRule, do_CSSMediaRule, do_CSSPageRule, ...)"
    t = m['type']
    if t in ('STYLE_RULE', 'FONT_FACE_RULE', 'MARGIN_RULE'):
        return _style_empty(m['style'])
    if t == 'PAGE_RULE':
        return _style_empty(m['style']) and all(_rule_empty(r) for r in m['rules'])
    if t == 'MEDIA_RULE':
        return all(_rule_empty(r) for r in m['rules'])
    return False


def _prune(m):
    "copy of a rule / sheet model without the rules the default preferences do not serialise"
    if not NORMALISE['prune_empty_rules']:
        return m
    if isinstance(m, dict) and 'rules' in m:
        m = dict(m)
        m['rules'] = [_prune(r) for r in m['rules'] if not _rule_empty(r)]
    return m


def _first_diff(a, b, path=''):
    "first differing path of two plain-data trees, or None"
    if type(a) is not type(b):
        return (path, a, b)
    if isinstance(a, dict):
        for k in a:
            if k not in b:
                return (path + '.' + k, a[k], '<missing>')
            d = _first_diff(a[k], b[k], path + '.' + k)
            if d:
                return d
        for k in b:
            if k not in a:
                return (path + '.' + k, '<missing>', b[k])
        return None
    if isinstance(a, list):
        for i in range(min(len(a), len(b))):
            d = _first_diff(a[i], b[i], '%s[%d]' % (path, i))
            if d:
                return d
        if len(a) != len(b):
            i = min(len(a), len(b))
            return ('%s[%d]' % (path, i), a[i] if len(a) > i else '<end>', b[i] if len(b) > i else '<end>')
        return None
    if a != b:
        return (path, a, b)
    return None


def _brief(x, n=160):
    s = x if isinstance(x, str) else repr(x)
    return s if len(s) <= n else s[:n] + '...'


def _fail(kind, where, t1, t2, detail):
    return {'kind': kind, 'where': where, 'text1': t1, 'text2': t2, 'detail': detail}


def _cmp(fails, obj, where, m1, m2, t1, t2):
    "record <obj>-model / <obj>-fixpoint failures"
    d = _first_diff(m1, m2)
    if d:
        fails.append(_fail(obj + '-model', where, t1, t2,
                           'path %s: %s != %s' % (d[0] or '.', _brief(d[1]), _brief(d[2]))))
    if t1 != t2:
        fails.append(_fail(obj + '-fixpoint', where, t1, t2, _textdiff(t1, t2)))


def _textdiff(a, b):
    if not isinstance(a, str) or not isinstance(b, str):
        return '%r != %r' % (a, b)
    i = 0
    n = min(len(a), len(b))
    while i < n and a[i] == b[i]:
        i += 1
    return 'first difference at offset %d: %r != %r' % (i, a[max(0, i - 12):i + 24], b[max(0, i - 12):i + 24])


# ------------------------------------------------------------------------------------------------- the oracle
def _sheet_text(sheet):
    t = sheet.cssText
    if isinstance(t, bytes):
        try:
            t = t.decode('utf-8')
        except UnicodeDecodeError:
            t = t.decode(sheet.encoding or 'utf-8')
    return t


def check_text(text):
    """the C03 oracle: list of failure dicts (empty = holds)"""
    _setup()
    css_parser.ser.prefs.useDefaults()
    fails = []
    try:
        sheet = _parse(text)
        m1 = extract_sheet(sheet)
    except Exception as e:
        return [_fail('exception', 'sheet.parse1', text, '', '%s: %s' % (type(e).__name__, e))]

    # a. whole sheet
    t1 = None
    try:
        t1 = _sheet_text(sheet)
        s2 = _parse(t1)
        m2 = extract_sheet(s2)
        t2 = _sheet_text(s2)
        _cmp(fails, 'sheet', 'sheet', _prune(m1), _prune(m2), t1, t2)
    except Exception as e:
        fails.append(_fail('exception', 'sheet', t1 if t1 is not None else text, '',
                           '%s: %s' % (type(e).__name__, e)))

    # b. sub-objects in isolation
    nsrules = [r for r in sheet.cssRules if r.type == r.NAMESPACE_RULE]
    try:
        nsdict = dict((p, u) for p, u in sheet.namespaces.items())
    except Exception:
        nsdict = {}
    ctx = {'nsdict': nsdict, 'nstext': '', 'nscount': 0}
    if nsrules:
        try:
            texts = [r.cssText for r in nsrules]
            texts = [t for t in texts if t]
            ctx['nstext'] = '\n'.join(texts) + '\n'
            ctx['nscount'] = len(texts)
        except Exception as e:
            fails.append(_fail('exception', 'sheet.namespaces', text, '', '%s: %s' % (type(e).__name__, e)))
    with _NoRaise():
        for i, rule in enumerate(sheet.cssRules):
            _check_rule(fails, rule, m1['rules'][i], 'rule[%d]' % i, ctx)
    return fails


def _guard(fails, where, fn, *a):
    try:
        fn(fails, where, *a)
    except Exception as e:
        fails.append(_fail('exception', where, '', '', '%s: %s' % (type(e).__name__, e)))


def _check_rule(fails, rule, rm, where, ctx):
    t = rule.type
    if NORMALISE['prune_empty_rules'] and _rule_empty(rm):
        return
    _guard(fails, where, _iso_rule, rule, rm, ctx)
    if t == rule.STYLE_RULE:
        _guard(fails, where + '.selectorList', _iso_selectors, rule, rm, ctx)
        _guard(fails, where + '.style', _iso_style, rule.style, rm['style'], 'style')
    elif t == rule.FONT_FACE_RULE:
        _guard(fails, where + '.style', _iso_style, rule.style, rm['style'], 'fontface')
    elif t == rule.MARGIN_RULE:
        _guard(fails, where + '.style', _iso_style, rule.style, rm['style'], 'style')
    elif t == rule.PAGE_RULE:
        _guard(fails, where + '.style', _iso_style, rule.style, rm['style'], 'style')
        for j, r in enumerate(rule.cssRules):
            _check_rule(fails, r, rm['rules'][j], '%s.rule[%d]' % (where, j), ctx)
    elif t == rule.MEDIA_RULE:
        _guard(fails, where + '.media', _iso_media, rule.media, rm['media'])
        for j, r in enumerate(rule.cssRules):
            _check_rule(fails, r, rm['rules'][j], '%s.rule[%d]' % (where, j), ctx)
    elif t == rule.IMPORT_RULE:
        _guard(fails, where + '.media', _iso_media, rule.media, rm['media'])


def _iso_rule(fails, where, rule, rm, ctx):
    t = rule.type
    t1 = rule.cssText
    if not t1:
        fails.append(_fail('rule-model', where, t1, '', 'a non-empty %s serialises to nothing' % rm['type']))
        return
    if t == rule.MARGIN_RULE:
        r2 = _css.MarginRule()
        r2.cssText = t1
        _cmp(fails, 'rule', where, _prune(rm), _prune(extract_rule(r2)), t1, r2.cssText)
        return
    prefix, skip = '', 0
    if t in (rule.STYLE_RULE, rule.MEDIA_RULE) and ctx['nscount']:
        prefix, skip = ctx['nstext'], ctx['nscount']
    s2 = _parse(prefix + t1)
    rules = list(s2.cssRules)[skip:]
    if len(rules) != 1:
        fails.append(_fail('rule-model', where, t1, _brief(_sheet_text(s2), 400),
                           're-parse of the rule text gives %d rules: %s'
                           % (len(rules), [r.typeString for r in rules])))
        return
    r2 = rules[0]
    _cmp(fails, 'rule', where, _prune(rm), _prune(extract_rule(r2)), t1, r2.cssText)


def _iso_selectors(fails, where, rule, rm, ctx):
    ns = ctx['nsdict']
    sl = rule.selectorList
    t1 = sl.selectorText
    sl2 = _css.SelectorList(selectorText=(t1, dict(ns)))
    _cmp(fails, 'selectorlist', where, rm['selectors'], [extract_selector(s) for s in sl2], t1, sl2.selectorText)
    base = where[:-len('.selectorList')]
    for j, sel in enumerate(sl):
        st = sel.selectorText
        s2 = _css.Selector(selectorText=(st, dict(ns)))
        _cmp(fails, 'selector', '%s.selector[%d]' % (base, j), rm['selectors'][j], extract_selector(s2),
             st, s2.selectorText)


_FF = []


def _iso_style(fails, where, style, sm, kind):
    if _style_empty(sm):
        return
    t1 = style.cssText
    parent = None
    if kind == 'fontface':
        # @font-face descriptors are validated against the font-face profile through style.parentRule
        parent = _css.CSSFontFaceRule()
    s2 = _css.CSSStyleDeclaration(cssText=t1, parentRule=parent)
    _cmp(fails, 'style', where, sm, extract_style(s2), t1, s2.cssText)
    for j, p in enumerate(style.getProperties(all=True)):
        pm = sm['props'][j]
        w = '%s.prop[%d]' % (where, j)
        pt = p.cssText
        holder = _css.CSSStyleDeclaration(parentRule=parent)
        p2 = _css.Property(parent=holder)
        p2.cssText = pt
        _cmp(fails, 'property', w, pm, _xprop(p2), pt, p2.cssText)
        vt = p.propertyValue.cssText
        v2 = _css.PropertyValue(vt)
        _cmp(fails, 'value', w + '.value', pm['value'], extract_value(v2), vt, v2.cssText)


def _iso_media(fails, where, ml, mm):
    t1 = ml.mediaText
    ml2 = _ss.MediaList(mediaText=t1)
    _cmp(fails, 'medialist', where, mm, extract_medialist(ml2), t1, ml2.mediaText)
    j = 0
    for item in ml.seq:
        if item.type != 'MediaQuery':
            continue
        mq = item.value
        qt = mq.mediaText
        mq2 = _ss.MediaQuery(qt)
        qm = [x for x in mm['items'] if x[0] == 'MediaQuery'][j][1]
        _cmp(fails, 'mediaquery', '%s.query[%d]' % (where, j), qm, extract_mediaquery(mq2), qt, mq2.mediaText)
        j += 1


# ------------------------------------------------------------------------------------------------- generator
_PROPS_KW = {
    'display': ['block', 'inline', 'none', 'inline-block', 'table-cell', 'list-item'],
    'position': ['static', 'relative', 'absolute', 'fixed'],
    'float': ['left', 'right', 'none'],
    'text-align': ['left', 'right', 'center', 'justify'],
    'visibility': ['visible', 'hidden', 'collapse'],
    'overflow': ['visible', 'hidden', 'scroll', 'auto'],
    'font-style': ['normal', 'italic', 'oblique'],
    'font-weight': ['normal', 'bold', 'bolder', '100', '400', '900'],
    'text-decoration': ['none', 'underline', 'overline', 'line-through', 'underline overline'],
    'white-space': ['normal', 'pre', 'nowrap', 'pre-wrap'],
    'border-style': ['none', 'solid', 'dashed', 'dotted double'],
    'page-break-after': ['auto', 'always', 'avoid'],
    'text-transform': ['capitalize', 'uppercase', 'lowercase', 'none'],
    'vertical-align': ['baseline', 'sub', 'super', 'top', 'middle', 'bottom'],
}
_LEN_UNITS = ['em', 'ex', 'px', 'cm', 'mm', 'in', 'pt', 'pc']
_OTHER_UNITS = ['rem', 'vw', 'vh', 'ch', 'deg', 'rad', 'grad', 'turn', 's', 'ms', 'hz', 'khz', 'dpi', 'dpcm', 'fr']
_NAMED = ['red', 'green', 'blue', 'black', 'white', 'transparent', 'orange', 'aqua', 'rebeccapurple', 'gray',
          'currentColor', 'inherit', 'Red', 'BLUE']
_IDENTS = ['a', 'b', 'div', 'span', 'p', 'h1', 'li', 'foo', 'bar', 'x', 'item', 'main', 'Body', 'TD', 'em', 'svg',
           'circle']
_NAMES = ['a', 'b', 'foo', 'bar-baz', 'x1', '_u', '-m', 'Cls', 'nav', 'active']
# identifiers that look like another token class: they are used at EVERY identifier position (type selectors, ids,
# classes, attribute names and ident values, value idents, @page names, unknown at-rule contents)
_HEXLIKE = ['abc', 'fff', 'aabbcc', 'ffffff', 'AABBCC', 'aAbBcC', 'ddeeff', 'abcdef', 'aabbccdd', 'deadbeef', 'bbb',
            'eeeeee', 'a1b2c3', 'facade', 'c0ffee', 'xxyyzz', 'ee11ee', 'aabbc', 'ffeedd']
_HEXLIKE_DIGIT = ['001122', '000', '112233', '123', '1a2b3c', '09f', '00ff00', '11223344']     # HASH only (ids)
_NUMLIKE = ['e3', 'E5', 'n', '-n', 'x10', '_1', '-e1', 'n-1', 'e-3']
_UNITLIKE = ['px', 'em', 'deg', 's', 'ms', 'hz', 'dpi', 'fr', 'PX']
_KEYWORDLIKE = ['important', 'and', 'not', 'only', 'or', 'url', 'all', 'inherit', 'initial', 'none', 'odd', 'even', 'from',
                'to', 'media', 'import', 'charset', 'U', 'u', 'progid', 'calc', 'rgb', 'attr', 'of', 'min-width', 'AND']
_COLOURLIKE = ['red', 'Blue', 'transparent', 'currentColor', 'gray', 'rebeccapurple']
_ESCAPED = ['a\\:b', 'a\\.b', '\\31 0', '\\31 px', 'x\\(y', '\\#a', 'a\\ b', '\\e9 t', '\xe9', 'a\\+b', '\\-a', 'a\\/b']
_ATTRS = ['href', 'title', 'lang', 'class', 'data-x', 'type', 'HREF']
_PCLASS = ['hover', 'link', 'visited', 'active', 'focus', 'first-child', 'last-child', 'only-child', 'empty',
           'root', 'target', 'enabled', 'disabled', 'checked', 'first-of-type', 'HOVER']
_PELEM = ['::before', '::after', '::first-line', '::first-letter', ':before', ':after', ':first-line',
          ':first-letter', '::selection', '::BEFORE']
_ANB = ['odd', 'even', '3', '2n', '2n+1', '-n+3', 'n', '+3n-2', '2n + 1', '-2n - 1', '2n+0', ' 2n + 1 ', '3n -1',
        '0n+5', 'n+2', '-n + 6', 'ODD', '10n-1', '+5']
_NTH = ['nth-child', 'nth-last-child', 'nth-of-type', 'nth-last-of-type']
_MEDIA_TYPES = ['screen', 'print', 'all', 'tv', 'handheld', 'projection', 'speech', 'braille', 'tty', 'embossed',
                'SCREEN', 'Print']
_MQ_FEATURES = [('min-width', 'len'), ('max-width', 'len'), ('min-height', 'len'), ('orientation', 'kw'),
                ('color', None), ('min-color', 'int'), ('monochrome', None), ('min-resolution', 'res'),
                ('aspect-ratio', 'ratio'), ('min-aspect-ratio', 'ratio'), ('max-device-width', 'len'),
                ('grid', None), ('scan', 'scan')]
_MARGINS = ['@top-left-corner', '@top-left', '@top-center', '@top-right', '@top-right-corner',
            '@bottom-left-corner', '@bottom-left', '@bottom-center', '@bottom-right', '@bottom-right-corner',
            '@left-top', '@left-middle', '@left-bottom', '@right-top', '@right-middle', '@right-bottom',
            '@Top-Left']
_URIS = ['http://www.w3.org/1999/xhtml', 'http://www.w3.org/2000/svg', 'http://example.com/ns', 'urn:x:y', 'u',
         'http://www.w3.org/1998/Math/MathML']
_PREFIXES = ['svg', 'h', 'x', 'm', 'ns1', 'SVG']
_UNKNOWN_PROPS = ['-webkit-foo', '-moz-bar', 'foo', 'x-prop', '-ms-filterish', 'zoom', '-o-thing']


# input features that trigger a known C03 finding; gen_sheet(rng, size, avoid=<subset>) does not emit them
TRIGGERS = (
    'round-int',          # a non-integer number that '%f' rounds to an integer (0.9999999, 0.0000001)
    'esc-dquote',         # \" inside a single-quoted string / url
    'esc-backslash',      # \\ inside a string / url
    'hex-backslash',      # \5c (a hex escaped backslash) inside a string
    'simple-escape',      # \g \- \' ... : escapes that stay in the string value
    'line-continuation',  # backslash newline inside a string
    'calc-space',         # calc() written without the canonical single spaces around operators / with padding,
                          # or any calc() inside a @page margin box (its white space tokens are stripped)
    'calc-ratio',         # calc(... <int-after-normalisation> / <int>): the serialised text ends in a RATIO token
    'ident-escape',       # identifiers spelled with escapes (a\\:b, \\31 0) at selector / value positions
    'unknown-hash',       # #AABBCC inside an unknown at-rule
    'unknown-slash-star', # '/ *' inside an unknown at-rule
    'pseudo-space',       # white space after '(' or before ')' of a functional pseudo-class
    'anb-minus-space',    # 'an - b' written with a space between '-' and b
    'ml-comment',         # a comment containing a newline
    'hash-min',           # #aabbcc that can be written #abc
    'dup-ns-uri',         # two @namespace rules (default + prefixed) with the same URI
    'non-utf8-charset',   # @charset other than utf-8
)


class _Gen(object):
    def __init__(self, rng, avoid=()):
        self.r = rng
        self.avoid = frozenset(avoid)
        unknown = self.avoid - set(TRIGGERS)
        if unknown:
            raise ValueError('unknown trigger names: %s' % sorted(unknown))
        self.prefixes = []
        self.defaultns = False
        self.useduris = []
        self.in_margin = False

    def no(self, trigger):
        return trigger in self.avoid

    def confusable(self, kind='ident'):
        """an identifier that looks like another token class; kind 'id' may also start with a digit (HASH token)"""
        x = self.r.random()
        if x < 0.40:
            pool = _HEXLIKE + (_HEXLIKE_DIGIT if kind == 'id' else [])
        elif x < 0.52:
            pool = _NUMLIKE
        elif x < 0.64:
            pool = _UNITLIKE
        elif x < 0.82:
            pool = _KEYWORDLIKE
        elif x < 0.90 or self.no('ident-escape'):
            pool = _COLOURLIKE
        else:
            pool = _ESCAPED
        return self.pick(pool)

    def name(self, pool, kind='ident', p=0.25):
        "a name from the ordinary pool, or (probability p) a confusable one"
        if self.chance(p):
            return self.confusable(kind)
        return self.pick(pool)

    # ---- layout helpers
    def chance(self, p):
        return self.r.random() < p

    def pick(self, xs):
        return xs[self.r.randrange(len(xs))]

    def ws(self):
        "optional white space"
        x = self.r.random()
        if x < 0.55:
            return ''
        if x < 0.85:
            return ' '
        return self.pick(['  ', '\n', '\t', ' \n ', '\r\n', '\f'])

    def ws1(self):
        "mandatory white space"
        x = self.r.random()
        if x < 0.8:
            return ' '
        return self.pick(['  ', '\n', '\t', ' \n  '])

    def comment(self):
        c = self.pick(['', ' c ', 'x', ' a b ', '*', ' ** ', ' multi\n line ', ' "q" ', " it's ",
                       ' {;} ', ' \u00e9 ', '/', ' / * ', '\n', ' \\ ', ' \\41 '])
        if '\n' in c and self.no('ml-comment'):
            c = ' one line '
        return '/*' + c + '*/'

    def cm(self, p=0.04):
        "optional comment (with surrounding optional white space)"
        if self.chance(p):
            return self.ws() + self.comment() + self.ws()
        return ''

    def case(self, s, p=0.06):
        "letter case variation"
        if self.chance(p):
            x = self.r.random()
            if x < 0.5:
                return s.upper()
            return ''.join(c.upper() if self.chance(0.5) else c for c in s)
        return s

    # ---- numbers
    def number(self, signed=True, nonneg=False):
        x = self.r.random()
        if x < 0.30:
            s = str(self.r.randrange(0, 20))
        elif x < 0.40:
            s = str(self.pick([100, 255, 360, 1000, 65535, 123456789]))
        elif x < 0.60:
            s = self.pick(['1.5', '0.25', '2.75', '0.5', '10.0', '1.50', '3.14', '0.1', '12.125', '99.9'])
        elif x < 0.72:
            s = self.pick(['.5', '.25', '.125', '.0', '.75', '.05'])
        elif x < 0.84:
            s = self.pick(['3.14159265358979', '0.333333333', '1.0000001', '2.9999999', '0.1234564', '0.1234565',
                           '0.1234567', '1234567.1234567', '0.000001', '1.00000049', '0.0000006',
                           '0.9999999', '00.50', '007', '1.000000', '123456789012.5', '16777216.5', '0.00001',
                           '99.9999995', '0.5000000', '2.50'])
            if self.chance(0.04):
                # below half a unit of the 6th decimal: rounds to zero
                s = self.pick(['0.0000001', '0.0000004', '.00000049'])
        elif x < 0.92:
            s = self.pick(['0', '0.0', '00', '.0', '0.000'])
        else:
            s = '%d.%d' % (self.r.randrange(0, 1000), self.r.randrange(0, 10 ** self.r.randrange(1, 9)))
        if self.no('round-int'):
            v = float(s)
            if v != int(v) and ('%f' % v).endswith('.000000'):
                s = '1.25'
        if signed and not nonneg:
            y = self.r.random()
            if y < 0.12:
                s = '-' + s
            elif y < 0.20:
                s = '+' + s
        elif signed and self.chance(0.05):
            s = '+' + s
        return s

    def length(self, nonneg=False):
        x = self.r.random()
        if x < 0.12:
            return self.pick(['0', '0px', '0.0em', '0pt', '-0px', '+0cm', '0.00mm', '0in', '0pc', '0ex', '0PX',
                              '.0em', '0rem', '0vw'])
        u = self.pick(_LEN_UNITS) if x < 0.85 else self.pick(['rem', 'vw', 'vh', 'ch'])
        return self.number(nonneg=nonneg) + self.case(u)

    def percentage(self, nonneg=False):
        if self.chance(0.1):
            return self.pick(['0%', '100%', '0.0%', '+50%'])
        return self.number(nonneg=nonneg) + '%'

    def dimension(self):
        u = self.pick(_OTHER_UNITS)
        if self.chance(0.1):
            return self.pick(['0', '0.0', '-0']) + u
        return self.number() + self.case(u)

    def integer(self):
        return str(self.r.randrange(0, 300))

    # ---- strings / urls
    def string(self, rich=True):
        q = self.pick(['"', "'"])
        o = "'" if q == '"' else '"'
        n = self.r.choice([0, 1, 1, 1, 2, 2, 3, 4])
        if not rich:
            return q + self.pick(['a', 'x y', 'utf-8', 'foo.css', 'A b', 'http://x/y', '']) + q
        out = []
        for _ in range(n):
            x = self.r.random()
            if x < 0.42:
                out.append(self.pick(['a', 'b c', 'Hello', 'x-y', '0', 'foo bar', ' ', 'Times New Roman', '1', 'Z',
                                      '  two  spaces ', 'fe', 'bad', 'd0']))
            elif x < 0.50:
                out.append(o)
            elif x < 0.56:
                out.append('\\' + q)
            elif x < 0.61:
                if o == '"' and self.no('esc-dquote'):
                    continue
                if o == "'" and self.no('simple-escape'):
                    continue
                out.append('\\' + o)
            elif x < 0.66:
                if self.no('esc-backslash'):
                    continue
                out.append('\\\\')
            elif x < 0.76:
                h = self.pick(['\\a ', '\\22 ', '\\27 ', '\\000041', '\\e9 ', '\\A ', '\\5c ', '\\41 b',
                               '\\d ', '\\c ', '\\9 ', '\\20 ', '\\1F600 ', '\\00e9x', '\\26 ', '\\7b ',
                               '\\A\n', '\\3b ', '\\00005C', '\\5C '])
                if h.lower().rstrip(' ').lstrip('\\0') == '5c' and self.no('hex-backslash'):
                    continue
                if h.endswith('\n') and self.no('line-continuation'):
                    continue
                out.append(h)
            elif x < 0.84:
                out.append(self.pick(['\u00e9', '\u00fc', '\u65e5\u672c', '\U0001F600', '\u2014', '\u00a0']))
            elif x < 0.88:
                out.append('/* not a comment */')
            elif x < 0.91:
                if self.no('line-continuation'):
                    continue
                out.append('\\\n')
            elif x < 0.93:
                if self.no('simple-escape'):
                    continue
                out.append(self.pick(['\\g', '\\-', '\\ ', '\\z', '\\(', '\\;']))
            else:
                out.append(self.pick([';', '{', '}', '(', ')', ',', '!', '@', '#', ':', 'url(x)', '\t', '*/', '/*',
                                      '!important', '<!--', '-->']))
        return q + ''.join(out) + q

    def url(self):
        x = self.r.random()
        kw = self.case('url')
        if x < 0.40:
            u = self.pick(['a.png', 'img/b.gif', 'http://example.com/a?b=c&d=1', 'data:image/png;base64,AAA=',
                           '../x.css', '#frag', 'a%20b.png', 'x_y-z.svg', 'foo.css', '//cdn/x.js',
                           'a.png?x=1;y=2'.replace(';', '%3B')])
            if self.chance(0.25):
                return kw + '(' + self.ws() + u + self.ws() + ')'
            return kw + '(' + u + ')'
        if x < 0.85:
            q = self.pick(['"', "'"])
            o = "'" if q == '"' else '"'
            u = self.pick(['a b.png', 'a(1).png', 'a.png', 'x' + o + 'y.png', 'a\\' + q + 'b.png', 'a;b.png',
                           'a,b.png', ' lead.png', 'http://example.com/a (b)/c', 'a\\\\b.png', '\u00e9.png',
                           'a)b(', 'x\\' + o + 'y', 'a\\20 b.png', ''])
            if ('\\\\' in u and self.no('esc-backslash')) or \
               ('\\"' in u and q == "'" and self.no('esc-dquote')) or \
               ("\\'" in u and q == '"' and self.no('simple-escape')):
                u = 'plain.png'
            if self.chance(0.25):
                return kw + '(' + self.ws() + q + u + q + self.ws() + ')'
            return kw + '(' + q + u + q + ')'
        return kw + '(' + self.string() + ')'

    # ---- colours
    def hexcolor(self):
        d = '0123456789abcdefABCDEF'
        x = self.r.random()
        if x < 0.25:
            return self._hash(self.pick(['#abc', '#aabbcc', '#AABBCC', '#fff', '#000000', '#FfFfFf', '#112233',
                                         '#a1b2c3', '#AbCdEf', '#00ff00', '#F00']))
        n = 3 if x < 0.6 else 6
        h = ''.join(self.pick(d) for _ in range(n))
        if n == 6 and self.chance(0.15):
            h = ''.join(c + c for c in h[:3])
        return self._hash('#' + h)

    def _hash(self, h):
        if self.no('hash-min') and len(h) == 7 and h[1] == h[2] and h[3] == h[4] and h[5] == h[6]:
            return h[:6] + ('0' if h[6] != '0' else '1')
        return h

    def colorfunc(self):
        x = self.r.random()
        c = ',' + self.ws() if self.chance(0.8) else self.ws() + ',' + self.ws()
        o = self.ws() if self.chance(0.2) else ''
        if x < 0.30:
            a = [self.integer() for _ in range(3)]
            return self.case('rgb') + '(' + o + c.join(a) + o + ')'
        if x < 0.45:
            a = [self.pick(['0%', '50%', '100%', '12.5%', '33.3333333%']) for _ in range(3)]
            return 'rgb(' + o + c.join(a) + o + ')'
        if x < 0.70:
            a = [self.integer() for _ in range(3)] + [self.pick(['0', '1', '0.5', '.5', '0.25', '1.0', '0.333333333'])]
            return self.case('rgba') + '(' + o + c.join(a) + o + ')'
        if x < 0.85:
            a = [self.integer(), self.pick(['0%', '50%', '100%']), self.pick(['25%', '50%', '75.5%'])]
            return 'hsl(' + o + c.join(a) + o + ')'
        a = [self.integer(), self.pick(['0%', '50%', '100%']), self.pick(['25%', '50%']),
             self.pick(['0', '1', '0.5', '.75'])]
        return 'hsla(' + o + c.join(a) + o + ')'

    def color(self):
        x = self.r.random()
        if x < 0.35:
            return self.hexcolor()
        if x < 0.65:
            return self.pick(_NAMED)
        return self.colorfunc()

    # ---- functions / calc
    def calc(self, depth=0):
        def operand():
            y = self.r.random()
            if y < 0.5:
                return self.length()
            if y < 0.7:
                return self.percentage()
            if y < 0.9:
                return self.number(signed=False)
            return self.dimension()
        if self.in_margin and self.no('calc-space'):
            return self.length()
        x = self.r.random()
        o = self.ws() if self.chance(0.2) and not self.no('calc-space') else ''
        if x < 0.18 and depth < 2:
            inner = '(' + o + operand() + ' ' + self.pick('+-*/') + ' ' + operand() + o + ')'
            if self.chance(0.5):
                body = inner + ' ' + self.pick('*/') + ' ' + self.number(signed=False)
            else:
                body = operand() + ' ' + self.pick('+-') + ' ' + inner
            return self.case('calc') + '(' + o + body + o + ')'
        n = self.r.choice([1, 2, 2, 2, 3])
        parts = [operand()]
        for _ in range(n - 1):
            op = self.pick(['+', '-', '*', '/'])
            if op in '*/' and self.chance(0.3) and not self.no('calc-space'):
                parts.append(op)
            elif self.no('calc-space'):
                parts.append(' ' + op + ' ')
            else:
                parts.append(' ' + op + self.ws1())
            if op == '/' and self.no('calc-ratio'):
                parts.append(self.pick(['2.5', '1.5', '0.5', '3.25']))
            else:
                parts.append(operand() if op in '+-' else self.number(signed=False))
        return self.case('calc') + '(' + o + ''.join(parts) + o + ')'

    def function(self, depth=0):
        x = self.r.random()
        c = ',' + self.ws() if self.chance(0.8) else self.ws() + ',' + self.ws()
        if x < 0.12:
            return 'attr(' + self.pick(['x', 'title', 'data-n', 'href']) + ')'
        if x < 0.22:
            return 'counter(' + self.pick(['a', 'item', 'page']) + ')'
        if x < 0.32:
            return 'counter(' + self.pick(['a', 'item']) + c + self.pick(['b', 'decimal', 'upper-roman']) + ')'
        if x < 0.38:
            return 'counters(' + self.pick(['a', 'item']) + c + self.string() + ')'
        if x < 0.50:
            return self.case('translate') + '(' + self.length() + c + self.length() + ')'
        if x < 0.57:
            return 'rotate(' + self.number() + self.pick(['deg', 'rad', 'turn', 'grad']) + ')'
        if x < 0.63:
            return 'scale(' + self.number() + ')'
        if x < 0.70:
            return 'cubic-bezier(' + c.join(self.pick(['0.1', '0.7', '1.0', '.25', '0', '1']) for _ in range(4)) + ')'
        if x < 0.80:
            stops = [self.color() + (' ' + self.percentage(nonneg=True) if self.chance(0.4) else '')
                     for _ in range(self.r.randrange(2, 4))]
            first = self.pick(['to right', 'to bottom left', '45deg', 'top', ''])
            return 'linear-gradient(' + c.join(([first] if first else []) + stops) + ')'
        if x < 0.86 and depth < 2:
            return self.pick(['foo', 'bar', 'fn-x']) + '(' + self.function(depth + 1) + c + self.number() + ')'
        if x < 0.90:
            return self.pick(['foo', 'steps', 'rect']) + '(' + self.ws() + ')' if self.chance(0.3) else \
                'steps(' + self.integer() + c + self.pick(['start', 'end']) + ')'
        if x < 0.94:
            return 'var(' + self.pick(['x', 'main-color', 'Gap']) + ')'
        if x < 0.97:
            return 'format(' + self.string(rich=False) + ')'
        return 'local(' + self.string(rich=False) + ')'

    # ---- values
    def term(self):
        x = self.r.random()
        if x < 0.14:
            return self.name(['auto', 'none', 'inherit', 'solid', 'bold', 'serif', 'Arial', 'initial', 'left',
                              'center', 'open-quote', 'x-large', 'NONE', '-moz-box', 'sans-serif', '_x', 'a1-b2'], p=0.2)
        if x < 0.26:
            return self.number()
        if x < 0.40:
            return self.length()
        if x < 0.47:
            return self.percentage()
        if x < 0.53:
            return self.dimension()
        if x < 0.63:
            return self.string()
        if x < 0.70:
            return self.url()
        if x < 0.80:
            return self.color()
        if x < 0.90:
            return self.function()
        return self.calc()

    def anyvalue(self):
        n = self.r.choice([1, 1, 1, 2, 2, 3, 4])
        out = [self.term()]
        for _ in range(n - 1):
            x = self.r.random()
            if x < 0.70:
                out.append(self.ws1())
            elif x < 0.88:
                out.append(self.ws() + ',' + self.ws())
            else:
                out.append(self.ws() + '/' + self.ws())
            if self.chance(0.03):
                out.append(self.comment() + ' ')
            out.append(self.term())
        return ''.join(out)

    def lengths(self, n, auto=False, nonneg=False):
        out = []
        for _ in range(n):
            x = self.r.random()
            if auto and x < 0.1:
                out.append('auto')
            elif x < 0.8:
                out.append(self.length(nonneg=nonneg))
            else:
                out.append(self.percentage(nonneg=nonneg))
        return self.ws1().join(out)

    def fontfamily(self):
        fams = [self.string() if self.chance(0.5) else self.pick(['serif', 'sans-serif', 'monospace', 'Arial',
                                                                   'Times', 'Helvetica Neue', 'cursive'])
                for _ in range(self.r.randrange(1, 4))]
        return (',' + self.ws()).join(fams)

    def typed_decl(self):
        "(name, value) with a value that is mostly valid for the property"
        x = self.r.random()
        if x < 0.10:
            return self.pick(['color', 'background-color', 'border-color', 'outline-color']), self.color()
        if x < 0.20:
            n = self.pick(['margin', 'padding'])
            return n, self.lengths(self.r.randrange(1, 5), auto=(n == 'margin'), nonneg=(n == 'padding'))
        if x < 0.30:
            n = self.pick(['width', 'height', 'top', 'left', 'max-width', 'min-height', 'margin-left', 'text-indent'])
            y = self.r.random()
            if y < 0.6:
                return n, self.length(nonneg=n in ('width', 'height', 'max-width', 'min-height'))
            if y < 0.75:
                return n, self.percentage()
            if y < 0.85:
                return n, 'auto'
            return n, self.calc()
        if x < 0.36:
            return 'font-size', self.pick([self.length(nonneg=True), self.percentage(nonneg=True), 'x-large',
                                           'smaller', 'medium'])
        if x < 0.42:
            return 'font-family', self.fontfamily()
        if x < 0.48:
            parts = []
            if self.chance(0.4):
                parts.append(self.pick(['italic', 'oblique', 'normal']))
            if self.chance(0.4):
                parts.append(self.pick(['bold', '600', 'small-caps']))
            size = self.length(nonneg=True)
            if self.chance(0.5):
                size += self.ws() + '/' + self.ws() + self.pick([self.number(signed=False), self.length(nonneg=True),
                                                                 '120%', 'normal'])
            parts.append(size)
            parts.append(self.fontfamily())
            return 'font', ' '.join(parts)
        if x < 0.52:
            return 'line-height', self.pick([self.number(signed=False), self.length(nonneg=True), '150%', 'normal'])
        if x < 0.60:
            parts = [self.pick([self.string(), self.string(), self.function(), self.url(), 'open-quote',
                                'close-quote', 'counter(a)', 'attr(title)', 'normal'])
                     for _ in range(self.r.randrange(1, 4))]
            return 'content', self.ws1().join(parts)
        if x < 0.64:
            return self.pick(['z-index', 'orphans', 'widows']), self.pick([self.integer(), '-1', 'auto', '+2'])
        if x < 0.67:
            return 'opacity', self.pick(['0', '1', '0.5', '.5', '0.333333333', '1.0', '0.0'])
        if x < 0.73:
            n = self.pick(['border', 'border-top', 'outline', 'border-left'])
            parts = [self.length(nonneg=True), self.pick(['solid', 'dashed', 'none', 'double']), self.color()]
            self.r.shuffle(parts)
            return n, ' '.join(parts[:self.r.randrange(1, 4)])
        if x < 0.81:
            n = self.pick(list(_PROPS_KW))
            return n, self.case(self.pick(_PROPS_KW[n]), 0.03)
        if x < 0.85:
            fs = [self.pick(['translate(%s, %s)' % (self.length(), self.length()),
                             'rotate(%sdeg)' % self.number(), 'scale(%s)' % self.number(signed=False),
                             'translateX(%s)' % self.length()]) for _ in range(self.r.randrange(1, 3))]
            return self.pick(['transform', '-webkit-transform']), ' '.join(fs)
        if x < 0.88:
            return 'quotes', ' '.join(self.string() for _ in range(self.pick([2, 4])))
        if x < 0.93:
            n = self.pick(['background', 'background-image', 'list-style-image', 'cursor'])
            if n == 'background':
                parts = [self.url(), self.color(), self.pick(['no-repeat', 'repeat-x']),
                         self.pick(['top left', '50% 50%', '0 0', 'center'])]
                self.r.shuffle(parts)
                return n, ' '.join(parts[:self.r.randrange(1, 5)])
            if n == 'cursor':
                return n, (self.url() + ', ' if self.chance(0.6) else '') + self.pick(['pointer', 'auto', 'default'])
            return n, self.pick([self.url(), self.url(), 'none'])
        if x < 0.96:
            sh = []
            for _ in range(self.r.randrange(1, 3)):
                p = [self.length(), self.length()]
                if self.chance(0.5):
                    p.append(self.length(nonneg=True))
                if self.chance(0.7):
                    p.append(self.color())
                sh.append(' '.join(p))
            return self.pick(['text-shadow', 'box-shadow']), (',' + self.ws()).join(sh)
        return self.pick(['transition-duration', 'animation-delay']), \
            ', '.join(self.number(signed=False) + self.pick(['s', 'ms']) for _ in range(self.r.randrange(1, 3)))

    def declaration(self, kind='style'):
        x = self.r.random()
        if kind == 'fontface':
            if x < 0.25:
                name, value = 'font-family', self.pick([self.string(), 'MyFont', self.string(rich=False)])
            elif x < 0.50:
                srcs = []
                for _ in range(self.r.randrange(1, 3)):
                    y = self.r.random()
                    if y < 0.7:
                        s = self.url()
                        if self.chance(0.6):
                            s += ' format(' + self.pick(['"woff"', "'truetype'", '"woff2"', '"embedded-opentype"']) + ')'
                    else:
                        s = 'local(' + self.pick(['"X Y"', "'Z'", 'Arial']) + ')'
                    srcs.append(s)
                name, value = 'src', (',' + self.ws()).join(srcs)
            elif x < 0.75:
                rs = [self.pick(['U+0-7F', 'u+0025-00FF', 'U+4??', 'U+26', 'U+0-7f', 'U+1F600-1F64F', 'u+a5',
                                 'U+00??', 'U+ABCDEF'])
                      for _ in range(self.r.randrange(1, 4))]
                name, value = 'unicode-range', (',' + self.ws()).join(rs)
            elif x < 0.9:
                name, value = self.pick([('font-weight', 'bold'), ('font-style', 'italic'), ('font-weight', '400'),
                                         ('font-stretch', 'condensed'), ('font-variant', 'small-caps')])
            else:
                name, value = self.typed_decl()
        elif kind == 'page' and x < 0.5:
            name, value = self.pick([('size', self.pick(['8.5in 11in', 'A4 landscape', 'auto', 'letter',
                                                         self.length(nonneg=True) + ' ' + self.length(nonneg=True)])),
                                     ('margin', self.lengths(self.r.randrange(1, 5))),
                                     ('marks', self.pick(['crop', 'cross', 'crop cross', 'none'])),
                                     ('margin-top', self.length()),
                                     ('orphans', self.integer())])
        elif x < 0.62:
            name, value = self.typed_decl()
        elif x < 0.80:
            # a real property with a value of any kind: the validity verdict is usually False
            name = self.pick(['color', 'margin', 'width', 'font-size', 'content', 'background', 'display',
                              'font-family', 'border', 'line-height'])
            value = self.anyvalue()
        else:
            name, value = self.pick(_UNKNOWN_PROPS), self.anyvalue()
        name = self.case(name)
        out = name + self.ws() + ':' + self.ws() + value
        if self.chance(0.12):
            out += self.ws() + '!' + self.ws() * self.chance(0.2) + self.case('important', 0.15)
        return out

    def block(self, kind='style', lo=1, hi=5, extra=None):
        "declaration block body (without braces)"
        n = self.r.randrange(lo, hi + 1)
        items = [self.declaration(kind) for _ in range(n)]
        if extra:
            for e in extra:
                items.insert(self.r.randrange(0, len(items) + 1), e)
        out = [self.ws()]
        for i, it in enumerate(items):
            if self.chance(0.06):
                out.append(self.comment() + self.ws())
            out.append(it)
            ismargin = it.startswith('@')
            last = i == len(items) - 1
            if ismargin:
                out.append(self.ws())
            elif not last or self.chance(0.6):
                out.append(self.ws() + ';' + self.ws())
                if self.chance(0.02):
                    out.append(';' + self.ws())
            else:
                out.append(self.ws())
        if self.chance(0.04):
            out.append(self.comment() + self.ws())
        return ''.join(out)

    # ---- selectors
    def nsprefix(self, attr=False):
        "namespace prefix incl. the bar, or ''"
        x = self.r.random()
        if attr:
            if x < 0.8:
                return ''
        elif x < 0.72:
            return ''
        y = self.r.random()
        if self.prefixes and y < 0.5:
            return self.pick(self.prefixes) + '|'
        if y < 0.75:
            return '*|'
        return '|'

    def typesel(self):
        if self.chance(0.2):
            return self.nsprefix() + '*'
        return self.nsprefix() + self.name(_IDENTS, p=0.15)

    def attrib(self):
        o = self.ws() if self.chance(0.2) else ''
        name = self.nsprefix(attr=True) + self.name(_ATTRS, p=0.15)
        if self.chance(0.25):
            return '[' + o + name + o + ']'
        op = self.pick(['=', '~=', '|=', '^=', '$=', '*='])
        if self.chance(0.5):
            val = self.name(['x', 'en', 'foo', 'a-b', 'EN', '_v'])
        else:
            val = self.string()
        o2 = self.ws() if self.chance(0.2) else ''
        return '[' + o + name + o2 + op + o2 + val + o + ']'

    def pseudo(self, in_not=False):
        x = self.r.random()
        if x < 0.55:
            return ':' + self.pick(_PCLASS)
        if x < 0.85:
            anb = self.pick(_ANB)
            if self.no('anb-minus-space') and '- ' in anb:
                anb = '2n-1'
            if self.no('pseudo-space'):
                anb = anb.strip()
            return ':' + self.case(self.pick(_NTH)) + '(' + anb + ')'
        if x < 0.93:
            lg = self.pick(['en', 'de-DE', 'fr', ' en '])
            if self.no('pseudo-space'):
                lg = lg.strip()
            return ':lang(' + lg + ')'
        return ':' + self.pick(['nth-child(2n+1)', 'nth-of-type(odd)', 'lang(en)', 'first-child', 'hover'])

    def simple(self, in_not=False):
        x = self.r.random()
        if x < 0.25:
            return '#' + self.name(_NAMES[:8], 'id', 0.35)
        if x < 0.60:
            return '.' + self.name(_NAMES, p=0.3)
        if x < 0.78:
            return self.attrib()
        return self.pseudo(in_not)

    def negation(self):
        o = self.ws() if self.chance(0.2) else ''
        x = self.r.random()
        if x < 0.3:
            arg = self.typesel()
        else:
            arg = self.simple(in_not=True)
        return ':' + self.case('not') + '(' + o + arg + o + ')'

    def compound(self, last=False):
        parts = []
        if self.chance(0.65):
            parts.append(self.typesel())
        n = self.r.choice([0, 0, 1, 1, 1, 2, 3])
        if not parts and n == 0:
            n = 1
        for _ in range(n):
            if self.chance(0.10):
                parts.append(self.negation())
            else:
                parts.append(self.simple())
        if last and self.chance(0.10):
            parts.append(self.pick(_PELEM))
        return ''.join(parts)

    def selector(self):
        n = self.r.choice([1, 1, 1, 2, 2, 3, 4])
        out = []
        for i in range(n):
            if i:
                x = self.r.random()
                if x < 0.5:
                    out.append(self.ws1())
                else:
                    out.append(self.ws() + self.pick(['>', '+', '~']) + self.ws())
            out.append(self.compound(last=(i == n - 1)))
            if self.chance(0.015):
                out.append(self.comment())
        return ''.join(out)

    def selector_list(self):
        n = self.r.choice([1, 1, 1, 1, 2, 2, 3])
        return (self.ws() + ',' + self.ws()).join(self.selector() for _ in range(n))

    # ---- media
    def media_feature(self):
        name, kind = self.pick(_MQ_FEATURES)
        o = self.ws() if self.chance(0.2) else ''
        if kind is None or self.chance(0.08):
            return '(' + o + name + o + ')'
        if kind == 'len':
            v = self.length(nonneg=True)
        elif kind == 'kw':
            v = self.pick(['landscape', 'portrait'])
        elif kind == 'int':
            v = self.integer()
        elif kind == 'res':
            v = self.number(signed=False) + self.pick(['dpi', 'dpcm', 'dppx'])
        elif kind == 'ratio':
            v = self.pick(['16/9', '4/3', '1/1', '16 / 9', '2/1'])
        else:
            v = self.pick(['progressive', 'interlace'])
        return '(' + o + self.case(name, 0.03) + o + ':' + self.ws() + v + o + ')'

    def media_query(self):
        x = self.r.random()
        AND = self.case('and', 0.05)
        if x < 0.40:
            return self.pick(_MEDIA_TYPES)
        if x < 0.65:
            q = self.pick(_MEDIA_TYPES)
            for _ in range(self.r.randrange(1, 3)):
                q += self.ws1() + AND + self.ws1() + self.media_feature()
            return q
        if x < 0.80:
            q = self.case(self.pick(['not', 'only']), 0.05) + self.ws1() + self.pick(_MEDIA_TYPES)
            for _ in range(self.r.randrange(0, 3)):
                q += self.ws1() + AND + self.ws1() + self.media_feature()
            return q
        q = self.media_feature()
        for _ in range(self.r.randrange(0, 2)):
            q += self.ws1() + AND + self.ws1() + self.media_feature()
        return q

    def media_list(self):
        n = self.r.choice([1, 1, 1, 2, 2, 3])
        return (self.ws() + ',' + self.ws()).join(self.media_query() for _ in range(n))

    # ---- rules
    def style_rule(self):
        return self.selector_list() + self.ws() + self.cm(0.02) + '{' + self.block('style') + '}'

    def page_rule(self):
        sel = ''
        x = self.r.random()
        if x < 0.35:
            sel = ''
        elif x < 0.65:
            sel = ' :' + self.pick(['first', 'left', 'right'])
        elif x < 0.85:
            sel = ' ' + self.name(['name', 'cover', 'Chapter'])
        else:
            sel = ' ' + self.pick(['name', 'toc']) + ':' + self.pick(['first', 'left', 'right'])
        extra = []
        if self.chance(0.45):
            self.in_margin = True
            for _ in range(self.r.randrange(1, 3)):
                extra.append(self.pick(_MARGINS) + self.ws() + '{' + self.block('style', 1, 2) + '}')
            self.in_margin = False
        lo = 0 if extra else 1
        return self.case('@page') + sel + self.ws() + '{' + self.block('page', lo, 3, extra) + '}'

    def font_face(self):
        return self.case('@font-face') + self.ws() + self.cm(0.03) + '{' + self.block('fontface', 1, 4) + '}'

    def unknown_rule(self):
        if self.chance(0.2):
            body = ' '.join(('#' if self.chance(0.3) and not self.no('unknown-hash') else '') + self.confusable()
                            for _ in range(self.r.randrange(1, 4)))
            return '@' + self.pick(['foo', 'x-y']) + ' ' + body + self.pick([';', ' { a: b }'])
        return self.pick(['@foo bar;', '@foo {a:b}', '@three-dee { a { b: c } }', '@foo "str" url(x) 12px;',
                          '@-moz-document url-prefix() { a { color: red } }', '@bar x, y (z) [w];',
                          "@foo 'it' 1.50em #AABBCC;", '@keyframes k { from { top: 0px } to { top: 10.50px } }',
                          '@supports (display: grid) { a { display: grid } }', '@foo;', '@foo{}',
                          '@viewport { width: device-width; }', '@foo bar { a: "x\\"y" }',
                          '@foo a / * b;' if not self.no('unknown-slash-star') else '@foo a / b;',
                          '@foo #AABBCC { x: #112233 }' if not self.no('unknown-hash') else '@foo #AABBCD { x: y }',
                          ]).replace('#AABBCC', '#AABBCC' if not self.no('unknown-hash') else '#AABBCD')

    def media_rule(self, depth=0):
        n = self.r.randrange(1, 4)
        inner = [self.ws()]
        for _ in range(n):
            x = self.r.random()
            if x < 0.68:
                inner.append(self.style_rule())
            elif x < 0.78 and depth < 2:
                inner.append(self.media_rule(depth + 1))
            elif x < 0.88:
                inner.append(self.page_rule())
            elif x < 0.95:
                inner.append(self.comment())
            else:
                inner.append(self.unknown_rule())
            inner.append(self.ws())
        name = ''
        if self.chance(0.04):
            name = ' ' + self.string(rich=False)
        return self.case('@media') + self.ws1() + self.cm(0.02) + self.media_list() + name + self.ws() + '{' + \
            ''.join(inner) + '}'

    def import_rule(self):
        href = self.url() if self.chance(0.55) else self.string(rich=self.chance(0.5))
        while href in ('""', "''") or re.match(r'''(?i)url\(\s*(""|'')?\s*\)$''', href):
            href = self.pick(['"a.css"', "'b.css'", 'url(c.css)'])
        out = self.case('@import') + self.ws1() + self.cm(0.03) + href
        if self.chance(0.45):
            # the @import parser starts a media list at an IDENT only: the first query names a media type
            ml = self.media_list()
            while ml.startswith('('):
                ml = self.media_list()
            out += self.ws1() + ml
        if self.chance(0.06):
            out += ' ' + self.pick(['"nm"', "'a b'", '"x"'])
        return out + self.ws() + ';'

    def namespace_rule(self):
        uri = self.pick(_URIS)
        if self.no('dup-ns-uri'):
            free = [u for u in _URIS if u not in self.useduris]
            if not free:
                return None
            uri = self.pick(free)
        self.useduris.append(uri)
        q = self.pick(['"', "'"])
        if self.chance(0.8):
            u = q + uri + q
        else:
            qq = self.pick(['', '"', "'"])
            u = 'url(' + qq + uri + qq + ')'
        if not self.defaultns and self.chance(0.35):
            self.defaultns = True
            return self.case('@namespace') + self.ws1() + self.cm(0.03) + u + self.ws() + ';'
        free = [p for p in _PREFIXES if p not in self.prefixes]
        if not free:
            return None
        p = self.pick(free)
        self.prefixes.append(p)
        return self.case('@namespace') + self.ws1() + p + self.ws1() + u + self.ws() + ';'

    def sheet(self, size):
        out = []
        sep = lambda: self.pick(['\n', '\n', '\n', ' ', '', '\n\n', '\r\n', '\n  '])
        if self.chance(0.25):
            if self.chance(0.93) or self.no('non-utf8-charset'):
                out.append('@charset ' + self.pick(['"utf-8"', '"UTF-8"', '"utf-8"', "'utf-8'"]) + ';')
            else:
                out.append('@charset ' + self.pick(['"ascii"', '"us-ascii"', '"iso-8859-1"']) + ';')
            out.append(sep())
        if self.chance(0.1):
            out.append(self.comment() + sep())
        if self.chance(0.25):
            for _ in range(self.r.randrange(1, 3)):
                out.append(self.import_rule() + sep())
                if self.chance(0.1):
                    out.append(self.comment() + sep())
        if self.chance(0.3):
            for _ in range(self.r.randrange(1, 4)):
                nr = self.namespace_rule()
                if nr:
                    out.append(nr + sep())
        n = self.r.randrange(1, max(1, size) + 1)
        for _ in range(n):
            x = self.r.random()
            if x < 0.58:
                out.append(self.style_rule())
            elif x < 0.72:
                out.append(self.media_rule())
            elif x < 0.80:
                out.append(self.page_rule())
            elif x < 0.87:
                out.append(self.font_face())
            elif x < 0.94:
                out.append(self.comment())
            else:
                out.append(self.unknown_rule())
            out.append(sep())
        return ''.join(out)


def gen_sheet(rng, size=6, avoid=()):
    """random well-formed style sheet text over the documented grammar; reproducible from the rng state.
    `avoid` is a subset of TRIGGERS: input features (each the trigger of one known finding) not to emit"""
    return _Gen(rng, avoid).sheet(size)


# ------------------------------------------------------------------------------------------------- coverage
def _cov_value_items(items, c, top=True):
    for it in items:
        k = it[0]
        if k == 'NUM':
            s, dim = it[1], it[2]
            if dim is None:
                c['value.number'] += 1
            elif dim == '%':
                c['value.percentage'] += 1
            elif dim in _ZERO_UNITS:
                c['value.length'] += 1
            else:
                c['value.dimension-other'] += 1
            if s == '0':
                c['value.num-zero'] += 1
            if s.startswith('+'):
                c['value.num-plus-sign'] += 1
            if s.startswith('-'):
                c['value.num-negative'] += 1
            if '.' in s:
                c['value.num-decimal'] += 1
                if len(s.split('.')[1]) >= 6:
                    c['value.num-6-decimals'] += 1
        elif k == 'COLOR':
            c['value.color-' + str(it[1]).lower()] += 1
            if it[1] == 'FUNCTION':
                fn = [x for x in it[2] if x[0] == 'FUNCTION']
                if fn:
                    c['value.colorfn-' + str(fn[0][1])] += 1
                _cov_value_items(it[2], c, False)
        elif k == 'URI':
            c['value.uri'] += 1
            if re.search(r'''[\s()'",;]''', it[1] or ''):
                c['value.uri-needs-quotes'] += 1
        elif k == 'CALC':
            c['value.calc'] += 1
            for x in it[1]:
                if x[0] == 'CHAR' and x[1] in ('+', '-', '*', '/'):
                    c['value.calc-op' + x[1]] += 1
        elif k == 'FUNCTION':
            c['value.function'] += 1
            fn = [x for x in it[1] if x[0] == 'FUNCTION']
            if fn:
                c['value.fn-' + str(fn[0][1])] += 1
            _cov_value_items([x for x in it[1] if x[0] != 'FUNCTION'], c, False)
        elif k == 'VAR':
            c['value.var'] += 1
        elif k == 'MS':
            c['value.msvalue'] += 1
        elif k == 'STRING':
            c['value.string'] += 1
            _cov_string(it[1], c)
        elif k == 'IDENT':
            c['value.ident'] += 1
        elif k == 'UNICODE-RANGE':
            c['value.unicode-range'] += 1
        elif k == 'HASH':
            c['value.hash-noncolor'] += 1
        elif k == 'COMMENT':
            c['value.comment'] += 1
        elif k == 'operator' and top:
            c['value.operator' + str(it[1])] += 1


def _cov_string(s, c):
    if s is None:
        return
    if '"' in s:
        c['string.has-dquote'] += 1
    if "'" in s:
        c['string.has-squote'] += 1
    if '\\' in s:
        c['string.has-backslash'] += 1
    if '\n' in s or '\r' in s or '\f' in s:
        c['string.has-newline'] += 1
    if any(ord(ch) > 127 for ch in s):
        c['string.has-nonascii'] += 1
    if '/*' in s:
        c['string.has-comment-like'] += 1
    if s == '':
        c['string.empty'] += 1


def _cov_style(sm, c, ctx):
    for p in sm['props']:
        c['decl'] += 1
        c['decl.valid' if p['valid'] else 'decl.invalid'] += 1
        if p['priority']:
            c['decl.important'] += 1
        if p['name'].startswith('-') or p['name'] in ('foo', 'x-prop', 'zoom'):
            c['decl.unknown-or-vendor-name'] += 1
        _cov_value_items(p['value']['items'], c)
    for l in sm['layout']:
        if l != 'P' and l[0] == 'COMMENT':
            c['decl.comment-in-block'] += 1


def _cov_medialist(mm, c):
    qs = [x[1] for x in mm['items'] if x[0] == 'MediaQuery']
    c['media.lists'] += 1
    if len(qs) > 1:
        c['media.several-queries'] += 1
    for q in qs:
        c['media.query'] += 1
        idents = [x[1].lower() for x in q['seq'] if x[0] == 'IDENT' and isinstance(x[1], str)]
        if 'not' in idents[:1]:
            c['media.not'] += 1
        if 'only' in idents[:1]:
            c['media.only'] += 1
        if 'and' in idents:
            c['media.and-expression'] += 1
        if q['seq'] and q['seq'][0] == ['CHAR', '(']:
            c['media.expression-first'] += 1
        if any(x[0] == 'NUM' for x in q['seq']):
            c['media.feature-number'] += 1
        if any(x[0] == 'RATIO' for x in q['seq']):
            c['media.feature-ratio'] += 1


def _cov_selector(sm, c):
    c['selector'] += 1
    for t, v in sm['seq']:
        c['sel.' + t] += 1
        if isinstance(v, list):
            ns = v[0]
            tag = 'any' if ns == -1 else ('none-default' if ns is None else ('empty' if ns == '' else 'uri'))
            c['sel.ns-%s' % tag] += 1
        if t == 'pseudo-class' and isinstance(v, str) and v.endswith('('):
            c['sel.functional-' + v] += 1
        if t == 'STRING':
            _cov_string(v, c)


def _cov_rule(rm, c, depth=0):
    t = rm['type']
    c['rule.' + t + ('.nested' if depth else '')] += 1
    if t == 'STYLE_RULE':
        if len(rm['selectors']) > 1:
            c['sel.list'] += 1
        for s in rm['selectors']:
            _cov_selector(s, c)
        _cov_style(rm['style'], c, 'style')
    elif t == 'FONT_FACE_RULE':
        _cov_style(rm['style'], c, 'fontface')
    elif t == 'MARGIN_RULE':
        _cov_style(rm['style'], c, 'margin')
    elif t == 'PAGE_RULE':
        kinds = [x[0] for x in rm['selector']]
        c['page.sel-' + ('+'.join(kinds) if kinds else 'none')] += 1
        _cov_style(rm['style'], c, 'page')
        for r in rm['rules']:
            _cov_rule(r, c, depth + 1)
    elif t == 'MEDIA_RULE':
        _cov_medialist(rm['media'], c)
        if rm['name']:
            c['media.named'] += 1
        for r in rm['rules']:
            _cov_rule(r, c, depth + 1)
    elif t == 'IMPORT_RULE':
        c['import.' + str(rm['hreftype'])] += 1
        qs = [x for x in rm['media']['items'] if x[0] == 'MediaQuery']
        if not (len(qs) == 1 and qs[0][1]['mediaType'] == 'all' and len(qs[0][1]['seq']) == 1):
            c['import.with-media'] += 1
            _cov_medialist(rm['media'], c)
        if rm['name']:
            c['import.named'] += 1
    elif t == 'NAMESPACE_RULE':
        c['namespace.' + ('prefixed' if rm['prefix'] else 'default')] += 1
    elif t == 'UNKNOWN_RULE':
        c['unknown.' + ('block' if ['CHAR', '{'] in rm['tokens'] else 'semicolon')] += 1


def coverage(text):
    "feature counts of what survived the first parse of `text`"
    from collections import Counter
    _setup()
    c = Counter()
    m = extract_sheet(_parse(text))
    for r in m['rules']:
        _cov_rule(r, c)
    c['sheets'] += 1
    return dict(c)


# ------------------------------------------------------------------------------------------------- shrinking
def _scan(text):
    """bracket / string / comment aware scan: yields (index, char, depth) for structural characters that are
    outside strings, comments and url() bodies; depth is the nesting depth BEFORE the character"""
    out = []
    i, n = 0, len(text)
    depth = 0
    while i < n:
        ch = text[i]
        if ch == '\\' and i + 1 < n:
            i += 2
            continue
        if ch in '"\'':
            j = i + 1
            while j < n and text[j] != ch:
                if text[j] == '\\':
                    j += 1
                j += 1
            i = j + 1
            continue
        if text.startswith('/*', i):
            j = text.find('*/', i + 2)
            i = n if j < 0 else j + 2
            continue
        if ch in '{[(':
            out.append((i, ch, depth))
            depth += 1
        elif ch in '}])':
            depth = max(0, depth - 1)
            out.append((i, ch, depth))
        elif ch in ';, \n\t\r\f':
            out.append((i, ch, depth))
        i += 1
    return out


_HEXESC = re.compile(r'\\[0-9a-fA-F]{1,6}(?:\r\n|[ \t\r\n\f])?')


def balanced(text):
    "all strings, comments, brackets and blocks of `text` are closed (no reliance on end-of-file recovery)"
    stack = []
    i, n = 0, len(text)
    pairs = {'}': '{', ']': '[', ')': '('}
    while i < n:
        ch = text[i]
        if ch == '\\':
            if i + 1 >= n:
                return False
            i += 2
            continue
        if ch in '"\'':
            j = i + 1
            while j < n and text[j] != ch:
                if text[j] == '\\':
                    m = _HEXESC.match(text, j)
                    j = m.end() - 1 if m else j + 1
                elif text[j] in '\n\r\f':
                    return False
                j += 1
            if j >= n:
                return False
            i = j + 1
            continue
        if text.startswith('/*', i):
            j = text.find('*/', i + 2)
            if j < 0:
                return False
            i = j + 2
            continue
        if ch in '{[(':
            stack.append(ch)
        elif ch in '}])':
            if not stack or stack.pop() != pairs[ch]:
                return False
        i += 1
    return not stack


def wellformed_input(text):
    "a complete text (balanced) that the library parses without any syntax error message"
    return balanced(text) and not parse_errors(text)


def _statement_spans(text):
    "spans (start, end) of statements at every nesting level: 'prelude { ... }' and '... ;' and comments"
    spans = []
    marks = _scan(text)
    # stack of statement starts per depth
    starts = {0: 0}
    openat = {}
    for (i, ch, d) in marks:
        if ch == '{':
            openat[d] = i
            starts[d + 1] = i + 1
        elif ch == '}':
            # closes block opened at depth d: statement from starts[d] to i+1
            if d in starts:
                spans.append((starts[d], i + 1))
            # also what is left in the inner level
            if d + 1 in starts and starts[d + 1] < i:
                spans.append((starts[d + 1], i))
            starts[d] = i + 1
        elif ch == ';':
            if d in starts:
                spans.append((starts[d], i + 1))
            starts[d] = i + 1
    if 0 in starts and starts[0] < len(text):
        spans.append((starts[0], len(text)))
    # comments as statements
    for m in re.finditer(r'/\*.*?\*/', text, re.S):
        spans.append((m.start(), m.end()))
    return [(a, b) for a, b in spans if text[a:b].strip()]


def _term_spans(text):
    "spans of comma / white space separated terms at every nesting level"
    spans = []
    marks = _scan(text)
    starts = {0: 0}
    for (i, ch, d) in marks:
        if ch in '{[(':
            starts[d + 1] = i + 1
        elif ch in '}])':
            if d + 1 in starts and starts[d + 1] < i:
                spans.append((starts[d + 1], i))
            starts.pop(d + 1, None)
        elif ch in ';, \n\t\r\f':
            if d in starts and starts[d] < i:
                spans.append((starts[d], i))
                spans.append((starts[d], i + 1))
            starts[d] = i + 1
    if 0 in starts and starts[0] < len(text):
        spans.append((starts[0], len(text)))
    return [(a, b) for a, b in spans if text[a:b].strip()]


def _unwrap_candidates(text):
    "texts with one block / paren pair replaced by its content or one prelude dropped"
    marks = _scan(text)
    stack = []
    for (i, ch, d) in marks:
        if ch in '{(':
            stack.append((i, ch))
        elif ch in '})' and stack:
            j, och = stack.pop()
            if och + ch in ('{}', '()'):
                yield text[:j] + ' ' + text[j + 1:i] + ' ' + text[i + 1:]
                if och == '{':
                    # drop prelude + braces, keep the content (unwrap @media)
                    k = max(text.rfind('}', 0, j), text.rfind(';', 0, j), text.rfind('{', 0, j)) + 1
                    yield text[:k] + text[j + 1:i] + text[i + 1:]


def shrink(text, pred, budget_s=20):
    """greedy shrinking while pred(candidate) stays true: statements, declarations, selectors / terms,
    unwrapping, then character level delta debugging"""
    deadline = time.time() + budget_s
    cache = {}

    def ok(t):
        if t in cache:
            return cache[t]
        if time.time() > deadline:
            return False
        try:
            r = bool(pred(t))
        except Exception:
            r = False
        cache[t] = r
        return r

    if not ok(text):
        return text
    cur = text

    def remove_spans(spanfn):
        nonlocal cur
        changed = True
        any_change = False
        while changed and time.time() < deadline:
            changed = False
            spans = sorted(set(spanfn(cur)), key=lambda s: (s[0] - s[1], s[0]))
            for a, b in spans:
                cand = cur[:a] + cur[b:]
                if cand != cur and ok(cand):
                    cur = cand
                    changed = any_change = True
                    break
        return any_change

    progress = True
    rounds = 0
    while progress and time.time() < deadline and rounds < 6:
        rounds += 1
        progress = False
        if remove_spans(_statement_spans):
            progress = True
        if remove_spans(_term_spans):
            progress = True
        again = True
        while again and time.time() < deadline:
            again = False
            for cand in _unwrap_candidates(cur):
                if len(cand) < len(cur) + 2 and cand != cur and ok(cand) and len(cand.strip()) < len(cur.strip()):
                    cur = cand
                    again = progress = True
                    break
        # character level ddmin
        n = 2
        while len(cur) >= 2 and time.time() < deadline:
            chunk = max(1, len(cur) // n)
            removed = False
            i = 0
            while i < len(cur):
                cand = cur[:i] + cur[i + chunk:]
                if cand and ok(cand):
                    cur = cand
                    removed = True
                    progress = True
                else:
                    i += chunk
            if removed:
                n = max(n - 1, 2)
            else:
                if chunk == 1:
                    break
                n = min(n * 2, len(cur))
    # cosmetic: collapse white space if possible
    cand = re.sub(r'\s+', ' ', cur).strip()
    if cand != cur and cand and ok(cand):
        cur = cand
    return cur


# ------------------------------------------------------------------------------------------------- families
_FEATURES = [
    ('single-quoted string containing \\"', re.compile(r"""'(?:[^'\\\n]|\\.)*\\"(?:[^'\\\n]|\\.)*'""", re.S)),
    ('double-quoted string containing \\\'', re.compile(r'''"(?:[^"\\\n]|\\.)*\\'(?:[^"\\\n]|\\.)*"''', re.S)),
    ('escaped backslash \\\\', re.compile(r'\\\\')),
    ('hex escape 5c (backslash)', re.compile(r'\\0{0,4}5[cC](?![0-9a-fA-F])')),
    ('hex escape of a quote', re.compile(r'\\0{0,4}2[27](?![0-9a-fA-F])')),
    ('hex escape of a newline', re.compile(r'\\0{0,5}[aAcCdD](?![0-9a-fA-F])')),
    ('hex escape', re.compile(r'\\[0-9a-fA-F]{1,6}')),
    ('line continuation in string', re.compile(r'\\(?:\r\n|[\n\r\f])')),
    ('simple escape', re.compile(r'\\[^0-9a-fA-F\n\r\f\\"\']')),
    ('non-ascii', re.compile(r'[^\x00-\x7f]')),
    ('url() quoted', re.compile(r'url\(\s*["\']', re.I)),
    ('url() bare', re.compile(r'url\(\s*[^"\'\s)]', re.I)),
    ('calc()', re.compile(r'calc\(', re.I)),
    ('var()', re.compile(r'var\(', re.I)),
    ('rgb/hsl function', re.compile(r'(?:rgba?|hsla?)\(', re.I)),
    ('minimisable #rrggbb', re.compile(r'#([0-9a-fA-F])\1([0-9a-fA-F])\2([0-9a-fA-F])\3(?![0-9a-fA-F])')),
    ('upper-case hex colour', re.compile(r'#(?=[0-9a-f]*[A-F])[0-9a-fA-F]{3,6}\b')),
    ('functional pseudo with inner space', re.compile(r':[-a-zA-Z]+\(\s+|:[-a-zA-Z]+\([^)]*\s\)')),
    ('functional pseudo', re.compile(r':[-a-zA-Z]+\(')),
    (':not()', re.compile(r':not\(', re.I)),
    ('pseudo-element', re.compile(r'::[-a-zA-Z]+')),
    ('attribute selector', re.compile(r'\[[^\]]*\]')),
    ('namespace prefix', re.compile(r'(?:[A-Za-z0-9_*-]*)\|(?!=)')),
    ('number with more than 6 decimals', re.compile(r'\.[0-9]{7,}')),
    ('value below 0.0000005', re.compile(r'(?<![0-9])0*\.0{6}[0-9]*[1-9]')),
    ('explicit plus sign', re.compile(r'(?<![0-9a-zA-Z])\+\.?[0-9]')),
    ('signed zero', re.compile(r'[+-]0*\.?0+(?![0-9.])')),
    ('zero with unit', re.compile(r'(?<![0-9.])0*\.?0+(?:px|em|ex|cm|mm|in|pt|pc|%|[a-z]+)', re.I)),
    ('leading-dot number', re.compile(r'(?<![0-9])\.[0-9]')),
    ('unicode-range', re.compile(r'u\+[0-9a-f?]', re.I)),
    ('!important', re.compile(r'!\s*important', re.I)),
    ('comment', re.compile(r'/\*')),
    ('@import', re.compile(r'@import', re.I)),
    ('@namespace', re.compile(r'@namespace', re.I)),
    ('@media', re.compile(r'@media', re.I)),
    ('@page', re.compile(r'@page', re.I)),
    ('@font-face', re.compile(r'@font-face', re.I)),
    ('@charset', re.compile(r'@charset', re.I)),
    ('margin box', re.compile(r'@(?:top|bottom|left|right)-', re.I)),
    ('unknown at-rule', re.compile(r'@(?!import|namespace|media|page|font-face|charset|top-|bottom-|left-|right-)'
                                   r'[-a-zA-Z]+', re.I)),
    ('media expression', re.compile(r'\(\s*[-a-z]+\s*[:)]', re.I)),
    ('ratio', re.compile(r'[0-9]\s*/\s*[0-9]')),
    ('upper-case letters', re.compile(r'[A-Z]')),
]


def features(text):
    "crude feature list of a (shrunk) witness text"
    return [name for name, rx in _FEATURES if rx.search(text or '')]


_ZU = 'cm|mm|in|px|pc|pt|em|ex'


def _t_round(s):
    "what a second serialisation does to numbers printed by '%f': N.0 -> N, zero loses sign and length unit"
    s = re.sub(r'(?<![0-9.a-zA-Z#])([+-]?)([0-9]+)\.0(?![0-9])', r'\1\2', s)
    s = re.sub(r'(?<![0-9.a-zA-Z#])[+-]?0(?:%s)?(?![0-9a-zA-Z.%%])' % _ZU, '0', s)
    s = re.sub(r'(?<![0-9.a-zA-Z#])[+-]0(?![0-9.])', '0', s)          # -0.0% -> -0% -> 0%  (sign of a zero is dropped)
    return s


def _window(f, pad=30):
    t1, t2 = f.get('text1') or '', f.get('text2') or ''
    if not isinstance(t1, str) or not isinstance(t2, str):
        return str(t1), str(t2)
    n = min(len(t1), len(t2))
    i = 0
    while i < n and t1[i] == t2[i]:
        i += 1
    j = 0
    while j < n - i and t1[len(t1) - 1 - j] == t2[len(t2) - 1 - j]:
        j += 1
    return t1[max(0, i - pad):len(t1) - j + pad], t2[max(0, i - pad):len(t2) - j + pad]


_CAUSES = (
    # (name, test(kind, w1, w2, detail, t1, t2))
    ('string: escaped double quote is escaped again (\\\\")',
     lambda k, w1, w2, d, t1, t2: '\\\\"' in w1 or ('\\\\"' in t1 and not t2)),
    ('calc: "int / int)" of the serialised text is a RATIO token',
     lambda k, w1, w2, d, t1, t2: re.search(r'calc\([^()]*(?<![0-9.a-zA-Z])[0-9]+ / [0-9]+\)', t1, re.I) is not None
     and (not t2 or 'wellformed' in d or 'end>' in d or 'missing' in d or w2 == '' or 'calc' not in w2.lower())),
    ('number: "%f" rounds to an integer, written N.0 then N',
     lambda k, w1, w2, d, t1, t2: t1 != t2 and (_t_round(t1) == t2 or _t_round(w1) == _t_round(w2))),
    ('number: rounds to zero but keeps its length unit on the first serialisation',
     lambda k, w1, w2, d, t1, t2: re.search(r': (?:%s) != None$' % _ZU, d) is not None),
    ('calc: white space tokens differ',
     lambda k, w1, w2, d, t1, t2: k.endswith('model') and re.search(r': (?:S != \w+|\w+ != S)$', d) is not None
     and 'calc(' in t1.lower() and 'function-end' not in d),
    ('functional pseudo: white space before ")" is not kept',
     lambda k, w1, w2, d, t1, t2: 'S != function-end' in d or 'function-end != S' in d),
    ('functional pseudo: "- b" is written "-b" (sign joins the number)',
     lambda k, w1, w2, d, t1, t2: 'minus != NUMBER' in d or 'NUMBER != minus' in d),
    ('unknown at-rule: "/" and "*" are glued into a comment start',
     lambda k, w1, w2, d, t1, t2: 'CHAR != COMMENT' in d or ('/*' in w1 and w2.rstrip().endswith('*/') and '@' in t1
                                                            and '*/' not in w1)),
    ('comment: continuation lines of a multi-line comment are re-indented',
     lambda k, w1, w2, d, t1, t2: re.search(r'/\*[^*]*\n', d + w1) is not None or
     (k.endswith('fixpoint') and re.sub(r'\n[ \t]+', '\n', t1) == re.sub(r'\n[ \t]+', '\n', t2) and '/*' in t1)),
    ('unknown at-rule: #rrggbb is minimised to #rgb',
     lambda k, w1, w2, d, t1, t2: re.search(r'tokens\[\d+\]\[1\]: #([0-9a-fA-F])\1([0-9a-fA-F])\2([0-9a-fA-F])\3 != #\1\2\3', d)
     is not None),
    ('colour: #rrggbb is minimised to #rgb',
     lambda k, w1, w2, d, t1, t2: re.search(r': #([0-9a-fA-F])\1([0-9a-fA-F])\2([0-9a-fA-F])\3 != #\1\2\3', d) is not None),
    ('attribute selector: a namespace equal to the default namespace is dropped',
     lambda k, w1, w2, d, t1, t2: re.search(r"seq\[\d+\]\[1\]: \['[^']*', '[^']*'\] != \w", d) is not None),
    ('string/url: backslash in the value is written back unescaped',
     lambda k, w1, w2, d, t1, t2: '\\' in w1 or '\\' in d),
    ('charset: non-ASCII text under a non UTF-8 @charset',
     lambda k, w1, w2, d, t1, t2: re.match(r'\s*@charset "(?!utf-8")', t1, re.I) is not None),
)


def cause(failure):
    "rule based root cause of one failure dict ('other' when no rule applies)"
    k = failure.get('kind', '')
    d = failure.get('detail') or ''
    t1 = failure.get('text1') or ''
    t2 = failure.get('text2') or ''
    if not isinstance(t1, str):
        t1 = str(t1)
    if not isinstance(t2, str):
        t2 = str(t2)
    if k == 'exception':
        return 'exception ' + d.split(':')[0]
    w1, w2 = _window(failure)
    for name, test in _CAUSES:
        try:
            if test(k, w1, w2, d, t1, t2):
                return name
        except Exception:
            pass
    return 'other'


def family(failure):
    """'<kind> :: <object class> [@<model path tail>] :: <cause>[ :: <features of failure['witness']>]'
    kind / object class / cause are computed from the failure itself (stable under shrinking); the feature list
    is added only when the caller stored the shrunk input text under failure['witness']"""
    kind = failure.get('kind', '?')
    where = re.sub(r'\[\d+\]', '', failure.get('where', ''))
    where = re.sub(r'^(?:rule\.)+(?=rule)', '', where)
    detail = failure.get('detail') or ''
    m = re.match(r'path (\S*):', detail)
    tail = ''
    if m:
        p = re.sub(r'\[\d+\]', '', m.group(1))
        tail = ' @' + '.'.join(p.split('.')[-3:])
    out = '%s :: %s%s :: %s' % (kind, where, tail, cause(failure))
    wit = failure.get('witness')
    if wit is not None:
        feats = features(wit)
        out += ' :: ' + ('; '.join(feats) if feats else 'plain')
    return out


# ------------------------------------------------------------------------------------------------- campaigns
def campaign_chunk(args):
    """worker: args = (seed, n, sizes) -> {'n', 'seconds', 'failures': [(seed, index, size, text, fails)],
    'coverage': {...}} ; sheet i of a chunk is gen_sheet(Random('%d/%d' % (seed, i)), size_i)"""
    from collections import Counter
    seed, n, sizes = args[:3]
    want_cov = args[3] if len(args) > 3 else True
    avoid = args[4] if len(args) > 4 else ()
    _setup()
    out = []
    cov = Counter()
    t0 = time.time()
    tg = tc = 0.0
    for i in range(n):
        size = sizes[i % len(sizes)]
        a = time.time()
        text = gen_sheet(random.Random('%d/%d' % (seed, i)), size, avoid)
        b = time.time()
        fails = check_text(text)
        c = time.time()
        tg += b - a
        tc += c - b
        if fails:
            out.append((seed, i, size, text, fails))
        if want_cov:
            try:
                for k, v in coverage(text).items():
                    cov[k] += v
            except Exception as e:  # pragma: no cover
                cov['coverage-error'] += 1
    return {'n': n, 'seconds': time.time() - t0, 'gen_s': tg, 'check_s': tc, 'failures': out,
            'coverage': dict(cov)}


def sheet_for(seed, index, size, avoid=()):
    "the sheet text campaign_chunk generated for (seed, index, size)"
    return gen_sheet(random.Random('%d/%d' % (seed, index)), size, avoid)
