"""C05 -- serializer preferences change layout, never meaning.

proof:          coq/props/C05.v (out_separation, prefs_total, omissions_exact, glue_complete, ...) over the model
                coq/theories/OutModel.v of serialize.Out and of the per-rule serialiser skeletons
tie:            translate/prefs.py regenerates the Preferences record, both presets and every string constant of
                Out.append and refuses when the control structure of a transcribed function changed;
                (a) Out.append function level: random item sequences x random preferences drive the real
                    css_parser.serialize.Out object and the extracted model, self.out and value() are compared;
                (b) skeleton level: real sheets are abstracted to the model's rule trees and do_sheet is compared
                    with sheet.cssText under a covering array of preferences
oracle/search:  END-TO-END, independent of the model: for a pairwise-covering array over all preferences
                (+ useDefaults/useMinified + random points) x generated sheets and the repository's sample
                sheets: install CSSSerializer(prefs) (restored in a finally), text = sheet.cssText, re-parse under
                default preferences and compare the extracted object model with filter_model(prefs, extract(sheet)).
"""
import glob
import itertools
import json
import os
import random
import time

from harness.lib import VERIF, REPO, cps, shrink_seq

# --------------------------------------------------------------------------------------------- preferences
WS_VALUES = ["", " ", "  ", "\t", "\n", "\r\n", "\f"]
LINESEP_VALUES = ["\n", "", " ", "\r\n", "\n\n", "\t"]
INDENT_VALUES = ["    ", "", " ", "\t", "  "]


def pref_space():
    """name -> list of values (first = default); built from the implementation's own defaults so that a new
    preference is picked up (booleans toggle, unknown kinds are left alone)"""
    from css_parser.serialize import Preferences
    d = Preferences().__dict__
    sp = {}
    for k, v in d.items():
        if isinstance(v, bool):
            sp[k] = [v, not v]
        elif k == "importHrefFormat":
            sp[k] = [None, "string", "uri"]
        elif k == "lineSeparator":
            sp[k] = LINESEP_VALUES
        elif k == "indent":
            sp[k] = INDENT_VALUES
        elif k == "linesAfterRules":
            sp[k] = ["", "\n", "\n\n", " "]
        elif isinstance(v, str):
            sp[k] = [v] + [x for x in WS_VALUES if x != v]
        else:
            sp[k] = [v]
    return sp


def pairwise(space, rng, extra=()):
    """greedy pairwise-covering array; rows are dicts"""
    names = sorted(space)
    need = set()
    for a, b in itertools.combinations(range(len(names)), 2):
        for x in range(len(space[names[a]])):
            for y in range(len(space[names[b]])):
                need.add((a, x, b, y))
    rows = []

    def pairs_of(row):
        return {(a, row[a], b, row[b]) for a, b in itertools.combinations(range(len(names)), 2)}
    for r in extra:
        need -= pairs_of(r)
    while need:
        best, bestc = None, -1
        seed_pair = next(iter(need))
        for _ in range(30):
            row = [rng.randrange(len(space[n])) for n in names]
            row[seed_pair[0]], row[seed_pair[2]] = seed_pair[1], seed_pair[3]
            c = len(pairs_of(row) & need)
            if c > bestc:
                best, bestc = row, c
        need -= pairs_of(best)
        rows.append(best)
    return [{n: space[n][i] for n, i in zip(names, r)} for r in rows]


def make_prefs(d, minified=False):
    from css_parser.serialize import Preferences
    p = Preferences()
    if minified:
        p.useMinified()
    for k, v in d.items():
        setattr(p, k, v)
    return p


def prefs_diff(d):
    """only the fields that differ from the defaults (for witnesses)"""
    from css_parser.serialize import Preferences
    dd = Preferences().__dict__
    return {k: v for k, v in d.items() if dd.get(k, object()) != v}


# --------------------------------------------------------------------------------------------- sheets (grammar G)
SELECTORS = ["a", ".b", "#c", "a > b", "a + b", "a ~ b", "a b", "*", "a:hover", "a::before", "a:not(.x)",
             "li:nth-child(2n+1)", 'a[href="x y"]', "a[x~=y]", "a[lang|=en]", "p|a", "*|a", "p|*", "a[p|x=y]",
             "a.b#c", "h1, h2", "a > b + c ~ d e", "|a", "input[type=text]:focus", "a:lang(en)"]
DECLS = ["color: red", "margin: 0 auto", 'font: 12px/1.5 "A B", serif', "background: url(x.png) no-repeat",
         "width: calc(1px + 2%)", "color: #aabbcc", 'content: "a" attr(x) "b"', "top: -0.5em", "left: +1px",
         "unicode-range: U+0-7F", 'src: url("a b") format("woff")', "x: 1 !important", "color: blue",
         "c\\olor: green", "color: red !IMPORTANT", "foo: bar", "margin: -1px -2px", "font-family: a, b",
         "transition: a 0.5s ease-in-out, b 1s", "grid-area: 1 / 2 / 3", "width: 50%", "z-index: 10",
         "background: rgb(1, 2, 3) url(a) 0 0", "color: rgba(0,0,0,0.5)", "margin: 0.5px", "content: 'it''s'",
         "width: calc((1px + 2px) * 3)", 'quotes: "\\"" "\'"', "top: 1e3px", "line-height: 1.0", "left: 0px",
         "color: #FFF", "font: italic bold 12px/30px Georgia, serif", "width: -webkit-calc(1px+2px)",
         "filter: alpha(opacity=50)", "content: counter(a) \"x\"", "background-position: 0 -1px",
         "src: local(x), url(y)", "margin: 1px!important", "a: b c d"]
MEDIA = ["print", "screen, print", "screen and (min-width: 10px)", "all", "not screen and (color)",
         "only screen and (max-width: 100px) and (orientation: landscape), tv"]
OTHER_RULES = ["/* c */", "/**/", "/* a\n   b */", '@import "a.css";', "@import url(b.css) print, screen;",
               '@import "c.css" tv "name";',
               '@namespace p "http://p";', '@namespace "http://d";', "@page :first { margin: 0 }",
               "@page { margin: 1cm; @top-left { content: \"x\" } }", "@page x:left { size: a4 }",
               '@font-face { font-family: "x"; src: url(x) }', "@font-face {}", "@x y;", '@x y "s" 1 (a) [b] {c: d; e {f: g}}',
               "@y;", "a {}", "@media print {}", "@variables { v: 1px }", "@page {}",
               '@unk { a { b: c } }', "@X-Y 1px;", "@x 1 + 2;", "@x a > b ~ c u + 0 + .5;", "@x { a + 2 { b: 1 > 2 } }", "@x a/**/b 1/**/px \"s\"/**/c;",
               "@x /*c*/ { a/**/: b/**/c }"]


# ---- systematic value coverage: every preference row sees every numeric shape and every value kind
NUM_SIGNS = ["", "-", "+"]
NUM_INTS = ["", "0", "1", "7", "10", "20", "100", "105", "007", "120", "1000", "90"]
NUM_FRACS = ["", ".5", ".25", ".05", ".1234567", ".50", ".0", ".999999", ".9999999", ".000001"]
NUM_UNITS = ["", "px", "em", "%", "pt", "mm", "s", "deg", "PX", "rem"]
PROP_FOR_UNIT = {"": "line-height", "s": "transition-delay", "deg": "x-angle"}


def numeric_lexemes(full):
    """sign x integer part x fraction (x unit: all units when `full`, otherwise cycling through them)"""
    out, k = [], 0
    for sg in NUM_SIGNS:
        for ip in NUM_INTS:
            for fr in NUM_FRACS:
                if not ip and not fr:
                    continue
                for u in (NUM_UNITS if full else [NUM_UNITS[k % len(NUM_UNITS)]]):
                    out.append((sg + ip + fr, u))
                k += 1
    return out


def numeric_sheets(full=False, per_sheet=36):
    lex = numeric_lexemes(full)
    sheets, cur = [], []
    for i, (n, u) in enumerate(lex):
        prop = PROP_FOR_UNIT.get(u, "margin-left" if i % 2 else "top")
        cur.append("%s: %s%s" % (prop, n, u))
        if i % 7 == 3:        # the same shapes inside lists and functions
            a, b, c = lex[(i * 5 + 1) % len(lex)], lex[(i * 11 + 2) % len(lex)], lex[(i * 17 + 3) % len(lex)]
            cur.append("margin: %s%s %s%s %s%s" % (n, u or "px", a[0], a[1] or "px", b[0], b[1] or "em"))
            cur.append("transform: translate(%s%s, %s%s) scale(%s)" % (a[0], a[1] or "px", b[0], b[1] or "%", c[0]))
            cur.append("width: calc(%s%s + %s%s)" % (a[0].lstrip("+-") or "1", a[1] or "px", b[0].lstrip("+-"), b[1] or "%"))
            cur.append("color: rgba(%s, 20.5, 100, %s)" % (a[0].lstrip("+-"), c[0].lstrip("+-")))
        if len(cur) >= per_sheet:
            sheets.append(cur)
            cur = []
    if cur:
        sheets.append(cur)
    out = []
    for j, ds in enumerate(sheets):
        half = len(ds) // 2
        out.append(".n%d { %s }\n@media print { .m%d { %s } }\n@page { margin: %s }" % (
            j, "; ".join(ds[:half]), j, "; ".join(ds[half:]), ds[0].split(": ")[1] if not ds[0].endswith(("s", "deg")) else "10.5mm"))
    return out


KIND_SHEETS = [
    ".c1 { color: #abc; color: #aabbcc; background-color: #aabbcd; border-color: #AABBCC #a1b2c3 #FFF #000000; "
    "outline-color: #aabbc0; color: #001122 }",
    ".c2 { color: rgb(10, 20, 100); color: rgba(0,0,0,0.50); color: hsl(120, 50%, 10.5%); color: red; "
    "background: #aabbcc url(a.png) 10.5px 0.5em }",
    ".s1 { content: \"a b\"; content: 'it\\'s'; content: \"q\\\"r\"; content: \"a;b{c}\"; content: \"/* x */\"; "
    "content: \"url(x)\"; content: \"10.50\" \"0.5\" \"#aabbcc\" }",
    ".s2 { quotes: \"\\201C\" \"\\201D\"; font-family: \"A B\", 'C D', serif; content: \"a\\a b\"; content: \"\" }",
    ".u1 { background: url(a.png); background: url(\"a b.png\"); background: url('a(b).png'); "
    "background-image: url(data:image/png;base64,AAAA=); list-style: url(10.50.png) }",
    "@font-face { font-family: x; src: url(x.woff) format(\"woff\"), url(\"y z.ttf\"); unicode-range: U+0-7F, U+4??, U+26 }",
    ".i1 { margin: 10.5px !important; top: 0.5em ! important; left: 20.5% !IMPORTANT }",
    ".e1 { width: expression(1 + 2); height: expression(a > b ~ c) }",
    ".p1 { a\\.b: 1; color: red; o\\x: 2; \\31 x: 3; -\\-y: 4 }",      # names whose normalised form needs escaping
]


# ---- namespaces: every selector item kind as the ONLY user of a prefix x where the rule sits x what is left of the
# rule set under the omission preferences (a second prefix q is declared and never used)
NS_SELECTORS = ["p|a", "p|*", "a[p|x]", "a[p|x=y]", ":not(p|b)", ":not(p|*)", ":not([p|x])", "a:not(p|b)", "x > p|a",
                "h1, p|a", "a", "*", ":not(a)", "*|a", "|a", "a[x]", ".c", "p|a:hover::before"]
NS_BODIES = ["color: red", "", "/* only a comment */", "foo: bar", "color: red; color: blue", "color: 1px",
             "@in x;", "/* c */ foo: bar"]


def ns_sheets(full):
    out = []
    k = 0
    for sel in NS_SELECTORS:
        for body in NS_BODIES:
            for where in (0, 1):
                k += 1
                dflt = '@namespace "http://d";\n' if (k % 2 or sel in ("a", "*", ":not(a)")) else ""
                rule = "%s { %s }" % (sel, body)
                if where:
                    rule = "@media print { %s }" % rule
                if where and body == "color: red" and sel in ("p|a", ":not(p|b)", "a[p|x]", "a"):   # two container rules deep
                    rule = "@media screen { %s }" % rule
                out.append('%s@namespace p "http://p";\n@namespace q "http://q";\n%s' % (dflt, rule))
    return out


# ---- declaration blocks: every sequence (length <= 3, thorough 4) over two names x important or not x a comment, with
# position-dependent values so that it is observable which duplicate survives and where the last semicolon goes
DECL_ALPHABET = [("color", ""), ("color", " !important"), ("top", ""), ("top", " !important"), ("c\\olor", ""),
                 ("/*c*/", None), ("foo", "")]
DECL_VALUES = {"color": ["red", "blue", "green", "black"], "top": ["0", "1px", "2px", "3px"],
               "c\\olor": ["red", "blue", "green", "black"], "foo": ["a", "b", "c", "d"],
               "a\\.b": ["1", "2", "3", "4"]}


def decl_sheets(maxlen=3, per_sheet=12):
    blocks = []
    for n in range(1, maxlen + 1):
        for seq in itertools.product(range(len(DECL_ALPHABET)), repeat=n):
            parts = []
            for pos, k in enumerate(seq):
                name, prio = DECL_ALPHABET[k]
                parts.append(name if prio is None else "%s: %s%s" % (name, DECL_VALUES[name][pos], prio))
            blocks.append("; ".join(parts))
    out = []
    for i in range(0, len(blocks), per_sheet):
        rules = [".d%d { %s }" % (j, b) for j, b in enumerate(blocks[i:i + per_sheet])]
        out.append("\n".join(rules[:-4]) + "\n@media print { %s }\n@page { %s }\n@font-face { %s }" % (
            " ".join(rules[-4:-2]), blocks[i:i + per_sheet][-2], blocks[i:i + per_sheet][-1]))
    return out


DECL_PREFS = ["keepAllProperties", "omitLastSemicolon", "validOnly", "keepComments", "defaultPropertyName",
              "defaultPropertyPriority"]


def factorial_rows(names, minified_too=True):
    from css_parser.serialize import Preferences
    d = Preferences().__dict__
    rows = []
    for bits in itertools.product([False, True], repeat=len(names)):
        rows.append(({k: b for k, b in zip(names, bits) if d[k] != b}, False))
    if minified_too:
        for k in names:
            rows.append(({k: not d[k]}, True))
    return rows


OMISSION_PREFS = ["keepUsedNamespaceRulesOnly", "keepEmptyRules", "keepComments", "validOnly", "keepAllProperties",
                  "keepUnknownAtRules"]


def omission_rows():
    """full factorial over the preferences that omit something (their interactions decide what is 'used')"""
    from css_parser.serialize import Preferences
    d = Preferences().__dict__
    rows = []
    for bits in itertools.product([False, True], repeat=len(OMISSION_PREFS)):
        pd = {k: b for k, b in zip(OMISSION_PREFS, bits) if d[k] != b}
        rows.append((pd, False))
    rows.append(({}, True))
    rows.append(({"keepComments": True}, True))
    rows.append(({"keepEmptyRules": True, "keepComments": True}, True))
    return rows


def gen_style(rng):
    sels = rng.sample(SELECTORS, rng.randint(1, 3))
    ds = []
    for _ in range(rng.randint(0, 5)):
        r = rng.random()
        if r < 0.1:
            ds.append("/* d */")
        elif r < 0.13:
            ds.append("@in x")
        elif r < 0.4:
            n = rng.choice(NUM_SIGNS) + rng.choice(NUM_INTS[1:]) + rng.choice(NUM_FRACS)
            ds.append("%s: %s%s" % (rng.choice(["margin-left", "top", "width", "line-height", "font-size"]), n,
                                    rng.choice(NUM_UNITS)))
        else:
            ds.append(rng.choice(DECLS))
    body = "; ".join(ds)
    if rng.random() < 0.2:
        body += ";"
    return "%s { %s }" % (", ".join(sels), body)


def gen_sheet(rng):
    rules = []
    ns = rng.random() < 0.6
    if rng.random() < 0.15:
        rules.append('@charset "utf-8";')
    for _ in range(rng.randint(0, 2)):
        rules.append(rng.choice(OTHER_RULES[3:6]))
    if ns:
        rules += ['@namespace p "http://p";'] + (['@namespace "http://d";'] if rng.random() < 0.5 else []) + \
                 (['@namespace q "http://q";'] if rng.random() < 0.5 else [])
    for _ in range(rng.randint(1, 6)):
        r = rng.random()
        if r < 0.5:
            rules.append(gen_style(rng))
        elif r < 0.7:
            inner = [gen_style(rng) if rng.random() < 0.8 else rng.choice(["/* m */", "@x y;", "a {}"])
                     for _ in range(rng.randint(0, 3))]
            rules.append("@media %s { %s }" % (rng.choice(MEDIA), " ".join(inner)))
        else:
            x = rng.choice(OTHER_RULES)
            if x.startswith(("@import", "@namespace", "@charset")):
                x = rng.choice(OTHER_RULES[:3])
            rules.append(x)
    text = "\n".join(rules)
    if not ns:
        for pfx in ("p|", "*|", "|"):
            text = text.replace(pfx + "a", "a").replace(pfx + "*", "*").replace(pfx + "x", "x")
    return text


def sample_sheets(limit=24000):
    out = []
    for f in sorted(glob.glob(str(REPO / "css_parser_tests" / "sheets" / "*.css"))):
        try:
            b = open(f, "rb").read()
        except OSError:
            continue
        if len(b) <= limit:
            try:
                t = b.decode("utf-8")
            except UnicodeDecodeError:
                t = b.decode("latin-1")
            out.append((os.path.basename(f), t))
    return out


# --------------------------------------------------------------------------------------------- model extractor
def _parse(text):
    import css_parser
    import logging
    css_parser.log.setLevel(logging.FATAL)
    if isinstance(text, (list, tuple)) and text and text[0] == "hist":
        sheet = css_parser.CSSParser(fetcher=lambda url: None, loglevel=logging.FATAL).parseString(text[1])
        for op in text[2]:
            apply_op(sheet, op)
        return sheet
    return css_parser.CSSParser(fetcher=lambda url: None, loglevel=logging.FATAL).parseString(text)


def _rule_at(sheet, path):
    r = sheet
    for i in path:
        r = r.cssRules[i]
    return r


def apply_op(sheet, op):
    """one API mutation of a parsed sheet; an operation the library rejects (it raises) leaves the sheet as it is"""
    import css_parser
    kind, path = op[0], op[1]
    try:
        r = _rule_at(sheet, path)
        if kind == "margin":
            r.margin = op[2]
        elif kind == "atkeyword":
            r.atkeyword = op[2]
        elif kind == "cssText":
            r.cssText = op[2]
        elif kind == "prop_name":
            [p for p in r.style.getProperties(all=True)][op[2]].name = op[3]
        elif kind == "prop_priority":
            [p for p in r.style.getProperties(all=True)][op[2]].priority = op[3]
        elif kind == "prop_cssText":
            [p for p in r.style.getProperties(all=True)][op[2]].cssText = op[3]
        elif kind == "setProperty":
            r.style.setProperty(op[2], op[3], op[4])
        elif kind == "removeProperty":
            r.style.removeProperty(op[2])
        elif kind == "selectorText":
            r.selectorText = op[2]
        elif kind == "href":
            r.href = op[2]
        elif kind == "prefix":
            r.prefix = op[2]
        else:
            raise ValueError("unknown op " + kind)
    except ValueError:
        raise
    except Exception:  # noqa  (xml.dom exceptions etc.: a rejected assignment)
        pass


# sheets whose objects carry NON-DEFAULT literal spellings (upper case, escapes), and the API mutations applied to them
# before any preference row: afterwards the literal the serializer may print must belong to the CURRENT value
SPELLING_SHEET = ('@IMPORT "a.css";\n@NAMESPACE p "http://p";\n'
                  '@page :first { margin: 0; @TOP-LEFT { content: "x" } @bottom-\\63 enter { content: "y" } }\n'
                  'a { C\\olor: red !IMPORTANT; TOP: 0; ma\\rgin: 1px ! Im\\portant }\n'
                  '@MEDIA print { p|b { C\\olor: blue } }\n@X-Unknown y;')
SPELLING_OPS = [
    ["margin", [2, 0], "@top-right"], ["margin", [2, 1], "@bottom-left"], ["margin", [2, 0], "@TOP-RIGHT"],
    ["cssText", [2, 0], "@right-middle { content: \"z\" }"], ["cssText", [2, 1], "@LEFT-TOP { content: \"w\" }"],
    ["atkeyword", [0], "@import"], ["atkeyword", [1], "@namespace"], ["atkeyword", [0], "@i\\mport"],
    ["cssText", [0], "@import \"b.css\";"], ["cssText", [1], "@namespace p \"http://p2\";"],
    ["href", [0], "c.css"], ["prefix", [1], "q"],
    ["prop_name", [3], 0, "background-color"], ["prop_name", [3], 1, "left"], ["prop_name", [3], 2, "paddin\\g"],
    ["prop_priority", [3], 0, ""], ["prop_priority", [3], 1, "important"], ["prop_priority", [3], 2, "IMPORTANT"],
    ["prop_cssText", [3], 0, "color: green !important"], ["prop_cssText", [3], 2, "MARGIN: 2px"],
    ["setProperty", [3], "c\\olor", "blue", ""], ["setProperty", [3], "color", "black", "important"],
    ["setProperty", [3], "TOP", "1px", ""], ["setProperty", [3], "to\\p", "2px", "IMPORTANT"],
    ["removeProperty", [3], "top"], ["setProperty", [4, 0], "color", "green", ""],
    ["cssText", [3], "a { TOP: 5px; c\\olor: red }"], ["cssText", [4], "@media screen { p|b { COLOR: red } }"],
    ["selectorText", [3], "A, B"], ["cssText", [5], "@y-other z;"],
]
SPELLING_PREFS = ["defaultAtKeyword", "defaultPropertyName", "defaultPropertyPriority", "keepAllProperties"]


def history_sheets(rng, n_random):
    out = [["hist", SPELLING_SHEET, []]] + [["hist", SPELLING_SHEET, [op]] for op in SPELLING_OPS]
    for _ in range(n_random):
        out.append(["hist", SPELLING_SHEET, [rng.choice(SPELLING_OPS) for _ in range(rng.randint(2, 4))]])
    return out


def x_decls(style):
    import css_parser
    out = []
    eff = style.getProperties()
    for it in style.seq:
        v = it.value
        if isinstance(v, css_parser.css.Property):
            if not v.wellformed:
                continue
            out.append(["prop", v.name, num_norm(v.propertyValue.cssText), v.priority,
                        {"valid": bool(v.valid), "effective": any(v is e for e in eff)}])
        elif isinstance(v, css_parser.css.CSSComment):
            out.append(["comment", ws_norm(v.cssText)])
        elif isinstance(v, css_parser.css.CSSUnknownRule):
            out.append(["unknown", unknown_text(v.cssText)])
        else:
            out.append(["other", str(v)])
    return out


_NUM_SPLIT = None


def num_norm(text):
    """value text with every number outside strings and url() written canonically (rounded to the serializer's
    documented 6 decimals, no sign on zero, '+' dropped): values are compared numerically, everything else exactly"""
    import re
    global _NUM_SPLIT
    if _NUM_SPLIT is None:
        _NUM_SPLIT = (re.compile(r'''("(?:[^"\\]|\\.)*"|'(?:[^'\\]|\\.)*'|url\([^)]*\))''', re.S),
                      re.compile(r"(?<![\w#.\\-])[+-]?(?:\d+\.?\d*|\.\d+)(?![\d.]*[?])"))
    keep, num = _NUM_SPLIT

    def canon(m):
        try:
            f = round(float(m.group(0)), 6)
        except ValueError:
            return m.group(0)
        t = ("%.6f" % f).rstrip("0").rstrip(".")
        return "0" if t in ("-0", "") else t
    parts = keep.split(text)
    return "".join(x if i % 2 else num.sub(canon, x) for i, x in enumerate(parts))


def unknown_text(t):
    """text of an unknown @rule without its comments and with runs of whitespace outside strings / url() collapsed
    (comments inside it are dropped with keepComments=False; a dropped comment must still separate its neighbours)"""
    import re
    num_norm("")
    keep = _NUM_SPLIT[0]
    parts = keep.split(t)
    out = []
    for i, x in enumerate(parts):
        out.append(x if i % 2 else re.sub(r"\s+", " ", re.sub(r"/\*.*?\*/", " ", x, flags=re.S)))
    return re.sub(r" +", " ", "".join(out)).strip()


def ws_norm(t):
    """comment text modulo runs of whitespace: re-indenting a multi-line comment is layout"""
    return " ".join(t.split())


def sel_text(s):
    """selector text without comments (they are dropped with keepComments=False, which is documented)"""
    import re
    return " ".join(re.sub(r"/\*.*?\*/", " ", s.selectorText, flags=re.S).split())


def used_uris(sheet):
    """namespace URIs referred to by any selector of the sheet (type, universal and attribute selectors, at any
    nesting depth); computed from the selectors' own item lists, independently of CSSStyleSheet._getUsedURIs"""
    used = set()

    def walk(rules):
        for r in rules:
            if r.type == r.STYLE_RULE:
                for s in r.selectorList:
                    for it in s.seq:
                        # every qualified name (element, universal, attribute; also inside :not()) is stored as
                        # a (namespaceURI, name) pair whatever the item is called; an unprefixed attribute is a str
                        if isinstance(it.value, tuple) and len(it.value) == 2:
                            used.add(it.value[0])
            elif r.type == r.MEDIA_RULE:
                walk(r.cssRules)
    walk(sheet.cssRules)
    return used


def x_rule(r, used):
    import css_parser
    C = css_parser.css
    t = r.type
    if t == r.COMMENT:
        return ["comment", ws_norm(r.cssText)]
    if t == r.CHARSET_RULE:
        return ["charset", r.encoding]
    if t == r.IMPORT_RULE:
        return ["import", r.href, r.media.mediaText, r.name, bool(r.wellformed)]
    if t == r.NAMESPACE_RULE:
        unused = r.namespaceURI not in used and (bool(r.prefix) or None not in used)
        return ["namespace", r.prefix, r.namespaceURI, {"unused": bool(unused)}]
    if t == r.STYLE_RULE:
        return ["style", [(sel_text(s), list(s.specificity)) for s in r.selectorList], x_decls(r.style)]
    if t == r.MEDIA_RULE:
        return ["media", r.media.mediaText, r.name, [x_rule(c, used) for c in r.cssRules]]
    if t == r.PAGE_RULE:
        return ["page", r.selectorText, x_decls(r.style),
                [["margin", m.margin, x_decls(m.style)] for m in r.cssRules]]
    if t == r.FONT_FACE_RULE:
        return ["font-face", x_decls(r.style)]
    if t == r.VARIABLES_RULE:
        return ["variables", sorted((k, r.variables[k]) for k in r.variables.keys())]
    if t == r.UNKNOWN_RULE:
        return ["unknown", unknown_text(r.cssText)]
    return ["?", r.cssText]


def extract(sheet):
    """object model of a sheet; must run while the DEFAULT serializer is installed"""
    used = used_uris(sheet)
    return [x_rule(r, used) for r in sheet.cssRules]


def _props_in_order(rules):
    import css_parser
    def of_style(style):
        for it in style.seq:
            if isinstance(it.value, css_parser.css.Property) and it.value.wellformed:
                yield it.value
    for r in rules:
        if r.type in (r.STYLE_RULE, r.FONT_FACE_RULE):
            yield from of_style(r.style)
        elif r.type == r.MEDIA_RULE:
            yield from _props_in_order(r.cssRules)
        elif r.type == r.PAGE_RULE:
            yield from of_style(r.style)
            for m in r.cssRules:
                yield from of_style(m.style)


def _decl_lists(model):
    for r in model:
        if r[0] == "style":
            yield r[2]
        elif r[0] == "font-face":
            yield r[1]
        elif r[0] == "media":
            yield from _decl_lists(r[3])
        elif r[0] == "page":
            yield r[2]
            for m in r[3]:
                yield m[2]


def revalidate(sheet, base, prefs_dict, minified):
    """Property.valid is computed from the value's text under the INSTALLED serializer (an unresolved var() does not
    validate): the `valid` annotations that validOnly consults are therefore read under the tested preferences"""
    import css_parser
    from css_parser.serialize import CSSSerializer
    old = css_parser.ser
    try:
        css_parser.setSerializer(CSSSerializer(make_prefs(prefs_dict, minified)))
        flags = [bool(p.valid) for p in _props_in_order(sheet.cssRules)]
    finally:
        css_parser.setSerializer(old)
    slots = [d for ds in _decl_lists(base) for d in ds if d[0] == "prop"]
    if len(slots) != len(flags):
        raise RuntimeError("revalidate: %d properties in the model, %d in the sheet" % (len(slots), len(flags)))
    for d, f in zip(slots, flags):
        d[4]["valid"] = f


def f_decls(prefs, ds):
    out = []
    for d in ds:
        if d[0] == "comment" and not prefs["keepComments"]:
            continue
        if d[0] == "unknown" and not prefs["keepUnknownAtRules"]:
            continue
        if d[0] == "prop":
            if prefs["validOnly"] and not d[4]["valid"]:
                continue
            if not prefs["keepAllProperties"] and not d[4]["effective"]:
                continue
            d = d[:4]
        out.append(d)
    return out


def f_rule(prefs, r):
    """what the documentation of the preferences says is left of a rule (None = omitted)"""
    k = r[0]
    if k == "comment":
        return r if prefs["keepComments"] else None
    if k == "unknown":
        return r if prefs["keepUnknownAtRules"] else None
    if k == "namespace":
        if prefs["keepUsedNamespaceRulesOnly"] and r[3]["unused"]:
            return None
        return r[:3]
    if k == "variables":
        return None if prefs["resolveVariables"] or not r[1] else r
    if k == "style":
        ds = f_decls(prefs, r[2])
        if not ds and not prefs["keepEmptyRules"]:
            return None
        return ["style", r[1], ds]
    if k == "media":
        cs = [x for x in (f_rule(prefs, c) for c in r[3]) if x is not None]
        if not cs and not prefs["keepEmptyRules"]:
            return None
        return ["media", r[1], r[2], cs]
    if k == "page":
        ds = f_decls(prefs, r[2])
        ms = [["margin", m[1], f_decls(prefs, m[2])] for m in r[3]]
        ms = [m for m in ms if m[2]]
        if not ds and not ms:
            return None          # an @page without content is never written
        return ["page", r[1], ds, ms]
    if k == "font-face":
        ds = f_decls(prefs, r[1])
        return ["font-face", ds] if ds else None      # an empty @font-face is never written
    if k == "import":
        return r[:4] if r[4] else None
    return r


def filter_model(prefs, model):
    return [x for x in (f_rule(prefs, r) for r in model) if x is not None]


def strip_meta(model):
    """the re-parsed model carries the valid/effective/unused annotations too: drop them before comparing"""
    out = []
    for r in model:
        r = json.loads(json.dumps(r))
        k = r[0]
        if k == "namespace":
            r = r[:3]
        elif k == "import":
            r = r[:4]
        elif k == "style":
            r[2] = [d[:4] if d[0] == "prop" else d for d in r[2]]
        elif k == "media":
            r[3] = strip_meta(r[3])
        elif k == "page":
            r[2] = [d[:4] if d[0] == "prop" else d for d in r[2]]
            r[3] = [[m[0], m[1], [d[:4] if d[0] == "prop" else d for d in m[2]]] for m in r[3]]
        elif k == "font-face":
            r[1] = [d[:4] if d[0] == "prop" else d for d in r[1]]
        out.append(r)
    return out


def serialize_with(sheet, prefs_dict, minified=False):
    """returns ('ok', text) or ('exc', description); ALWAYS restores the global serializer"""
    import css_parser
    from css_parser.serialize import CSSSerializer
    old = css_parser.ser
    try:
        css_parser.setSerializer(CSSSerializer(make_prefs(prefs_dict, minified)))
        b = sheet.cssText
        return "ok", b
    except Exception as e:  # noqa
        return "exc", "%s: %s" % (type(e).__name__, str(e)[:160])
    finally:
        css_parser.setSerializer(old)


def e2e_prepare(text):
    """parse once, extract the object model, check that the DEFAULT serialisation round-trips (else: C03's subject)"""
    sheet = _parse(text)
    base = json.loads(json.dumps(extract(sheet)))
    st, b0 = serialize_with(sheet, {})
    if st != "ok":
        return sheet, base, ("skip", "default serialisation raises (" + b0 + ")")
    try:
        m0 = json.loads(json.dumps(strip_meta(extract(_parse(b0)))))
    except Exception as e:  # noqa
        return sheet, base, ("skip", "default output does not re-parse: %r" % (e,))
    if m0 != json.loads(json.dumps(filter_model(_default_prefs(), base))):
        return sheet, base, ("skip", "the default serialisation already does not round-trip (C03)")
    return sheet, base, None


def e2e_check(prep, prefs_dict, minified=False):
    sheet, base, skip = prep
    if skip:
        return skip
    pd = dict(_default_prefs())
    if minified:
        pd.update(_minified_prefs())
    pd.update(prefs_dict)
    st, b = serialize_with(sheet, prefs_dict, minified)
    if st != "ok":
        return ("fail", "serialising raises " + b)
    if pd.get("lineNumbers"):
        return None                   # not meant to re-parse: only required not to raise
    try:
        m1 = json.loads(json.dumps(strip_meta(extract(_parse(b)))))
    except Exception as e:  # noqa
        return ("fail", "output does not re-parse: %s" % type(e).__name__)
    if pd.get("validOnly"):
        base = json.loads(json.dumps(base))
        revalidate(sheet, base, prefs_dict, minified)
    exp = json.loads(json.dumps(filter_model(pd, base)))
    if m1 != exp:
        if _squash(m1) == _squash(exp):
            if _no_strings(m1) == _no_strings(exp):
                return ("fail", "re-parsed model differs only by whitespace inside a token (string, url): "
                        + first_diff(exp, m1))
            return ("fail", "re-parsed model differs only by whitespace between tokens (tokens glued or split): "
                    + first_diff(exp, m1))
        return ("fail", "re-parsed model differs: " + first_diff(exp, m1))
    return None


def e2e_one(text, prefs_dict, minified=False, want_text=False):
    """the property on one (sheet, preferences) pair.  Returns None (holds), ('skip', why) or ('fail', what)."""
    return e2e_check(e2e_prepare(text), prefs_dict, minified)


def _no_strings(m):
    import re
    return re.sub(r'''(\\"(?:[^"\\]|\\[^"]|\\\\.)*?\\"|'(?:[^'\\]|\\.)*'|url\([^)]*\))''', "<tok>", json.dumps(m))


def _squash(m):
    return "".join(json.dumps(m).replace("\\t", " ").replace("\\n", " ").replace("\\r", " ").replace("\\f", " ").split())


def first_diff(exp, got):
    for i, (a, b) in enumerate(itertools.zip_longest(exp, got)):
        if a != b:
            if a and b and a[0] == b[0] and a[0] in ("style", "media", "page", "font-face"):
                for j, (x, y) in enumerate(zip(a, b)):
                    if x != y:
                        if isinstance(x, list) and isinstance(y, list):
                            for u, v in itertools.zip_longest(x, y):
                                if u != v:
                                    return "rule %d (%s) part %d: expected %s, got %s" % (
                                        i, a[0], j, json.dumps(u)[:120], json.dumps(v)[:120])
                        return "rule %d (%s) part %d: expected %s, got %s" % (
                            i, a[0], j, json.dumps(x)[:120], json.dumps(y)[:120])
            return "rule %d: expected %s, got %s" % (i, json.dumps(a)[:160], json.dumps(b)[:160])
    return "?"


_DP = {}


def _default_prefs():
    if "d" not in _DP:
        from css_parser.serialize import Preferences
        _DP["d"] = dict(Preferences().__dict__)
    return _DP["d"]


def _minified_prefs():
    if "m" not in _DP:
        from css_parser.serialize import Preferences
        p = Preferences()
        p.useMinified()
        d = _default_prefs()
        _DP["m"] = {k: v for k, v in p.__dict__.items() if d[k] != v}
    return _DP["m"]


def e2e_job(job):
    """(sheet text or bytes, [(prefs_dict, minified)]) -> list of (index, verdict)"""
    text, rows = job
    out = []
    try:
        prep = e2e_prepare(text)
    except Exception as e:  # noqa
        return [(0, ("fail", "oracle raised %s while reading the sheet: %s" % (type(e).__name__, str(e)[:120])))]
    for i, (pd, mini) in enumerate(rows):
        try:
            v = e2e_check(prep, pd, mini)
        except Exception as e:  # noqa   (the oracle itself must not hide anything)
            v = ("fail", "oracle raised %s: %s" % (type(e).__name__, str(e)[:120]))
        if v is not None:
            out.append((i, v))
    return out


# --------------------------------------------------------------------------------------------- shrinking
def shrink_case(text, pd, mini, what_class):
    """towards the default preferences one field at a time, then the sheet rule by rule"""
    def fails(t, d, m):
        try:
            v = e2e_one(t, d, m)
        except Exception:  # noqa
            return False
        return v is not None and v[0] == "fail" and klass(v[1]) == what_class
    if mini:
        full = dict(_minified_prefs(), **pd)
        if fails(text, full, False):
            pd, mini = full, False
    pd = prefs_diff(pd) if not mini else dict(pd)
    for k in sorted(pd):
        d2 = {a: b for a, b in pd.items() if a != k}
        if fails(text, d2, mini):
            pd = d2
    if isinstance(text, (list, tuple)):          # a mutation history: shrink the operations, keep the sheet
        ops = shrink_seq(list(text[2]), lambda c: fails(["hist", text[1], list(c)], pd, mini), max_rounds=20) \
            if text[2] else []
        return ["hist", text[1], list(ops)], pd, mini
    # sheet: top-level rules as written by the default serializer
    try:
        sheet = _parse(text)
        rules = [r.cssText for r in sheet.cssRules]
        if fails("\n".join(rules), pd, mini):
            rules = shrink_seq(rules, lambda c: fails("\n".join(c), pd, mini), max_rounds=30)
            text = "\n".join(rules)
            # one level down: children of a remaining @media rule, declarations of a style rule
            sheet = _parse(text)
            for idx, r in enumerate(list(sheet.cssRules)):
                if r.type == r.MEDIA_RULE and len(r.cssRules) > 1:
                    kids = [c.cssText for c in r.cssRules]
                    def build(ks, idx=idx, r=r):
                        rs = [x.cssText for x in sheet.cssRules]
                        rs[idx] = "@media %s {\n%s\n}" % (r.media.mediaText, "\n".join(ks))
                        return "\n".join(rs)
                    if fails(build(kids), pd, mini):
                        kids = shrink_seq(kids, lambda c: fails(build(c), pd, mini), max_rounds=20)
                        text = build(kids)
                        sheet = _parse(text)
            for idx, r in enumerate(list(sheet.cssRules)):
                if r.type == r.STYLE_RULE and r.style.length > 1:
                    ds = [it.value.cssText for it in r.style.seq if hasattr(it.value, "cssText")]
                    def build2(dd, idx=idx, r=r):
                        rs = [x.cssText for x in sheet.cssRules]
                        rs[idx] = "%s {\n%s\n}" % (r.selectorText, ";\n".join(dd))
                        return "\n".join(rs)
                    if fails(build2(ds), pd, mini):
                        ds = shrink_seq(ds, lambda c: fails(build2(c), pd, mini), max_rounds=20)
                        text = build2(ds)
                        sheet = _parse(text)
    except Exception:  # noqa
        pass
    return text, pd, mini


def klass(what):
    """failure family = the description without the data"""
    return what.split(":")[0]


# --------------------------------------------------------------------------------------------- Out.append (function level)
VALS = ["a", "b1", "1", "+2", "-1", "1px", "50%", "#aabbcc", "#abc", "#aabbcd", "red", "url(x)", "f(", "(", ")", "[", "]",
        "{", "}", ";", ":", ",", "+", ">", "~", "/", "=", "*", "-", "/=", "+>", "()", ",:", "}[", " ", "  ", "\n", "\r\n", "\t",
        "a ", " a", "a\nb", "a\n\nb\n", "\n\n", "x y", "\"s\"", "it's", "a\"b", "a\\", "", "!", "important", "@media",
        "and", "U+0-7F", "-", "*/", "/*c*/", "|", "p|a", "é", "\xa0", "a\xa0", "0", ".5", "1.5em"]
TYPES = [None, None, None, "COMMENT", "S", "STRING", "URI", "HASH", "FUNCTION", "styletext", "IDENT", "CHAR", "NUMBER",
         "DIMENSION", "Property", "MediaQuery"]


class _Obj(object):
    def __init__(self, truthy, css, media):
        self._t = truthy
        if css is not None:
            self.cssText = css
        if media is not None:
            self.mediaText = media

    def __bool__(self):
        return self._t


def gen_item(rng):
    r = rng.random()
    if r < 0.08:
        vk, v, css, media = "n", "", None, None
    elif r < 0.25:
        vk = rng.choice(["t", "t", "t", "f"])
        css = rng.choice(VALS + ["/* c */"]) if rng.random() < 0.7 else None
        media = rng.choice(VALS) if rng.random() < 0.4 else None
        v = ""
    else:
        vk, v, css, media = "s", rng.choice(VALS), None, None
    ty = rng.choice(TYPES)
    if vk == "t" and css is not None and rng.random() < 0.5:
        ty = "COMMENT"
    if rng.random() < 0.85:        # keep the share of raising calls low: they end the whole sequence
        if ty == "COMMENT" and (vk != "t" or css is None):
            vk, css = "t", "/*" + v + "*/"
        if vk in "tf" and css is None and media is None:
            css = rng.choice(VALS)
        if vk != "s" and ty in ("STRING", "URI", "HASH"):
            ty = None
    fl = [rng.random() < 0.75, rng.random() < 0.25, rng.random() < 0.12, rng.random() < 0.12]
    return [vk, v, css, media, ty, fl]


def gen_append_case(rng, space):
    names = sorted(space)
    pd = {}
    for n in names:
        if rng.random() < 0.35:
            pd[n] = rng.choice(space[n])
    if rng.random() < 0.1:
        pd[rng.choice(["spacer", "listItemSpacer", "selectorCombinatorSpacer", "lineSeparator", "indent"])] = \
            rng.choice(["x", " x", "ab", "\xa0", ";"])
    mini = rng.random() < 0.25
    items = [gen_item(rng) for _ in range(rng.randint(1, 7))]
    return [pd, mini, rng.randint(0, 2), rng.random() < 0.2, items]


def impl_append(case):
    pd, mini, lvl, keeps, items = case
    from css_parser.serialize import CSSSerializer, Out
    from css_parser import helper
    ser = CSSSerializer(make_prefs(pd, mini))
    ser._level = lvl
    out = Out(ser)
    convs = []
    for vk, v, css, media, ty, fl in items:
        conv = ""
        if vk == "s":
            try:
                conv = helper.string(v) if ty == "STRING" else helper.uri(v) if ty == "URI" else ""
            except Exception:  # noqa
                conv = ""
        convs.append(conv)
    try:
        for vk, v, css, media, ty, fl in items:
            val = None if vk == "n" else v if vk == "s" else _Obj(vk == "t", css, media)
            out.append(val, ty, space=fl[0], keepS=fl[1], indent=fl[2], alwaysS=fl[3])
        lst = list(out.out)
        return [lst, out.value(keepS=keeps)], convs
    except Exception as e:  # noqa
        return ["C", type(e).__name__], convs


def w_str(x):
    return cps(x).replace(" ", ",") if x else "-"


def w_ostr(x):
    return "~" if x is None else w_str(x)


def w_prefs(pd, mini):
    p = make_prefs(pd, mini).__dict__
    bools = "".join("1" if v else "0" for k, v in p.items() if isinstance(v, bool))
    strs = [v for k, v in p.items() if isinstance(v, str) and k != "importHrefFormat"]
    if len(strs) != 8 or len(bools) != 18:
        raise RuntimeError("unexpected shape of the Preferences object: %d bools, %d strings" % (len(bools), len(strs)))
    return " ".join([bools, w_ostr(p["importHrefFormat"])] + [w_str(x) for x in strs])


def append_line(case, convs):
    pd, mini, lvl, keeps, items = case
    parts = ["A", w_prefs(pd, mini), str(lvl), "1" if keeps else "0", str(len(items))]
    for (vk, v, css, media, ty, fl), conv in zip(items, convs):
        parts += [vk, w_str(v), w_ostr(css), w_ostr(media), w_ostr(ty), "".join("1" if b else "0" for b in fl),
                  w_str(conv)]
    return " ".join(parts)


def r_str(x):
    return "" if x == "-" else "".join(chr(int(v)) for v in x.split(","))


def parse_append_out(line):
    if line == "C":
        return ["C"]
    chunks, val = line.rsplit("|", 1)
    return [[r_str(c) for c in chunks.split(";")] if chunks else [], r_str(val)]


# --------------------------------------------------------------------------------------------- token preservation (out_separation on the implementation)
TOKEN_ITEMS = [("a", "IDENT"), ("b1", "IDENT"), ("-x", "IDENT"), ("and", "IDENT"), ("u", "IDENT"), ("e3", "IDENT"),
               ("important", "IDENT"), ("1", "NUMBER"), ("+2", "NUMBER"), ("-1", "NUMBER"), (".5", "NUMBER"),
               ("1.5", "NUMBER"), ("0", "NUMBER"), ("1px", "DIMENSION"), ("50%", "PERCENTAGE"), ("#abc", "HASH"),
               ("#aabbcc", "HASH"), ("s", "STRING"), ("x y", "STRING"), ("", "STRING"), ("x", "URI"), ("a b", "URI"),
               ("f(", "FUNCTION"), ("U+0-7F", "UNICODE-RANGE"), ("@x", "ATKEYWORD"), ("~=", "INCLUDES"),
               ("@media", None), ("red", None), ("x y", None), ("a ", None), ("p|a", None), ("1px", None), ("+", None),
               ("-", None), ("*", None), ("/", None), (" ", "S")] + \
              [(c, "CHAR") for c in "+>~,:{;)]/=}([*-.!|#@<%?"]


def gen_token_case(rng):
    pd = {}
    for n in ("spacer", "listItemSpacer", "propertyNameSpacer", "paranthesisSpacer", "selectorCombinatorSpacer"):
        pd[n] = rng.choice(WS_VALUES)
    pd["lineSeparator"] = rng.choice(LINESEP_VALUES)
    pd["indent"] = rng.choice(INDENT_VALUES)
    pd["indentClosingBrace"] = rng.random() < 0.5
    pd["keepComments"] = rng.random() < 0.7
    pd["minimizeColorHash"] = rng.random() < 0.5
    items = []
    for _ in range(rng.randint(2, 6)):
        r = rng.random()
        if r < 0.06:
            items.append(["t", "", "/*c*/", None, "COMMENT", [True, False, False, False]])
            continue
        if r < 0.1:
            items.append(["s", pd["lineSeparator"], None, None, None, [True, False, False, False]])
            continue
        v, ty = rng.choice(TOKEN_ITEMS)
        fl = [rng.random() < 0.85, rng.random() < 0.15, rng.random() < 0.05, rng.random() < 0.08]
        items.append(["s", v, None, None, ty, fl])
    return [pd, False, rng.randint(0, 1), False, items]


def _toks(text):
    from css_parser.tokenize2 import Tokenizer
    return [(t[0], t[1]) for t in Tokenizer().tokenize(text) if t[0] != "S"]


def impl_tokens_case(case):
    """runs the real Out on the case; returns (self.out, value(), tokens of value()) or None when a call raises"""
    r, convs = impl_append(case)
    if r[0] == "C":
        return None, convs
    try:
        return [r[0], r[1], _toks(r[1])], convs
    except Exception as e:  # noqa
        return ["TOKENIZER", type(e).__name__], convs


def token_oracle(case, impl, mline):
    """None | ('broken', why) | ('fail', why, detail) | ('excused', (left kind, right kind))"""
    import css_parser  # noqa
    if mline in ("C", "BAD"):
        return ("broken", "model raises/BAD where the implementation does not")
    ws, guards, chunks = mline.split("|", 2)
    tagged = []
    for c in (chunks.split(";") if chunks else []):
        tg, t = c.split(":", 1)
        tagged.append((None if tg == "-" else int(tg), r_str(t)))
    if [t for _, t in tagged] != impl[0]:
        return ("broken", "self.out differs from the model list")
    if ws != "1":
        return None
    guards = guards.split(";")
    emitted = [i for i, g in enumerate(guards) if g != "s"]
    pos = {tg: k for k, (tg, _) in enumerate(tagged) if tg is not None}
    text = {tg: t for tg, t in tagged if tg is not None}

    def guarded(i, j):
        return guards[i][1] == "1" and guards[j][2] == "1" and j in text and text[j].strip() != ""
    # (A) the conclusion of out_separation, read off the implementation's list
    for i, j in zip(emitted, emitted[1:]):
        if guarded(i, j):
            if i not in pos or j not in pos:
                return ("fail", "out_separation: the text of a guarded item is missing from self.out", [i, j])
            mid = tagged[pos[i] + 1:pos[j]]
            if any(tg is not None for tg, _ in mid) or any(t.strip(" \t\r\n\f") for _, t in mid) or \
                    not any(t for _, t in mid):
                return ("fail", "out_separation: a guarded pair is not separated by whitespace in self.out", [i, j])
    # (B) token preservation: tokens of value() = the items' own tokens, except at pairs the guards exclude
    exp = []
    for i in emitted:
        if i in text:
            exp += [(tok, i) for tok in _toks(text[i])]
    act = impl[2]
    if [t for t, _ in exp] == act:
        return None
    k = 0
    while k < len(exp) and k < len(act) and exp[k][0] == act[k]:
        k += 1
    k = min(k, len(exp) - 1)
    if k < 0:
        return ("fail", "token preservation: tokens appear from nowhere", act[:3])
    i = exp[k][1]
    e = emitted.index(i)
    cands = []
    if e + 1 < len(emitted) and (k + 1 == len(exp) or exp[k + 1][1] != i):
        cands.append((i, emitted[e + 1]))
    if e > 0 and (k == 0 or exp[k - 1][1] != i):
        cands.append((emitted[e - 1], i))
    if not cands:
        cands = [(i, emitted[e + 1])] if e + 1 < len(emitted) else [(emitted[e - 1], i)] if e > 0 else []
    free = [c for c in cands if not guarded(*c)]
    if not free:
        return ("fail", "token preservation: the token sequence changes at a pair the guards of out_separation cover",
                {"pair": cands, "expected": [t for t, _ in exp][:8], "actual": act[:8]})
    a, b = free[0]
    items = case[4]
    return ("excused", why_unguarded(case[0], items[a], items[b], guards[a], guards[b]))


def why_unguarded(pd, a, b, ga, gb):
    """which exclusion of out_separation applies (in the order the guards are written)"""
    av, aty, afl = a[1] if a[0] == "s" else (a[2] or ""), a[4], a[5]
    bv, bty, bfl = b[1] if b[0] == "s" else (b[2] or ""), b[4], b[5]
    if ga[1] != "1":
        if afl[3] and av in "-+*/":
            return "left: alwaysS operator (own blank)"
        if av in "+>~":
            return "left: one of + > ~ (selectorCombinatorSpacer, may be empty)"
        if av in (",", ":", "{", ";") or (av == ")" and not afl[1]) or aty == "styletext":
            return "left: punctuation with its own spacer preference (, : { ; ) styletext)"
        if av in "}[]()/=":
            return "left: one of } [ ] ( ) / ="
        if not afl[0]:
            return "left: space=False"
        if aty == "FUNCTION":
            return "left: FUNCTION"
        if aty == "STRING" and not pd.get("spacer", " "):
            return "left: STRING under spacer=''"
        return "left: other"
    if bty == "S":
        return "right: S item (is itself the separator)"
    if bty == "STRING" and not pd.get("spacer", " "):
        return "right: STRING under spacer=''"
    if bty not in ("STRING", "URI", "HASH", "COMMENT") and bv in "+>~,:{;)]/=}" and not bfl[3]:
        return "right: one of + > ~ , : { ; ) ] / = }"
    if bv == pd.get("lineSeparator", "\n"):
        return "right: the line separator"
    if bv.endswith(" "):
        return "right: text ends with a space"
    if not bv.strip():
        return "right: blank text"
    return "right: other"


# --------------------------------------------------------------------------------------------- skeleton correspondence
class OutOfScope(Exception):
    pass


def sk_decls(style, ser):
    import css_parser
    toks = [str(len(style.seq))]
    eff = style.getProperties()
    for it in style.seq:
        v = it.value
        if isinstance(v, css_parser.css.CSSComment):
            toks += ["c", w_str(v.cssText)]
        elif isinstance(v, css_parser.css.Property):
            nameseq, value, prio = v.seqs
            if [x for x in nameseq if hasattr(x, "cssText")] or [x for x in prio if hasattr(x, "cssText")] \
                    or v._mediaQuery or (nameseq and list(nameseq) != [v.literalname]) or \
                    (prio and list(prio) != ["!", v.literalpriority]):
                raise OutOfScope("property with comments in name/priority")
            toks += ["p", w_str(v.literalname), w_str(v.name), w_str(value.cssText), "1" if prio else "0",
                     w_str(v.literalpriority), w_str(v.priority), "1" if nameseq else "0",
                     "1" if v.wellformed else "0", "1" if v.valid else "0",
                     "1" if any(v is e for e in eff) else "0"]
        elif isinstance(v, css_parser.css.CSSUnknownRule):
            toks += ["u", w_str(v.cssText)]
        else:
            toks += ["o", w_str(v)]
    return toks


def sk_rule(r, ser, used):
    t = r.type
    if t == r.COMMENT:
        return ["C", w_str(r._cssText or "")]
    if t == r.STYLE_RULE:
        return ["Y", w_str(ser.do_css_SelectorList(r.selectorList)), "1" if r.wellformed else "0"] + sk_decls(r.style, ser)
    if t == r.MEDIA_RULE:
        if r.name:
            raise OutOfScope("named @media")
        toks = ["M", w_ostr(getattr(r, "_keyword", None)), w_str(ser.do_stylesheets_medialist(r.media)),
                "1" if r.media.wellformed else "0", str(len(r.cssRules))]
        for c in r.cssRules:
            toks += sk_rule(c, ser, used)
        return toks
    if t == r.FONT_FACE_RULE:
        if len(r.seq):
            raise OutOfScope("@font-face with comments before {")
        return ["F", w_ostr(getattr(r, "_keyword", None)), "1" if r.wellformed else "0"] + sk_decls(r.style, ser)
    if t == r.NAMESPACE_RULE:
        return ["N", w_str(r.cssText), "1" if r.prefix else "0", "1" if r.namespaceURI in used else "0",
                "1" if None in used else "0"]
    if t == r.UNKNOWN_RULE:
        saved, ser.prefs.formatUnknownAtRules = ser.prefs.formatUnknownAtRules, True
        keep, ser.prefs.keepUnknownAtRules = ser.prefs.keepUnknownAtRules, True
        try:
            formatted = ser.do_CSSUnknownRule(r)
            ser.prefs.formatUnknownAtRules = False
            raw = ser.do_CSSUnknownRule(r)
        finally:
            ser.prefs.formatUnknownAtRules = saved
            ser.prefs.keepUnknownAtRules = keep
        kw = r.atkeyword or ""
        if r.wellformed and not raw.startswith(kw):
            raise OutOfScope("unformatted unknown rule does not start with its keyword")
        raw = raw[len(kw):]
        return ["U", w_str(r.atkeyword or ""), "1" if r.wellformed else "0", w_str(formatted), w_str(raw)]
    return ["O", w_str(r.cssText)]


def skeleton_case(job):
    """(text, prefs, minified) -> (model input line, implementation text) or ('skip', why)"""
    text, pd, mini = job
    import css_parser
    from css_parser.serialize import CSSSerializer
    pd = dict(pd, lineNumbers=False, indentSpecificities=False)
    sheet = _parse(text)
    old = css_parser.ser
    try:
        ser = CSSSerializer(make_prefs(pd, mini))
        css_parser.setSerializer(ser)
        used = sheet._getUsedURIs()
        toks = ["S", w_prefs(pd, mini), str(len(sheet.cssRules))]
        for r in sheet.cssRules:
            toks += sk_rule(r, ser, used)
        try:
            impl = sheet.cssText.decode("utf-8")
        except Exception as e:  # noqa
            impl = None
        return " ".join(toks), impl
    except OutOfScope as e:
        return "skip", str(e)
    except Exception as e:  # noqa  a serialiser method raising while the sheet is abstracted: the end-to-end oracle reports it
        return "skip", "abstraction raised %s" % type(e).__name__
    finally:
        css_parser.setSerializer(old)


# --------------------------------------------------------------------------------------------- the check
def run(ctx):
    thorough = ctx.tier == "thorough"
    rng = ctx.rng
    ctx.regen("prefs")
    ctx.coq_build("props/C05.v")
    binary = ctx.ocaml_build("outmodel")
    space = pref_space()
    corpus_path = VERIF / "corpus" / "C05.json"
    corpus = json.loads(corpus_path.read_text()) if corpus_path.exists() else {}

    # -- presets: model (generated from the source text) vs the running Preferences objects
    n_cmp = 0
    if binary:
        got = ctx.run_binary(binary, ["P d", "P m"])
        want = [w_prefs({}, False), w_prefs({}, True)]
        n_cmp += 2
        if got != want:
            ctx.broken("correspondence", "Gen/Prefs.v presets vs Preferences()/useMinified()", json.dumps([got, want]))

    # -- (a) Out.append, function level
    acases = [c for c in corpus.get("append", [])]
    for _ in range(60000 if thorough else 12000):
        acases.append(gen_append_case(rng, space))
    ares = ctx.pool_map(impl_append, acases, procs=6, chunksize=400)
    a_mism, a_nontrivial, a_crash = [], 0, 0
    if binary:
        lines = [append_line(c, r[1]) for c, r in zip(acases, ares)]
        mout = ctx.run_binary(binary, lines, shards=6)
        for c, r, mo in zip(acases, ares, mout):
            impl = r[0]
            m = parse_append_out(mo) if mo != "BAD" else ["BAD"]
            if impl[0] == "C":
                a_crash += 1
                ok = m == ["C"]
            else:
                ok = m == impl
                if len(impl[0]) >= 3:
                    a_nontrivial += 1
            n_cmp += 1
            if not ok:
                a_mism.append({"case": c, "impl": impl, "model": m})
        if a_mism:
            ctx.broken("correspondence", "serialize.Out.append/value vs CssV.OutModel.run/value",
                       "%d of %d item sequences differ; first: %s" % (len(a_mism), len(acases), json.dumps(a_mism[0])[:1500]))

    # -- (a') out_separation on the implementation: token preservation of Out.value() under whitespace preferences
    tcases = [gen_token_case(rng) for _ in range(40000 if thorough else 8000)]
    tres = ctx.pool_map(impl_tokens_case, tcases, procs=6, chunksize=400)
    t_ok, t_excused, t_reasons, t_fail = 0, 0, {}, 0
    if binary:
        tk = [(c, r) for c, r in zip(tcases, tres) if r[0] is not None and r[0][0] != "TOKENIZER"]
        for c, r in zip(tcases, tres):
            if r[0] is not None and r[0][0] == "TOKENIZER":
                ctx.violation("the tokenizer raises on Out.value()", {"append_case": c})
        mout = ctx.run_binary(binary, ["G" + append_line(c, r[1])[1:] for c, r in tk], shards=6)
        for (c, r), mo in zip(tk, mout):
            v = token_oracle(c, r[0], mo)
            n_cmp += 1
            if v is None:
                t_ok += 1
            elif v[0] == "excused":
                t_excused += 1
                t_reasons[v[1]] = t_reasons.get(v[1], 0) + 1
            elif v[0] == "broken":
                ctx.broken("correspondence", "token stream: " + v[1], json.dumps(c)[:800])
                break
            else:
                t_fail += 1
                if t_fail <= 3:
                    ctx.violation(v[1], {"append_case": shrink_token_case(c, binary, ctx), "detail": v[2]},
                                  sig_text=json.dumps(c))

    # -- preference rows: presets, pairwise array, random points
    base_rows = [({}, False), ({}, True)]
    arr = pairwise(space, rng)
    rows = base_rows + [(prefs_diff(r), False) for r in arr]
    for _ in range(200 if thorough else 40):
        d = {n: rng.choice(space[n]) for n in space if rng.random() < 0.4}
        rows.append((prefs_diff(d), rng.random() < 0.3))
    # singles: every non-default value of every preference on its own (shrinking target, cheap)
    for n in sorted(space):
        for v in space[n][1:]:
            rows.append(({n: v}, False))

    gen_sheets = [gen_sheet(rng) for _ in range(120 if thorough else 22)]
    fixed = corpus.get("sheets", []) + KIND_SHEETS
    samples = sample_sheets(20000 if thorough else 10000)
    numsheets = numeric_sheets(full=thorough)
    nssheets = ns_sheets(thorough)
    declsheets = decl_sheets(4 if thorough else 3)
    histsheets = history_sheets(rng, 300 if thorough else 40)
    hrows = factorial_rows(SPELLING_PREFS)
    sheets = [("corpus", t) for t in fixed] + [("num", t) for t in numsheets] + [("ns", t) for t in nssheets] + [("decl", t) for t in declsheets] + [("hist", t) for t in histsheets] + [("gen", t) for t in gen_sheets] + samples

    # -- (b) skeleton correspondence on the same sheets
    s_rows = rows[:2] + [rows[i] for i in range(2, len(rows), 4 if thorough else 6)]
    sjobs = [(t, pd, mini) for name, t in sheets
             for pd, mini in (s_rows if name in ("gen", "corpus") else s_rows[:2] + s_rows[2::5])
             if name not in ("ns", "decl", "hist") and (name != "num" or not thorough)]
    sres = ctx.pool_map(skeleton_case, sjobs, procs=6, chunksize=40)
    s_skipped, s_mism, s_done = 0, [], 0
    if binary:
        todo = [(j, r) for j, r in zip(sjobs, sres) if r[0] != "skip" and r[1] is not None]
        s_skipped = len(sjobs) - len(todo)
        mout = ctx.run_binary(binary, [r[0] for _, r in todo], shards=6)
        for (j, r), mo in zip(todo, mout):
            s_done += 1
            n_cmp += 1
            got = None if mo in ("C", "BAD") else r_str(mo)
            if got != r[1]:
                s_mism.append({"sheet": j[0] if isinstance(j[0], str) else j[0].decode("latin-1"), "prefs": j[1],
                               "minified": j[2], "impl": r[1][:300], "model": (got or mo)[:300]})
        if s_mism:
            ctx.broken("correspondence", "CSSSerializer.do_CSSStyleSheet (skeleton) vs CssV.OutModel.do_sheet",
                       "%d of %d differ; first: %s" % (len(s_mism), s_done, json.dumps(s_mism[0])[:1500]))

    # -- the property-level oracle (end to end, independent of the model)
    # generated and corpus sheets see every row; the (larger) sample sheets the presets and a slice of the array
    step = 6 if thorough else 8
    small = rows[:2] + rows[2 + (ctx.seed % step)::step]
    # the numeric matrix: every row in the quick tier (16 sheets); in the thorough tier (full unit product, ~150
    # sheets) every row that touches number spelling (omitLeadingZero / useMinified) plus the slice
    orows = omission_rows()
    drows = factorial_rows(DECL_PREFS)
    numrows = rows if not thorough else small + [r for r in rows[2:] if r[1] or "omitLeadingZero" in r[0]]
    jobs = [(t, rows if name in ("gen", "corpus") else numrows if name == "num" else
             (orows + (small if thorough else [])) if name == "ns" else drows if name == "decl" else hrows if name == "hist" else small)
            for name, t in sheets]
    t0 = time.time()
    eres = ctx.pool_map(e2e_job, jobs, procs=6, chunksize=1)
    evals = sum(len(j[1]) for j in jobs)
    skipped, fails = 0, []
    skip_sheets = set()
    for (name, t), job, res in zip(sheets, jobs, eres):
        for i, v in res:
            if v[0] == "skip":
                skipped += 1
                skip_sheets.add(name if name not in ("gen", "corpus", "num", "ns", "decl", "hist") else str(t)[:60])
            else:
                fails.append((t, job[1][i], v[1]))
    reported, n_shrunk, n_known = {}, 0, 0

    def sig_of(sheet_spec, prefs_):
        return json.dumps({"prefs": sorted(prefs_), "sheet": sheet_spec if isinstance(sheet_spec, (str, list)) else
                           sheet_spec.decode("latin-1")})
    for t, (pd, mini), what in fails:
        # a failure that already matches an open finding as it stands is counted, not shrunk, and never hides others
        if ctx.match_known(what + " :: " + sig_of(t, prefs_diff(pd) if not mini else dict(pd))):
            n_known += 1
            continue
        k = klass(what) + "|" + "|".join(sorted(prefs_diff(pd) if not mini else ["minified"] + sorted(pd)))[:80]
        if k in reported or n_shrunk >= 30:
            continue
        reported[k] = 1
        n_shrunk += 1
        t2, pd2, mini2 = shrink_case(t, pd, mini, klass(what))
        v = e2e_one(t2, pd2, mini2)
        what2 = v[1] if v and v[0] == "fail" else what
        t2s = t2 if isinstance(t2, (str, list)) else t2.decode("latin-1")
        wkey = json.dumps([t2s, pd2, mini2], sort_keys=True)
        if wkey in reported:
            continue
        reported[wkey] = 1
        if not ctx.violation(what2, {"sheet": t2s, "prefs": pd2, "minified": mini2}, sig_text=sig_of(t2s, pd2)):
            del reported[k]          # it shrank to an open finding: another failure with this key may be a new one
            n_known += 1
        if len(ctx.violations) >= 8:
            break

    # -- stored witnesses of open findings are re-run so that KNOWN-FINDING lines are printed only while they reproduce
    for f in ctx.findings:
        if f.get("status") == "open":
            w = f["witness"]
            v = e2e_one(w["sheet"], w["prefs"], w.get("minified", False))
            if v and v[0] == "fail":
                ctx.violation(v[1], w, sig_text=json.dumps({"prefs": sorted(w["prefs"]), "sheet": w["sheet"]}))

    def search():
        t0 = time.time()
        budget = 280 if thorough else 55
        r2 = random.Random(ctx.seed + 1)
        while time.time() - t0 < budget:
            ss = [gen_sheet(r2) for _ in range(12)]
            rws = [({}, True)] + [(prefs_diff({n: r2.choice(space[n]) for n in space if r2.random() < 0.3}),
                                   r2.random() < 0.3) for _ in range(30)]
            res = ctx.pool_map(e2e_job, [(t, rws) for t in ss], procs=6, chunksize=1)
            for t, rr in zip(ss, res):
                for i, v in rr:
                    if v[0] == "fail":
                        sig = json.dumps({"prefs": sorted(rws[i][0]), "sheet": t})
                        if ctx.match_known(v[1] + " :: " + sig):
                            continue
                        t2, pd2, m2 = shrink_case(t, rws[i][0], rws[i][1], klass(v[1]))
                        return {"sheet": t2, "prefs": pd2, "minified": m2, "fails": v[1]}
        return None

    ctx.finish({
        "evaluations": evals + len(acases) + s_done + len(tcases),
        "token_preservation": {"cases": len(tcases), "tokens_preserved": t_ok, "changed_at_an_excluded_pair": t_excused,
                               "changed_at_a_guarded_pair": t_fail,
                               "exclusions_seen": dict(sorted(t_reasons.items(), key=lambda kv: -kv[1]))},
        "distinct_nontrivial": a_nontrivial + s_done + (evals - skipped),
        "rule": "end-to-end: %d preference rows (useDefaults, useMinified, a %d-row pairwise-covering array over all %d "
                "preferences, random points, every single non-default value) x %d sheets (%d generated over the "
                "grammar incl. random numeric shapes, %d numeric-matrix sheets [sign x integer part x fraction x unit], %d value-kind "
                "sheets [colours, strings, urls, unicode-range, !important], %d namespace sheets [selector item kind as only user of a "
                "prefix x top-level/@media x body kind] under the %d-row factorial of the omitting preferences, %d declaration-block sheets [every sequence over two names x "
                "!important x comment x unknown name] under the %d-row factorial of the declaration preferences, %d mutation histories [a sheet with non-default literal "
                "spellings + API assignments to atkeyword/margin/cssText/name/priority/setProperty] under the %d-row factorial "
                "of the spelling preferences, %d repository sample sheets) = %d oracle evaluations, %d skipped because the DEFAULT "
                "serialisation already does not round-trip; Out.append: %d random item sequences x random "
                "preferences (%d raise in both, %d with >= 3 output elements); skeleton: %d (sheet, preferences) pairs "
                "compared, %d out of the skeleton's scope; non-trivial = not skipped / >= 3 output elements" % (
                    len(rows), len(arr), len(space), len(sheets), len(gen_sheets), len(numsheets), len(KIND_SHEETS),
                    len(nssheets), len(orows), len(declsheets), len(drows), len(histsheets), len(hrows), len(samples), evals, skipped,
                    len(acases), a_crash, a_nontrivial, s_done, s_skipped),
        "samples": [{"prefs": rows[5][0], "sheet": gen_sheets[0][:200]},
                    {"append_case": acases[-1]}, {"skipped_sheets": sorted(skip_sheets)[:8]}],
        "disagreements_checked": n_cmp if binary else 0,
        "oracle_wall_s": round(time.time() - t0, 1),
        "oracle_failures_matching_open_findings": n_known,
        "trusted_base": TRUSTED,
    }, assumptions=ASSUME, search=search)


def token_verdict(case, binary, ctx):
    r, convs = impl_tokens_case(case)
    if r is None or r[0] == "TOKENIZER":
        return None
    mo = ctx.run_binary(binary, ["G" + append_line(case, convs)[1:]])[0]
    return token_oracle(case, r, mo)


def shrink_token_case(case, binary, ctx):
    pd, mini, lvl, keeps, items = case

    def fails(its):
        if not its:
            return False
        v = token_verdict([pd, mini, lvl, keeps, list(its)], binary, ctx)
        return bool(v) and v[0] == "fail"
    try:
        items = shrink_seq(items, fails, max_rounds=20)
    except Exception:  # noqa
        pass
    return [pd, mini, lvl, keeps, list(items)]


def replay(ctx, path):
    rep = json.loads(open(path).read())
    bad = 0
    for v in rep.get("violations", []):
        w = v["witness"]
        if "append_case" in w:
            binary = ctx.ocaml_build("outmodel")
            tv = token_verdict(w["append_case"], binary, ctx) if binary else None
            print("replay item sequence %s -> %s" % (json.dumps(w["append_case"])[:300], tv[1] if tv else "holds"))
            bad += bool(tv and tv[0] == "fail")
            continue
        r = e2e_one(w["sheet"], w["prefs"], w.get("minified", False))
        print("replay prefs=%r sheet=%r -> %s" % (w["prefs"], str(w["sheet"])[:300], r[1] if r else "holds"))
        bad += bool(r and r[0] == "fail")
    return 1 if bad else 0


TRUSTED = [
    "Coq 8.16.1 kernel and VM (vm_compute for glue_complete and the Examples); no native_compute",
    "translate/prefs.py (ast extraction of the presets and of Out.append's literals; shape hashes of the transcribed functions)",
    "extraction (ExtrOcamlBasic) + ocamlfind ocamlopt, ocaml/outmodel_driver.ml",
    "harness/props/c05.py: item/sheet generators, the skeleton abstraction of real sheets, the object-model extractor and "
    "filter_model (the executable reading of what each preference is documented to omit)",
    "helper.string / helper.uri results enter the Out model as given texts (field iconv; owned by C03/C12)",
    "value, selector, media-query and unknown-rule texts are opaque strings in the skeleton; in general the re-parse is the "
    "named hypothesis reparse_faithful of prefs_preserve_meaning_partial (validated by the end-to-end oracle). It is "
    "hypothesis-free ONLY for the fragment of prefs_preserve_meaning_pp (OutModelPP.v): C02's sheet pp_sheet (comment, rule "
    "set with a two-selector group and three declarations incl. string, signed number, dimension/percentage, rgb(), url(), "
    "hash, !important, @media with a two-query list, nested @media) written by do_sheet under the 146 preference records of "
    "frag_prefs (both presets; spacer=paranthesisSpacer, listItemSpacer, propertyNameSpacer, selectorCombinatorSpacer in "
    "{'', ' '} x lineSeparator in {'\\n', '', ' '} x keepComments; indent x omitLastSemicolon x indentClosingBrace x "
    "lineSeparator), re-parsed by the modelled tokenizer + skeleton + ProdParser value/media builders and compared with "
    "Grammar.expected_model(_nocomments); decided by vm_compute, piece texts hand-spelled with the record's spacers",
    "the shared tokenizer model (Tokenizer.v, tied by C08) for glue_complete",
]
ASSUME = [
    "out_separation is stated for preference records whose spacer strings contain only CSS whitespace (ws_prefs), and for "
    "item pairs satisfying the explicit guards leaves_sep / keeps_sep (space=True, not FUNCTION, ...)",
    "lineNumbers=True output is only required not to raise; indentSpecificities only changes indentation",
    "sheets whose DEFAULT serialisation does not round-trip are C03's subject and are skipped (counted in evidence)",
]
