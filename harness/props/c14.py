"""C14 -- CSS codec: detection priority, inverse, chunking invariance (src/css_parser/_codec3.py).

proof:          coq/props/C14.v over coq/theories/Codec.v (one-shot + incremental state machines, abstract
                underlying codec) and the regenerated Gen/CodecFns.v (detectencoding_str/_unicode, _fixencoding)
tie:            translate/codec.py regenerates the three pure functions on every run (function-level
                correspondence on top); the hand-written classes are compared with the extracted model
                instantiated with Gallina codecs (CodecConcrete.v) on every case below
oracle/search:  the property evaluated on the implementation alone: chunked == one-shot (values, exception
                class, output types), detection priority against an independent reference, rewrite of the
                @charset rule, decode(encode(t)) == t up to the rewrite
"""
import codecs
import itertools
import json
import re
import time

from harness.lib import VERIF

# ------------------------------------------------------------------------------------------------ canonical forms
def exc_enum(e):
    if isinstance(e, UnicodeError):
        return "Unicode"
    if isinstance(e, LookupError) and not isinstance(e, (IndexError, KeyError)):
        return "Lookup"
    if isinstance(e, ValueError):
        return "Value"
    if isinstance(e, AttributeError):
        return "Attr"
    if isinstance(e, TypeError):
        return "Type"
    if isinstance(e, IndexError):
        return "Index"
    return type(e).__name__


def cps(x):
    """str or bytes -> space separated decimal code points / byte values"""
    if isinstance(x, (bytes, bytearray)):
        return " ".join(str(b) for b in x)
    return " ".join(str(ord(c)) for c in x)


def kw_of(case):
    kw = {}
    if case.get("enc") is not None:
        kw["encoding"] = case["enc"]
    if case["k"] == "D" and not case.get("force", True):
        kw["force"] = False
    if case.get("errors", "strict") != "strict":
        kw["errors"] = case["errors"]
    return kw


def chunks_of(case):
    if case["k"] == "D":
        return [bytes.fromhex(c) for c in case["chunks"]]
    return list(case["chunks"])


def impl_run(case):
    """-> (one-shot result, joined incremental result, type problem or None, trace); a result is ["OK", cps] or
    ["ERR", enum]; trace = the result of every incremental call up to and including the first one that raises"""
    import css_parser.codec  # noqa: F401  (registers the codec)
    kw = kw_of(case)
    chunks = chunks_of(case)
    dec = case["k"] == "D"
    whole = (b"" if dec else "").join(chunks)
    want = str if dec else bytes
    typ = None
    trace = []
    try:
        f = codecs.getdecoder("css") if dec else codecs.getencoder("css")
        r = f(whole, **kw)[0]
        if not isinstance(r, want):
            typ = "one-shot returned %s" % type(r).__name__
            one = ["ERR", "None" if r is None else "TypeOf" + type(r).__name__]
        else:
            one = ["OK", cps(r)]
    except Exception as e:  # noqa
        one = ["ERR", exc_enum(e)]
    try:
        o = (codecs.getincrementaldecoder("css") if dec else codecs.getincrementalencoder("css"))(**kw)
        outs = []
        for i, c in enumerate(chunks):
            r = (o.decode if dec else o.encode)(c, i == len(chunks) - 1)
            if not isinstance(r, want):
                typ = typ or "incremental call %d returned %s %r" % (i, type(r).__name__, r)
                r = want() if not r else r
            outs.append(r)
            trace.append(["OK", cps(r)])
        inc = ["OK", cps(want().join(outs))]
    except Exception as e:  # noqa
        inc = ["ERR", exc_enum(e)]
        trace.append(["ERR", exc_enum(e)])
    return one, inc, typ, trace


class _Rec(object):
    def __init__(self):
        self.w = []

    def write(self, d):
        self.w.append(d)


def impl_sw(case):
    """codecs.getwriter('css') fed the chunks: (trace of what every write() put on the stream, str-typed write?, one-shot)"""
    import css_parser.codec  # noqa: F401
    kw = kw_of(case)
    chunks = chunks_of(case)
    rec = _Rec()
    trace, strtyped = [], None
    try:
        w = codecs.getwriter("css")(rec, **kw)
        for i, c in enumerate(chunks):
            n = len(rec.w)
            w.write(c)
            data = rec.w[n:]
            if any(isinstance(x, str) for x in data) and strtyped is None:
                strtyped = "write %d put %r (str) on the byte stream" % (i, [x for x in data if isinstance(x, str)][0])
            trace.append(["OK", cps(b"".join(x.encode("latin-1") if isinstance(x, str) else x for x in data))])
    except Exception as e:  # noqa
        trace.append(["ERR", exc_enum(e)])
    try:
        one = ["OK", cps(codecs.getencoder("css")("".join(chunks), **kw)[0])]
    except Exception as e:  # noqa
        one = ["ERR", exc_enum(e)]
    return trace, strtyped, one


class _ChunkStream(object):
    """a byte stream that delivers the given chunks one per read() call, then b''"""
    def __init__(self, chunks):
        self.c = list(chunks)

    def read(self, size=-1):
        return self.c.pop(0) if self.c else b""


def impl_sr(case):
    """codecs.getreader('css')(stream).read() -> (result of every decode() call, read() result, one-shot decode)"""
    import css_parser.codec  # noqa: F401
    kw = kw_of(case)
    chunks = [c for c in chunks_of(case) if c]
    trace = []
    try:
        r = codecs.getreader("css")(_ChunkStream(chunks), **kw)
        orig = r.decode

        def dec(data, errors="strict"):
            try:
                out = orig(data, errors)
            except Exception as e:  # noqa
                trace.append(["ERR", exc_enum(e)])
                raise
            trace.append(["OK", cps(out[0])])
            return out
        r.decode = dec
        res = ["OK", cps(r.read())]
    except Exception as e:  # noqa
        res = ["ERR", exc_enum(e)]
    try:
        one = ["OK", cps(codecs.getdecoder("css")(b"".join(chunks), **kw)[0])]
    except Exception as e:  # noqa
        one = ["ERR", exc_enum(e)]
    return trace, res, one


def strip_trace(tr):
    tr = [norm_res(x) for x in tr]
    while tr and tr[-1] == ["OK", []]:
        tr.pop()
    return tr


def sr_oracle(case, trace, res, one):
    """what does hold for the StreamReader: the text read is a prefix of the one-shot text"""
    out = []
    if res[0] == "OK" and one[0] == "OK":
        a, b = res[1].split(), one[1].split()
        if b[:len(a)] != a:
            out.append(("StreamReader.read() returned text that is not a prefix of the one-shot text", "css"))
    elif res[0] == "ERR" and one[0] == "OK":
        tag = cause_tag(case, b"".join(c for c in chunks_of(case)))
        if not tag.startswith("cpython-codec-inconsistent"):
            out.append(("StreamReader raises %s where the one-shot decoder returns text" % res[1], tag))
    return out


def undecided_text(text):
    """the @charset header of `text` cannot be decided without knowing that the text ends here"""
    return '@charset "'.startswith(text) or (text.startswith('@charset "') and '"' not in text[10:])


def sw_oracle(case, trace, strtyped, one):
    out = []
    whole = "".join(case["chunks"])
    if strtyped:
        out.append(("StreamWriter puts str on the byte stream: " + strtyped, "sw-str"))
    got = collapse(trace)
    if undecided_text(whole):
        if got != norm_res(one):
            out.append(("StreamWriter loses a text whose @charset header is still undecided when writing stops",
                        "sw-undecided-eof"))
    elif got != norm_res(one):
        out.append(("StreamWriter content differs from one-shot encode", "css"))
    return out


def impl_fn(case):
    from css_parser import _codec3 as C
    k, final = case[0], bool(case[1])
    try:
        if k == "S":
            e, x = C.detectencoding_str(bytes.fromhex(case[2]), final)
            return ("NONE" if e is None else ("SOME " + cps(e)).rstrip() if e else "SOME") + (" T" if x else " F")
        if k == "U":
            e, x = C.detectencoding_unicode(case[2], final)
            return ("NONE" if e is None else ("SOME " + cps(e)).rstrip() if e else "SOME") + (" T" if x else " F")
        r = C._fixencoding(case[3], case[2], final)
        return "NONE" if r is None else ("SOME " + cps(r)).rstrip()
    except Exception as e:  # noqa
        return "EXC " + exc_enum(e)


def model_line(case):
    enc = "-" if case.get("enc") is None else cps(case["enc"])
    cs = ";".join(cps(c) for c in chunks_of(case))
    if case["k"] == "D":
        return "D|%s|%d|%s" % (enc, 1 if case.get("force", True) else 0, cs)
    return "E|%s|%s" % (enc, cs)


def model_trace(txt):
    return [model_res(x) for x in txt.split(" ; ")]


def norm_res(r):
    return [r[0], r[1].split()]


def collapse(trace):
    out = []
    for r in trace:
        if r[0] != "OK":
            return [r[0], r[1].split()]
        out += r[1].split()
    return ["OK", out]


def compare_model(line, impl):
    """model line '<one-shot> # <trace>' against the implementation's (one, joined, typ, trace); None when equal"""
    m_one, m_tr = line.split(" # ")
    m_one, m_tr = model_res(m_one), model_trace(m_tr)
    one, inc, _, tr = impl
    if norm_res(m_one) != norm_res(one) or [norm_res(x) for x in m_tr] != [norm_res(x) for x in tr] \
            or collapse(m_tr) != norm_res(inc):
        return {"impl": [one, tr], "model": [m_one, m_tr]}
    return None


def model_res(txt):
    txt = txt.strip()
    if txt.startswith("OK"):
        return ["OK", txt[2:].strip()]
    return ["ERR", txt[4:].strip()]


# ------------------------------------------------------------------------------------------------ reference (oracle)
MODEL_TABLE = {"utf-8": "utf-8", "utf8": "utf-8", "utf-8-sig": "utf-8-sig", "utf-16": "utf-16", "utf-16-le": "utf-16-le",
               "utf-16-be": "utf-16-be", "utf-32": "utf-32", "utf-32-le": "utf-32-le", "utf-32-be": "utf-32-be",
               "latin-1": "latin-1", "iso-8859-1": "latin-1", "latin1": "latin-1", "ascii": "ascii", "us-ascii": "ascii"}


def model_knows(name):
    return MODEL_TABLE.get(name.replace("_", "-").lower())


def python_knows(name):
    import css_parser.codec  # noqa: F401
    try:
        n = codecs.lookup(name).name
    except Exception:  # noqa
        return None
    return {"iso8859-1": "latin-1"}.get(n, n)


def is_css_name(name):
    import css_parser.codec  # noqa: F401  (registers the codec in this process)
    try:
        return codecs.lookup(name).name == "css"
    except Exception:  # noqa
        return False


def lookup_raises_only_lookuperror(name):
    import css_parser.codec  # noqa: F401
    try:
        codecs.lookup(name)
    except LookupError:
        return True
    except Exception:  # noqa
        return False
    return True


def same_codec_knowledge(name):
    if name is None:
        return True
    if not lookup_raises_only_lookuperror(name):
        return False          # codecs.lookup raises UnicodeError (surrogate) / ValueError (NUL): outside the model
    if python_knows(name) == "css":
        return True           # every spelling of the codec's own name: modelled by Codec.is_css
    return model_knows(name) == python_knows(name)


RULE = re.compile(r'\A@charset "([^"]*)"', re.S)


def ref_detect_bytes(b):
    """independent reading of the CSS rules: (encoding, explicit).  BOM, else @charset (also as it looks in
    UTF-16/32 without BOM: CSS 2.1 appendix / table at the top of _codec3.py), else utf-8."""
    if b[:3] == b"\xef\xbb\xbf":
        return "utf-8-sig", True
    if b[:4] == b"\xff\xfe\x00\x00" or b[:4] == b"\x00\x00\xfe\xff":
        return "utf-32", True
    if b[:2] in (b"\xff\xfe", b"\xfe\xff"):
        return "utf-16", True
    if b[:4] == b"@\x00\x00\x00":
        return "utf-32-le", False
    if b[:4] == b"\x00\x00\x00@":
        return "utf-32-be", False
    if b[:4] == b"@\x00c\x00":
        return "utf-16-le", False
    if b[:2] == b"\x00@":
        return "utf-16-be", False
    m = RULE.match(b.decode("latin-1"))
    if m:
        return m.group(1), True
    return "utf-8", False


def ref_used_encoding(b, enc, force):
    d, explicit = ref_detect_bytes(b)
    if enc is None:
        return d
    if force:
        return enc
    return d if explicit else enc


def ref_fix(text, enc):
    if enc.replace("_", "-").lower() == "utf-8-sig":
        enc = "utf-8"
    m = RULE.match(text)
    if m:
        return '@charset "' + enc + text[m.end(1):]
    return text


def norm_rule(text):
    m = RULE.match(text)
    return ('@charset ""' + text[m.end():]) if m else text


def uncps(x):
    return "".join(chr(int(v)) for v in x.split())


def oracle(case, one, inc, typ):
    """property statements on the implementation; returns list of (description, tag)"""
    out = []
    dec = case["k"] == "D"
    what = "decoder" if dec else "encoder"
    chunks = chunks_of(case)
    whole = (b"" if dec else "").join(chunks)
    if typ:
        out.append(("css %s output has the wrong type: %s" % (what, typ), "type"))
    if one != inc:
        out.append(("incremental %s differs from one-shot %s" % (what, "decode" if dec else "encode"),
                    cause_tag(case, whole)))
    if dec and case.get("errors", "strict") == "strict":
        used = ref_used_encoding(whole, case.get("enc"), case.get("force", True))
        if is_css_name(used):
            exp = ["ERR", "Value"]
        else:
            try:
                exp = ["OK", cps(ref_fix(codecs.getdecoder(used)(whole)[0], used))]
            except Exception as e:  # noqa
                exp = ["ERR", exc_enum(e)]
        if one != exp:
            out.append(("one-shot decode does not follow the detection priority / @charset rewrite "
                        "(reference encoding %r)" % used, "priority"))
    return out


def cause_tag(case, whole):
    """is the chunked/one-shot difference already present in the CPython codec the css codec delegates to?"""
    try:
        if case["k"] == "D":
            used = ref_used_encoding(whole, case.get("enc"), case.get("force", True))
            name = python_knows(used)
            if name is None:
                return "css"
            er = case.get("errors", "strict")
            try:
                a = ["OK", codecs.getdecoder(used)(whole, er)[0]]
            except Exception as e:  # noqa
                a = ["ERR", exc_enum(e)]
            try:
                b = ["OK", codecs.getincrementaldecoder(used)(er).decode(whole, True)]
            except Exception as e:  # noqa
                b = ["ERR", exc_enum(e)]
            if a != b:
                boms = {"utf-16": (b"\xff\xfe", b"\xfe\xff"), "utf-32": (b"\xff\xfe\x00\x00", b"\x00\x00\xfe\xff"),
                        "utf-8-sig": (b"\xef\xbb\xbf",)}.get(name, ())
                bom = any(whole.startswith(x) for x in boms)
                return "cpython-codec-inconsistent:%s:%s" % (name, "bom" if bom else "no-bom")
    except Exception:  # noqa
        pass
    return "css"


def inverse_oracle(text, enc):
    """decode(encode(t)) == t up to the rewrite of the @charset rule; returns description or None"""
    import css_parser.codec  # noqa: F401
    kw = {} if enc is None else {"encoding": enc}
    try:
        b = codecs.getencoder("css")(text, **kw)[0]
    except Exception:  # noqa
        return None
    try:
        back = codecs.getdecoder("css")(b, **kw)[0]
    except Exception as e:  # noqa
        return "decoding the encoded text raises " + exc_enum(e)
    if norm_rule(back) != norm_rule(text):
        return "decode(encode(text)) differs from text beyond the @charset rule"
    m = RULE.match(back)
    if m and enc is not None:
        want = "utf-8" if enc.replace("_", "-").lower() == "utf-8-sig" else enc
        if m.group(1) != want:
            return "@charset rule names %r, encoding used was %r" % (m.group(1), want)
    return None


def impl_inverse(case):
    return inverse_oracle(case[0], case[1])


# ------------------------------------------------------------------------------------------------ case generation
NAMES = ["utf-8", "UTF_8_SIG", "utf-8-sig", "latin-1", "iso-8859-1", "ascii", "utf-16", "utf-16-le", "utf-16-be",
         "utf-32", "utf-32-le", "utf-32-be", "x", "css", "", "Utf-8", "CSS", ";css", "c ss"]
REAL = ["utf-8", "utf-8-sig", "latin-1", "ascii", "utf-16", "utf-16-le", "utf-16-be", "utf-32", "utf-32-le", "utf-32-be"]
BODIES = ["", "a", "g\xfc", "€{}", "a\U00010000", ";a{}"]
BOMS = [b"", b"\xef\xbb\xbf", b"\xff\xfe", b"\xfe\xff", b"\xff\xfe\x00\x00", b"\x00\x00\xfe\xff"]
RAW = [b"", b"\xef", b"\xef\xbb", b"\xef\xbb\xbf", b"\xef\xbb\xbfa", b"\xff", b"\xff\xfe", b"\xff\xfe\x00", b"\xff\xfe\x00\x00",
       b"\xff\xfea\x00", b"\xff\xfe\x00\x00a\x00\x00\x00", b"\xfe\xff", b"\xfe\xff\x00a", b"\x00", b"\x00\x00", b"\x00\x00\xfe",
       b"\x00\x00\xfe\xff", b"\x00\x00\xfe\xff\x00\x00\x00a", b"@", b"@\x00", b"@\x00c", b"@\x00c\x00", b"@\x00\x00", b"@\x00\x00\x00",
       b"\x00@", b"\x00@\x00c", b"\x00\x00\x00@", b"\x00\x00\x00", b"@c", b"@ch", b"@cha", b"@chb", b"a\x00b\x00", b"ab", b"a",
       b"\xc3", b"\xc3\xa9", b"\xe2\x82", b"\xe2\x82\xac", b"\xf0\x90\x80", b"\xf0\x90\x80\x80", b"\xed\xa0\x80", b"\xc0\x80", b"\xff\xff",
       b"\x00\xd8", b"\x00\xd8\x00\xdc", b"\x00\xdc", b"\xd8\x00", b"a\x00\x00\x00", b"\x00\x00\x11\x00", b"\x00\xd8\x00\x00",
       b'@charset "', b'@charset "x', b'@charset "latin-1";\xe9', b'@charset "ascii";\xe9', b'@charset ""', b'@charset "";a',
       b'@charset "css";', b"@charset 'utf-8';", b'@CHARSET "ascii";', b'@charset  "ascii";', b' @charset "ascii";']


def heads(name):
    full = '@charset "%s";' % name
    return [full, full[:-1], full[:-2], '@charset "']


def dec_inputs():
    """byte strings: texts with complete / truncated / mis-named rules in several encodings, with and without BOM"""
    seen, out = set(), []

    def add(b):
        if b not in seen:
            seen.add(b)
            out.append(b)
    for r in RAW:
        add(r)
    for name in NAMES:
        for h in heads(name):
            for body in BODIES[:4]:
                text = h + body
                for codec in ("utf-8", "latin-1", "utf-16-le", "utf-16-be", "utf-32-le", "utf-32-be", "utf-16", "utf-8-sig"):
                    if codec.startswith("utf-32") and (name not in ("utf-32", "utf-32-le", "x") or body not in ("", "a")):
                        continue
                    if codec.startswith("utf-16") and (name not in ("utf-16", "utf-16-le", "utf-16-be", "x", "utf-8") or body not in ("", "€{}")):
                        continue
                    try:
                        add(text.encode(codec))
                    except UnicodeError:
                        pass
    for bom in BOMS[1:]:
        for t in ("", "a", '@charset "utf-8";a', '@charset "x'):
            add(bom + t.encode("utf-8"))
    return out


def enc_inputs():
    out = []
    for name in NAMES + ["u\xfc"]:
        for h in heads(name) + ['@charset "%s"; ' % name]:
            for body in BODIES:
                out.append(h + body)
    out += ["", "a", "@", "@charset", "@charset ", "@chbrset", "\ud800", "a\udfff", "﻿a", '@charset "a"b";c',
            "@charset 'utf-8';", '@CHARSET "ascii";', ' @charset "ascii";', '@charset "utf-8";\ud800', '@charset "ascii";\xe9']
    seen = set()
    return [t for t in out if not (t in seen or seen.add(t))]


# ---- long @charset headers: a rule head whose closing quote (if any) is far away.  Every place where the code could
#      bound how long it waits for that quote is a length threshold; cut points are put around all of them.
LONG_LENGTHS = [31, 60, 64, 65, 74, 75, 100, 128, 200]
THRESHOLDS = [1, 2, 3, 4, 8, 10, 11, 16, 20, 32, 63, 64, 65, 73, 74, 75, 76, 84, 85, 86, 96, 127, 128, 129, 138, 139, 192, 210]


def long_texts():
    out = []
    for n in LONG_LENGTHS:
        name = ("x-" * n)[:n]
        filler = ("a {c:d}\n" * n)[:n]
        out.append('@charset "%s";a{}' % name)                      # complete rule, long name
        out.append('@charset "%s";a{content:"x" }' % name)          # ... and a later string
        out.append('@charset "utf-8;%sa{content:"x" }\n' % filler)  # unterminated rule, a quote much later
        out.append('@charset "%s' % filler)                          # unterminated, never a quote
    return out


def long_dec_inputs():
    """(bytes, decoder kwargs): the encoding is known without the rule (BOM / UTF-16/32 pattern / argument) or from it"""
    out = []
    for t in long_texts():
        for codec, kws in (("utf-8", [(None, True), ("utf-8", True), ("latin-1", True), ("ascii", False)]),
                           ("utf-8-sig", [(None, True)]), ("utf-16", [(None, True)]), ("utf-16-le", [(None, True)]),
                           ("utf-32", [(None, True)])):
            if codec == "utf-32" and len(t) > 110:
                continue
            b = t.encode(codec)
            for kw in kws:
                out.append((b, kw))
    return out


def threshold_cuts(x, unit=1):
    """cut positions around every length threshold (in characters of `unit` bytes, with and without a BOM offset) and
    around every quotation mark"""
    n = len(x)
    pos = {0, n, n - 1}
    for th in THRESHOLDS:
        for off in (0, 2, 3, 4):
            for d in (-1, 0, 1):
                pos.add(th * unit + off + d)
    q = 34 if isinstance(x, (bytes, bytearray)) else '"'
    for i, ch in enumerate(x):
        if ch == q:
            pos.update((i - 1, i, i + 1, i + unit))
    return sorted(p for p in pos if 0 <= p <= n)


def cuts(n, k):
    """all ways to cut a sequence of length n into k+1 (possibly empty) consecutive chunks"""
    return itertools.combinations_with_replacement(range(n + 1), k)


def split(x, pts):
    pts = [0] + list(pts) + [len(x)]
    return [x[a:b] for a, b in zip(pts, pts[1:])]


def gen_cases(ctx, thorough):
    rng = ctx.rng
    cases = []
    dkw = [(None, True)] + [(n, True) for n in ("utf-8", "utf-8-sig", "latin-1", "utf-16", "utf-16-le", "utf-32", "x", "UTF_8_SIG")] + \
          [(n, False) for n in ("latin-1", "ascii", "utf-16", "x")]
    full2 = 26 if thorough else 22
    for b in dec_inputs():
        for enc, force in dkw:
            if enc is not None and len(b) > 20 and rng.random() < (0.5 if thorough else 0.8):
                continue
            n = len(b)
            plist = [()] + list(cuts(n, 1))
            if n <= full2 and (enc is None or n <= 12 or thorough):
                plist += list(cuts(n, 2))
            else:
                plist += [tuple(sorted(rng.randint(0, n) for _ in range(2))) for _ in range(12 if not thorough else 60)]
            if thorough:
                plist += [tuple(sorted(rng.randint(0, n) for _ in range(3))) for _ in range(20)]
            plist += [tuple(sorted(rng.sample(range(n + 1), min(n + 1, rng.randint(3, 8))))) for _ in range(3)]
            plist.append(tuple(range(1, n)))          # byte by byte
            for p in plist:
                cases.append({"k": "D", "enc": enc, "force": force, "chunks": [c.hex() for c in split(b, p)]})
    ekw = [None, "utf-8", "utf-8-sig", "UTF_8_SIG", "latin-1", "ascii", "utf-16", "utf-16-be", "utf-32", "x", "css", "Css"]
    for t in enc_inputs():
        for enc in ekw:
            if enc is not None and rng.random() < (0.3 if thorough else 0.6):
                continue
            n = len(t)
            plist = [()] + list(cuts(n, 1))
            if n <= (20 if thorough else 14):
                plist += list(cuts(n, 2))
            else:
                plist += [tuple(sorted(rng.randint(0, n) for _ in range(2))) for _ in range(10 if not thorough else 40)]
            plist.append(tuple(range(1, n)))
            for p in plist:
                cases.append({"k": "E", "enc": enc, "chunks": split(t, p)})
    # long headers: cuts around every length threshold, single and in pairs
    for b, (enc, force) in long_dec_inputs():
        unit = 4 if b[:4] in (b"\xff\xfe\x00\x00", b"\x00\x00\xfe\xff") else 2 if (b[:2] in (b"\xff\xfe", b"\xfe\xff") or b[1:2] == b"\x00") else 1
        tc = threshold_cuts(b, unit)
        plist = [()] + [(p_,) for p_ in tc]
        plist += [tuple(sorted(rng.sample(tc, 2))) for _ in range(12 if thorough else 4)]
        plist.append(tuple(tc))
        for p_ in plist:
            cases.append({"k": "D", "enc": enc, "force": force, "chunks": [c.hex() for c in split(b, p_)]})
    for tx in long_texts():
        tc = threshold_cuts(tx)
        for enc in (None, "utf-8", "latin-1", "utf-8-sig", "utf-16"):
            plist = [()] + [(p_,) for p_ in tc] + [tuple(sorted(rng.sample(tc, 2))) for _ in range(12 if thorough else 4)]
            plist.append(tuple(tc))
            for p_ in plist:
                cases.append({"k": "E", "enc": enc, "chunks": split(tx, p_)})
    n_struct = len(cases)
    # random / malformed stream: mutated inputs, random finer partitions, long inputs
    alphabet = [b"@", b"c", b"h", b"a", b'"', b";", b"\x00", b"\xff", b"\xfe", b"\xef", b"\xbb", b"\xbf", b"\xc3", b"\xa9", b" ", b"-", b"8"]
    base = dec_inputs()
    for _ in range(30000 if thorough else 4000):
        b = bytearray(rng.choice(base))
        for _ in range(rng.randint(0, 3)):
            r = rng.random()
            pos = rng.randint(0, len(b))
            if r < 0.4:
                b[pos:pos] = rng.choice(alphabet)
            elif r < 0.7 and b:
                del b[min(pos, len(b) - 1)]
            elif b:
                b[min(pos, len(b) - 1)] = rng.randrange(256)
        if rng.random() < 0.15:
            b += rng.choice([b"a{b:c}" * rng.randint(1, 30), "g\xfcrk€".encode("utf-8") * rng.randint(1, 20)])
        b = bytes(b)
        enc, force = rng.choice(dkw)
        k = rng.randint(0, min(10, len(b) + 1))
        p = tuple(sorted(rng.randint(0, len(b)) for _ in range(k)))
        cases.append({"k": "D", "enc": enc, "force": force, "chunks": [c.hex() for c in split(b, p)]})
    tb = enc_inputs()
    for _ in range(10000 if thorough else 1500):
        t = list(rng.choice(tb))
        for _ in range(rng.randint(0, 2)):
            pos = rng.randint(0, len(t))
            t[pos:pos] = rng.choice(['"', "@", "_", "-", "S", "\xe9", "€", "\U0001f600", "\ud800", " "])
        t = "".join(t)
        if rng.random() < 0.15:
            t += "a{b:c}" * rng.randint(1, 30)
        k = rng.randint(0, min(10, len(t) + 1))
        p = tuple(sorted(rng.randint(0, len(t)) for _ in range(k)))
        cases.append({"k": "E", "enc": rng.choice(ekw), "chunks": split(t, p)})
    return cases, n_struct


def fn_cases(ctx, thorough):
    rng = ctx.rng
    out = []
    special = [0xef, 0xbb, 0xbf, 0xff, 0xfe, 0x00, 0x40, 0x63, 0x68, 0x61, 0x41]
    for n in range(0, 5):
        for tup in itertools.product(special, repeat=n):
            b = bytes(tup)
            for fin in (0, 1):
                out.append(("S", fin, b.hex()))
    for b in dec_inputs():
        for cut in range(len(b) + 1):
            out.append(("S", cut % 2, b[:cut].hex()))
            out.append(("S", 1 - cut % 2, b[:cut].hex()))
    for t in long_texts():
        for cut in threshold_cuts(t):
            for fin in (0, 1):
                out.append(("U", fin, t[:cut]))
                out.append(("F", fin, rng.choice(["utf-8", "latin-1", "UTF_8_SIG"]), t[:cut]))
                out.append(("S", fin, t[:cut].encode("utf-8").hex()))
    for t in enc_inputs():
        for cut in range(len(t) + 1):
            for fin in (0, 1):
                out.append(("U", fin, t[:cut]))
                out.append(("F", fin, rng.choice(NAMES + ['a"b', "UTF_8-sig"]), t[:cut]))
    return out


# ------------------------------------------------------------------------------------------------ underlying codecs
def codec_hypotheses(case):
    """validate the Section hypotheses for one CPython codec on one byte string / text:
    dstep_concat (feeding a then b == feeding a+b, observed through the outputs incl. a further continuation),
    dshot (one-shot == incremental with final).  Returns list of failing hypothesis names."""
    kind, name, data, i, j = case
    bad = []

    def run(factory, parts):
        try:
            o = factory()
            outs = [(o.decode if kind == "D" else o.encode)(p, k == len(parts) - 1) for k, p in enumerate(parts)]
            return ["OK", (("" if kind == "D" else b"").join(outs))]
        except Exception as e:  # noqa
            return ["ERR", exc_enum(e)]
    fac = (lambda: codecs.getincrementaldecoder(name)("strict")) if kind == "D" else (lambda: codecs.getincrementalencoder(name)("strict"))
    a, b, c = data[:i], data[i:j], data[j:]
    if run(fac, [a, b, c]) != run(fac, [a + b, c]) or run(fac, [a, b, c]) != run(fac, [a, b + c]):
        bad.append("concat")
    try:
        one = ["OK", (codecs.getdecoder(name) if kind == "D" else codecs.getencoder(name))(data, "strict")[0]]
    except Exception as e:  # noqa
        one = ["ERR", exc_enum(e)]
    if one != run(fac, [data]):
        bad.append("oneshot")
    return bad


# ------------------------------------------------------------------------------------------------ the check
def run(ctx):
    thorough = ctx.tier == "thorough"
    ctx.regen("codec")
    ctx.coq_build("props/C14.v")
    binary = ctx.ocaml_build("codec")
    corpus_path = VERIF / "corpus" / "C14.json"
    corpus = json.loads(corpus_path.read_text()) if corpus_path.exists() else []
    cases, n_struct = gen_cases(ctx, thorough)
    cases = corpus + cases
    n_struct += len(corpus)
    impl = ctx.pool_map(impl_run, cases, procs=6, chunksize=512)

    # --- function-level correspondence of the regenerated functions
    fcases = fn_cases(ctx, thorough)
    fimpl = ctx.pool_map(impl_fn, fcases, procs=6, chunksize=2048)
    mism_fn, mism, skipped_names, compared, r_compared = [], [], 0, 0, 0
    if binary:
        flines = []
        for c in fcases:
            if c[0] == "S":
                flines.append("S|%d|%s" % (c[1], cps(bytes.fromhex(c[2]))))
            elif c[0] == "U":
                flines.append("U|%d|%s" % (c[1], cps(c[2])))
            else:
                flines.append("F|%d|%s|%s" % (c[1], cps(c[2]), cps(c[3])))
        fout = ctx.run_binary(binary, flines, shards=6)
        for c, a, b in zip(fcases, fimpl, fout):
            if a.split() != b.split():
                mism_fn.append((list(c), a, b))
        if mism_fn:
            ctx.broken("correspondence", "Gen/CodecFns.v vs _codec3 functions",
                       "%d of %d differ; first: %s" % (len(mism_fn), len(fcases), json.dumps(mism_fn[:3])))
        # --- classes: model (Gallina codecs, strict) vs implementation
        idx = [i for i, c in enumerate(cases) if model_scope(c)]
        skipped_names = len(cases) - len(idx)
        out = ctx.run_binary(binary, [model_line(cases[i]) for i in idx], shards=6)
        for i, o in zip(idx, out):
            d = compare_model(o, impl[i])
            compared += 1
            if d:
                mism.append((cases[i], d))
        # the codec table whose hypotheses are PROVED in Coq (closed theorem incdec_chunking_concrete): same cases, restricted
        # to encoding names of that table (or unknown to CPython)
        ridx = [i for i in idx if cases[i]["k"] == "D" and r_scope(cases[i])]
        rout = ctx.run_binary(binary, ["R" + model_line(cases[i])[1:] for i in ridx], shards=6)
        rmism = []
        for i, o in zip(ridx, rout):
            d = compare_model(o, impl[i])
            if d:
                rmism.append((cases[i], d))
        r_compared = len(ridx)
        if rmism:
            ctx.broken("correspondence", "IncrementalDecoder/decode vs the closed instance CodecInstances.r_*",
                       "%d of %d cases differ; first: %s" % (len(rmism), len(ridx), json.dumps(rmism[:2])[:1800]))
        if mism:
            ctx.broken("correspondence", "_codec3 decode/encode/IncrementalDecoder/IncrementalEncoder vs CssV.Codec",
                       "%d of %d cases differ; first: %s" % (len(mism), compared, json.dumps(mism[:2])[:1800]))

    # --- property-level oracle on the implementation
    nontrivial, hist = set(), {}
    for c, (one, inc, typ, _tr) in zip(cases, impl):
        if one[0] == "OK" and len(c["chunks"]) >= 2 and one[1]:
            nontrivial.add((c["k"], c.get("enc"), c.get("force", True), "".join(map(str, c["chunks"]))))
        hist[one[0] + ":" + (one[1] if one[0] == "ERR" else "")] = hist.get(one[0] + ":" + (one[1] if one[0] == "ERR" else ""), 0) + 1
        for d, tag in oracle(c, one, inc, typ):
            ctx.violation(d, c, sig_text=tag + " " + json.dumps({"enc": c.get("enc"), "force": c.get("force", True)}))
    inv_cases = [(t, e) for t in enc_inputs() if not t.startswith(("﻿", "\x00")) for e in [None] + REAL]
    for (t, e), d in zip(inv_cases, ctx.pool_map(impl_inverse, inv_cases, procs=6, chunksize=256)):
        if d:
            ctx.violation(d, {"k": "I", "text": t, "enc": e}, sig_text="inverse " + json.dumps(e))

    # --- the divergent set (theorems incdec_chunking_full / incdec_chunking_refuted_on_divergent): on the implementation
    #     chunked != one-shot may only happen inside it, and inside it already the single chunk differs
    n_div = 0
    if binary:
        didx = [i for i in idx if cases[i]["k"] == "D"]
        vout = ctx.run_binary(binary, ["V" + model_line(cases[i])[1:].rsplit("|", 1)[0] + "|" +
                                       cps(b"".join(chunks_of(cases[i]))) for i in didx], shards=6)
        bad_delim = []
        for i, v in zip(didx, vout):
            one, inc, _typ, _t = impl[i]
            div = v.strip() == "1"
            n_div += div
            if one != inc and not div:
                bad_delim.append((cases[i], "chunked != one-shot outside the divergent set"))
            if div and len(cases[i]["chunks"]) == 1 and one == inc:
                bad_delim.append((cases[i], "inside the divergent set but the single chunk agrees with one-shot"))
        if bad_delim:
            ctx.broken("correspondence", "CodecBom.divergent_input delimits the chunked/one-shot disagreements",
                       "%d cases; first: %s" % (len(bad_delim), json.dumps(bad_delim[:2])[:1500]))

    # --- StreamReader: model (Codec.sr_step, theorems streamreader_*) per decode call, and the prefix oracle
    rcases = []
    for bb in dec_inputs():
        if len(bb) > 40:
            continue
        for enc, force in ((None, True), ("utf-8", True), ("latin-1", False), ("utf-16", True), ("utf-8-sig", True), ("x", True)):
            if enc is not None and ctx.rng.random() < 0.6:
                continue
            n = len(bb)
            plist = [()] + [(i,) for i in range(1, n)] + [tuple(range(1, n))] + \
                [tuple(sorted(set(ctx.rng.randint(1, max(1, n - 1)) for _ in range(2)))) for _ in range(3 if n > 2 else 0)]
            for pt in plist:
                ch = [c for c in split(bb, pt) if c]
                rcases.append({"k": "D", "enc": enc, "force": force, "chunks": [c.hex() for c in ch]})
    for bb, (enc, force) in long_dec_inputs():
        if ctx.rng.random() < 0.5:
            continue
        tc = [p_ for p_ in threshold_cuts(bb) if 0 < p_ < len(bb)]
        for pt in [()] + [(p_,) for p_ in tc[::2]] + [tuple(tc)]:
            rcases.append({"k": "D", "enc": enc, "force": force, "chunks": [c.hex() for c in split(bb, pt) if c]})
    rimpl = ctx.pool_map(impl_sr, rcases, procs=6, chunksize=512)
    sr_compared = 0
    if binary:
        qidx = [i for i, c in enumerate(rcases) if model_scope(c)]
        qout = ctx.run_binary(binary, ["Q" + model_line(rcases[i])[1:] if rcases[i]["chunks"] else
                                       "Q|%s|%d|" % ("-" if rcases[i]["enc"] is None else cps(rcases[i]["enc"]),
                                                     1 if rcases[i]["force"] else 0) for i in qidx], shards=6)
        qm = []
        for i, o in zip(qidx, qout):
            mt = strip_trace(model_trace(o))
            tr, res, _one = rimpl[i]
            if mt != strip_trace(tr) or collapse(model_trace(o)) != norm_res(res):
                qm.append((rcases[i], {"impl": [tr, res], "model": o}))
        sr_compared = len(qidx)
        if qm:
            ctx.broken("correspondence", "StreamReader.decode under codecs.StreamReader.read vs CssV.Codec.sr_trace",
                       "%d of %d cases differ; first: %s" % (len(qm), len(qidx), json.dumps(qm[:2])[:1500]))
    for c, (tr, res, one) in zip(rcases, rimpl):
        for d, tag in sr_oracle(c, tr, res, one):
            ctx.violation(d, c, sig_text=tag + " " + json.dumps({"enc": c.get("enc"), "force": c.get("force", True)}))

    # --- StreamWriter: model (enc_step with final=False, theorems streamwriter_*) and oracle (content == one-shot encode)
    wcases = []
    for tx in enc_inputs():
        if len(tx) > 34:
            continue
        for enc in (None, "utf-8", "utf-8-sig", "utf-16", "latin-1", "x"):
            if enc is not None and ctx.rng.random() < 0.5:
                continue
            n = len(tx)
            plist = [()] + [(i,) for i in range(n + 1)] + [tuple(range(1, n))] + \
                [tuple(sorted(ctx.rng.randint(0, n) for _ in range(2))) for _ in range(4)]
            for pt in plist:
                wcases.append({"k": "W", "enc": enc, "chunks": split(tx, pt)})
    for tx in long_texts():
        tc = threshold_cuts(tx)
        for enc in (None, "utf-8", "utf-8-sig", "latin-1"):
            for pt in [()] + [(p_,) for p_ in tc[::2]] + [tuple(tc)]:
                wcases.append({"k": "W", "enc": enc, "chunks": split(tx, pt)})
    wimpl = ctx.pool_map(impl_sw, wcases, procs=6, chunksize=512)
    w_compared = 0
    if binary:
        widx = [i for i, c in enumerate(wcases) if model_scope(c)]
        wout = ctx.run_binary(binary, ["W|%s|%s" % ("-" if wcases[i]["enc"] is None else cps(wcases[i]["enc"]),
                                                    ";".join(cps(x) for x in wcases[i]["chunks"])) for i in widx], shards=6)
        wm = []
        for i, o in zip(widx, wout):
            mt = [norm_res(x) for x in model_trace(o)] if o.strip() else []
            if mt != [norm_res(x) for x in wimpl[i][0]]:
                wm.append((wcases[i], {"impl": wimpl[i][0], "model": o}))
        w_compared = len(widx)
        if wm:
            ctx.broken("correspondence", "StreamWriter.encode vs CssV.Codec.enc_trace_nf",
                       "%d of %d cases differ; first: %s" % (len(wm), len(widx), json.dumps(wm[:2])[:1500]))
    for c, (tr, st, one) in zip(wcases, wimpl):
        for d, tag in sw_oracle(c, tr, st, one):
            ctx.violation(d, c, sig_text=tag + " " + json.dumps({"enc": c.get("enc")}))

    # --- Section hypotheses about the underlying codecs, validated per CPython codec
    hyp_cases = []
    for name in REAL:
        for b in RAW + [t.encode(name) for t in ("a", "g\xfc€", "a\U00010000b") if _encodable(t, name)]:
            for i in range(len(b) + 1):
                for j in range(i, len(b) + 1):
                    hyp_cases.append(("D", name, b, i, j))
        for t in ("", "a", "g\xfc", "€\U00010000", "a\ud800"):
            for i in range(len(t) + 1):
                for j in range(i, len(t) + 1):
                    hyp_cases.append(("E", name, t, i, j))
    hyp_bad = {}
    for hc, bad in zip(hyp_cases, ctx.pool_map(codec_hypotheses, hyp_cases, procs=6, chunksize=512)):
        for h in bad:
            key = "%s %s %s" % (hc[0], hc[1], h)
            hyp_bad.setdefault(key, hc[2].hex() if isinstance(hc[2], bytes) else hc[2])
    ctx.notes.append("underlying-codec hypotheses failing on CPython (hypothesis -> first input): " + json.dumps(hyp_bad))
    unexpected = [k for k in hyp_bad if k not in EXPECTED_CODEC_QUIRKS]
    if unexpected:
        ctx.broken("correspondence", "underlying codec hypotheses", "fail for %s" % unexpected)

    # --- known findings: re-run the stored witnesses
    for f in ctx.findings:
        if f.get("status") == "open":
            w = f["witness"]
            if w.get("k") == "W":
                for d, tag in sw_oracle(w, *impl_sw(w)):
                    ctx.violation(d, w, sig_text=tag + " " + json.dumps({"enc": w.get("enc")}))
                continue
            one, inc, typ, _tr = impl_run(w)
            for d, tag in oracle(w, one, inc, typ):
                ctx.violation(d, w, sig_text=tag + " " + json.dumps({"enc": w.get("enc"), "force": w.get("force", True)}))

    def search():
        return hunt(ctx, 300 if thorough else 60)

    ctx.finish({
        "evaluations": len(cases) + len(fcases) + len(inv_cases) + len(hyp_cases) + len(wcases) + len(rcases),
        "class_cases": len(cases), "function_cases": len(fcases), "inverse_cases": len(inv_cases),
        "codec_hypothesis_cases": len(hyp_cases),
        "model_compared": compared, "outside_model_codec_table": skipped_names,
        "closed_instance_compared": r_compared, "divergent_set_cases": n_div,
        "streamreader_cases": len(rcases), "streamreader_model_compared": sr_compared,
        "outside_model_scope_reasons": scope_reasons(cases),
        "streamwriter_cases": len(wcases), "streamwriter_model_compared": w_compared,
        "distinct_nontrivial": len(nontrivial),
        "rule": "structured part (%d cases): byte strings / texts with complete, truncated, mis-named @charset rules x 10 "
                "encodings x BOMs x raw BOM/charset prefixes and malformed sequences x encoding/force arguments x ALL cut points "
                "for 1-2 chunks, all 2-cut partitions of short inputs, byte-by-byte and random finer partitions; then mutated "
                "inputs with random partitions (<= 10 cuts, some long bodies). non-trivial = distinct (input, arguments) decoded/"
                "encoded successfully to non-empty output in >= 2 chunks" % n_struct,
        "one_shot_outcomes": hist,
        "samples": [cases[i] for i in (7, n_struct // 3, n_struct // 2, n_struct - 3, len(cases) - 5) if i < len(cases)],
        "disagreements_checked": compared + (len(fcases) if binary else 0),
        "codec_hypotheses_failing_on_cpython": hyp_bad,
        "trusted_base": TRUSTED,
    }, assumptions=ASSUME, search=search)


def _encodable(t, name):
    try:
        t.encode(name)
        return True
    except UnicodeError:
        return False


EXPECTED_CODEC_QUIRKS = {"D utf-16 oneshot", "D utf-32 oneshot", "D utf-8-sig oneshot"}


def model_scope(c):
    """cases the Gallina codecs cover: strict errors; every encoding name that can be looked up must mean the same to
    CPython and to the model's table"""
    if c.get("errors", "strict") != "strict":
        return False
    names = [c.get("enc")]
    if c["k"] == "D":
        whole = b"".join(chunks_of(c))
        names.append(ref_detect_bytes(whole)[0])
        m = RULE.match(whole.decode("latin-1"))
        if m:
            names.append(m.group(1))
    else:
        m = RULE.match("".join(c["chunks"]))
        if m:
            names.append(m.group(1))
    # an explicit css-spelled argument: the one-shot DECODER then calls itself once through codecs.getdecoder (not modelled);
    # the encoders reject it right away (modelled)
    return all(same_codec_knowledge(n) for n in names) and not (
        c["k"] == "D" and c.get("enc") is not None and is_css_name(c["enc"]))


def scope_reasons(cases):
    """why a case is outside the model's codec table (counts)"""
    out = {}
    for c in cases:
        if model_scope(c):
            continue
        why = "errors argument" if c.get("errors", "strict") != "strict" else None
        if why is None and c.get("enc") is not None and is_css_name(c["enc"]):
            why = "explicit encoding argument is a spelling of css"
        if why is None:
            names = [c.get("enc")]
            if c["k"] == "D":
                whole = b"".join(chunks_of(c))
                names.append(ref_detect_bytes(whole)[0])
                m = RULE.match(whole.decode("latin-1"))
                if m:
                    names.append(m.group(1))
            else:
                m = RULE.match("".join(c["chunks"]))
                if m:
                    names.append(m.group(1))
            for n in names:
                if n is None or same_codec_knowledge(n):
                    continue
                if not lookup_raises_only_lookuperror(n):
                    why = "encoding name for which codecs.lookup raises UnicodeError/ValueError (surrogate, NUL)"
                else:
                    why = "encoding name CPython knows but the Gallina table does not (or differently): %s" % (python_knows(n),)
                break
        out[why or "?"] = out.get(why or "?", 0) + 1
    return out


R_NAMES = {"utf-8", "utf-16-le", "utf-16-be", "utf-32-le", "utf-32-be", "latin-1", "ascii"}


def case_names(c):
    names = [c.get("enc")]
    if c["k"] == "D":
        whole = b"".join(chunks_of(c))
        names.append(ref_detect_bytes(whole)[0])
        m = RULE.match(whole.decode("latin-1"))
        if m:
            names.append(m.group(1))
    return [n for n in names if n is not None]


def r_scope(c):
    """every encoding name that can be looked up is in the table of CodecInstances.r_init, unknown to CPython, or 'css'"""
    for n in case_names(c):
        if is_css_name(n):
            continue
        k = model_knows(n)
        if k is None and python_knows(n) is None:
            continue
        if k not in R_NAMES:
            return False
    return True


def hunt(ctx, budget):
    """look for an input on which the property fails on the implementation (not covered by a known finding)"""
    t0 = time.time()
    rng = ctx.rng
    base_d, base_e = dec_inputs() + [b for b, _ in long_dec_inputs()], enc_inputs() + long_texts()
    while time.time() - t0 < budget:
        batch = []
        for _ in range(3000):
            if rng.random() < 0.5:
                b = bytearray(rng.choice(base_d))
                if rng.random() < 0.5 and b:
                    b[rng.randrange(len(b))] = rng.randrange(256)
                b = bytes(b)
                k = rng.randint(0, 3)
                p = tuple(sorted(rng.randint(0, len(b)) for _ in range(k)))
                batch.append({"k": "D", "enc": rng.choice([None, None, "utf-8", "latin-1", "utf-8-sig", "utf-16-le"]),
                              "force": rng.random() < 0.7, "chunks": [c.hex() for c in split(b, p)]})
            else:
                t = rng.choice(base_e)
                k = rng.randint(0, 3)
                p = tuple(sorted(rng.randint(0, len(t)) for _ in range(k)))
                batch.append({"k": "E", "enc": rng.choice([None, None, "utf-8", "latin-1", "utf-8-sig", "utf-16"]),
                              "chunks": split(t, p)})
        res = ctx.pool_map(impl_run, batch, procs=6, chunksize=256)
        for c, (one, inc, typ, _tr) in zip(batch, res):
            for d, tag in oracle(c, one, inc, typ):
                sig = tag + " " + json.dumps({"enc": c.get("enc"), "force": c.get("force", True)})
                if not ctx.match_known(d + " :: " + sig):
                    return shrink(c, d)
    return None


def shrink(case, d):
    """fewer cuts first, then shorter input"""
    def fails(c):
        one, inc, typ, _tr = impl_run(c)
        return any(x[0] == d for x in oracle(c, one, inc, typ))
    best = dict(case)
    chunks = chunks_of(best)
    changed = True
    while changed and len(chunks) > 1:
        changed = False
        for i in range(len(chunks) - 1):
            cand = chunks[:i] + [chunks[i] + chunks[i + 1]] + chunks[i + 2:]
            c2 = dict(best, chunks=[x.hex() for x in cand] if best["k"] == "D" else cand)
            if fails(c2):
                best, chunks, changed = c2, cand, True
                break
    for _ in range(200):
        done = True
        for i, ch in enumerate(chunks):
            for pos in range(len(ch)):
                cand = chunks[:i] + [ch[:pos] + ch[pos + 1:]] + chunks[i + 1:]
                c2 = dict(best, chunks=[x.hex() for x in cand] if best["k"] == "D" else cand)
                if fails(c2):
                    best, chunks, done = c2, cand, False
                    break
            if not done:
                break
        if done:
            break
    best["fails"] = d
    return best


def replay(ctx, path):
    rep = json.loads(open(path).read())
    bad = 0
    for v in rep.get("violations", []):
        w = v["witness"]
        if w.get("k") == "W":
            ds = [d for d, tag in sw_oracle(w, *impl_sw(w))
                  if not ctx.match_known(d + " :: " + tag + " " + json.dumps({"enc": w.get("enc")}))]
            print("replay StreamWriter enc=%r chunks=%r -> %s" % (w.get("enc"), w["chunks"], "; ".join(ds) or "holds"))
            bad += bool(ds)
            continue
        if w.get("k") == "I":
            d = inverse_oracle(w["text"], w.get("enc"))
            print("replay inverse %r enc=%r -> %s" % (w["text"], w.get("enc"), d or "holds"))
            bad += bool(d)
            continue
        one, inc, typ, _tr = impl_run(w)
        ds = [d for d, tag in oracle(w, one, inc, typ) if not ctx.match_known(
            d + " :: " + tag + " " + json.dumps({"enc": w.get("enc"), "force": w.get("force", True)}))]
        print("replay %s enc=%r force=%r chunks=%r\n  one-shot=%r\n  chunked =%r\n  -> %s" % (
            w["k"], w.get("enc"), w.get("force", True), w["chunks"], one, inc, "; ".join(ds) or "holds"))
        bad += bool(ds)
    return 1 if bad else 0


TRUSTED = [
    "Coq 8.16.1 kernel and VM (vm_compute in the finite case analyses of detectencoding_str); no native_compute",
    "translate/codec.py (fail-closed Python-ast translator; fixed reading of each construct in coq/theories/CodecPyLib.v); "
    "the generated functions are additionally compared with the source functions on every run",
    "Section hypotheses about the underlying per-encoding codec (CodecFacts.v): dstep_concat, dstep_error, dshot_spec, "
    "estep_concat, estep_error, eshot_spec (+ estep_final_irrelevant for streamwriter_decided, + the inverse / rule-head "
    "premises of the decode_encode theorems); PROVED in CodecInstances.v for the Gallina utf-8, utf-16-le/be, utf-32-le/be, "
    "latin-1, ascii decoders and all Gallina encoders; validated against CPython's codecs on every run, see "
    "coverage.codec_hypotheses_failing_on_cpython (CPython's utf-16/utf-32 one-shot decoders accept BOM-less input that "
    "their incremental decoders reject; utf-8-sig's incremental decoder returns '' for a truncated BOM)",
    "extraction (ExtrOcamlBasic only) + ocamlfind ocamlopt, ocaml/codec_driver.ml",
    "coq/theories/CodecConcrete.v: Gallina utf-8/-sig, utf-16*, utf-32*, latin-1, ascii codecs (strict, CPython-exact error "
    "timing): that they ARE CPython's codecs is checked only differentially (every call of every case); the closed instances "
    "incdec_chunking_concrete / incenc_chunking_concrete / decode_encode_detected_onebyte are theorems about them",
    "correspondence harness harness/props/c14.py (generators, canonicalisation: exception class -> enum; the result of every "
    "call up to and including the raising one is compared); CodecPyLib.lower (per-character str.lower table generated from the interpreter, Gen/PyTables.v) for encoding.lower()",
    "modelled by hand, not verified: decode, encode, IncrementalDecoder.decode, IncrementalEncoder.encode, StreamWriter.encode, "
    "StreamReader.decode together with the read loop of codecs.StreamReader (Codec.v)",
]
ASSUME = [
    "Print Assumptions for every theorem of props/C14.v: see coverage.print_assumptions",
    "errors argument fixed per run of the underlying codec (the theorems quantify over any codec satisfying the hypotheses); "
    "the model correspondence uses errors='strict'",
    "getstate/setstate/reset are outside the property's observation points; StreamWriter.encode is modelled (enc_step with "
    "final=False) and compared per write; StreamReader is modelled as accumulate + stateless decode without final "
    "(sr_step) and compared per decode call; it cannot equal the one-shot decoder, the proved statement is the prefix property",
    "inverse oracle: texts starting with U+FEFF or U+0000 excluded (a leading U+FEFF is the byte-order mark)",
]
