"""C04 -- malformed statements and declarations are skipped as a unit.

proof:   coq/props/C04.v over coq/theories/{Upto,Skeleton}.v (+ UptoFacts, SkeletonFacts)
tie:     (t) translate/upto.py regenerates Gen/UptoGen.v (flags -> ends/endtypes/counters, bracket chains, handler ->
             flag/start token, token type -> handler, order-state signatures); mode_of / kmode / ord_sig are lookups in it;
         (f) Base._tokensupto2 called on real tokenizer generators, all 13 modes x with/without start token,
             against CssV.Upto.upto (extracted);
         (s) the statement skeleton: every _tokensupto2 call the parser makes while it reads a sheet / @media rule /
             rule set / declaration block is logged (harness-side wrapper, no source hook) and compared with
             CssV.Skeleton.{skeleton, media_split, ruleset_split, decl_block, unknown_rule};
oracle:  end-to-end triples on the implementation only (good1 + junk + good2 versus good1 + good2) at top level,
         inside @media and inside declaration blocks, and "unknown at-rule preserved with its tokens".
"""
import json
import os
import sys
import time

from harness.lib import VERIF

FLAGS = [None, "blockstartonly", "blockendonly", "mediaendonly", "importmediaqueryendonly", "mediaqueryendonly",
         "semicolon", "propertynameendonly", "propertyvalueendonly", "propertypriorityendonly",
         "selectorattendonly", "funcendonly", "listseponly"]
KIND_SHEET = {0: "charsetrule", 1: "importrule", 2: "namespacerule", 3: "variablesrule", 4: "fontfacerule",
              5: "mediarule", 6: "pagerule", 7: "unknownrule", 8: "ruleset"}
KIND_MEDIA = {0: "atrule", 1: "atrule", 2: "atrule", 3: "atrule", 4: "atrule", 5: "atrule", 6: "atrule", 7: "atrule",
              8: "ruleset"}
KIND_DECL = {9: "ident", 10: "unexpected", 11: "ATKEYWORD"}

# ------------------------------------------------------------------ generators (texts)
ATOMS = ["foo", "bar", "3", "4px", "5%", '"s"', "'q;}{'", "#h", "url(u)", "url('v;}')", ":", ",", ".", ">", "+", "~",
         "*", "=", "!", "/", "|", "$", "^", "&", "%", "@at", "@import", "@media", "@page", "@font-face", "@namespace",
         "@variables", "@top-left", "/*c;}*/", " ", "\n", "<!--", "-->", "U+0-7F", "~=", "|=", "!important", "-x", "a:b",
         "and", "\\7b ", "1e3", "x\\;y"]
SEMI_ATOMS = [";"]
OPEN = [("(", ")"), ("[", "]"), ("{", "}"), ("f(", ")"), ("rgb(", ")"), ("url(", ")")]
FIRST = ["foo", "3", "4px", "5%", '"s"', "'q;}{'", "#h", "url(u)", ":", ",", ".", ">", "+", "*", "=", "!", "/", "|", "$",
         "&", "%", "(", "[", "{", "f(", "rgb(", "@import", "@media", "@page", "@font-face", "@namespace", "@variables",
         "@charset ", "<!--", "-->", "U+0-7F", "~=", "!important", ";", "-x", "1e3"]
GOOD = ["a{x:1}", "b c>d{y:2;w:4}", "@media all{e{z:3}}", "@page{margin:0}", "/*k*/", "@font-face{font-family:f}",
        "@unk x;", "@unk2 (u) [v] {w{x}}", "#i.j{v:f(1)}", "g[h='i;}']{u:url(j)}"]
GOODDECL = ["x:1", "y: f(2) !important", "z:'s;}'", "w:url(u)", "/*c*/", "v: 1px 2px", "q:a(b) c"]


# namespace contexts: (prelude, good neighbours valid under it)
NSCTX = [
    ('@namespace p "u";', ["p|a{x:1}", "b{y:2}", "*|c p|d{z:3}", "@media all{p|e{w:4}}"]),
    ('@namespace p "u"; @namespace q "w";', ["p|a{x:1}", "q|b{y:2}", "p|c>q|d{z:3}", "@media all{q|e{w:4}}", "f{v:5}"]),
    ('@namespace "u";', ["a{x:1}", "b c{y:2}", "@media all{e{w:4}}"]),
    ('@namespace "d"; @namespace p "u";', ["a{x:1}", "p|b{y:2}", "|c{z:3}", "*|g{t:6}"]),
    ('@charset "utf-8"; @import "i.css";', ["a{x:1}", "b{y:2}", "@media all{e{w:4}}", "@page{margin:0}"]),
    ("", ["a{x:1}", "b{y:2}", "@media all{e{w:4}}", "@page{margin:0}"]),
]
# statements that are well-formed in themselves but not allowed where they are put
MISPLACED = {
    "top": ['@charset "utf-8";', '@charset "ascii";', '@import "a.css";', "@import url(a.css) print;",
            '@namespace p "v";', '@namespace p "u";', '@namespace q "u";', '@namespace q "v";', '@namespace "v";',
            '@namespace "u";', '@namespace z "v";', '@namespace z "u";', "@variables {a:1}", "@top-left {x:1}",
            "@bottom-center{margin:0}", "x:1;", "x:1; y:2;", "color:red !important;"],
    "media": ["@font-face{font-family:f}", '@import "a.css";', '@namespace p "v";', '@namespace q "u";',
              '@namespace "v";', '@namespace z "v";', '@charset "utf-8";', "@variables{a:1}", "x:1;",
              "@import url(a.css) print;"],
    "decl": ['@import "a.css"', '@namespace p "v"', '@namespace "v"', '@namespace q "u"', '@charset "utf-8"',
             "@media all{a{x:1}}", "@font-face{font-family:f}", "b{y:2}", "@page{margin:0}", "p|b{y:2}", "@variables{a:1}"],
}


# (what came before, order-sensitive continuations that are valid in the state reached there)
ORDER_CTX = [
    ("", ['@import "b.css"; a{x:1}', '@namespace q "v"; q|a{x:1}', '@import "b.css"; @namespace q "v"; q|a{x:1}',
          "@variables{a:1} a{x:1}"]),
    ('@import "a.css";', ['@import "b.css"; a{x:1}', '@namespace q "v"; q|a{x:1}', '@import "b.css" print; @namespace "v"; a{x:1}']),
    ('@charset "utf-8"; @import "a.css";', ['@import "b.css"; a{x:1}', '@namespace q "v"; q|a{x:1}']),
    ('@namespace p "u";', ['@namespace q "v"; p|a q|b{x:1}', "@variables{a:1} p|a{x:1}", '@namespace p "w"; p|a{x:1}']),
    ('@import "a.css"; @namespace p "u"; /*c*/', ['@namespace q "v"; q|a{x:1}', "@variables{a:1} p|a{x:1}"]),
]


def gen_misplaced(rng, n):
    cases = []
    for level, junks in MISPLACED.items():
        for j in junks:                       # every statement kind in every namespace context
            for pre, goods in NSCTX:
                cases.append({"kind": "misplaced", "level": level, "pre": pre, "g1": goods[0], "junk": j,
                              "g2": goods[1 % len(goods)]})
    for _ in range(n):
        level = rng.choice(["top", "top", "media", "decl"])
        pre, goods = rng.choice(NSCTX)
        cases.append({"kind": "misplaced", "level": level, "pre": pre,
                      "g1": " ".join(rng.choice(goods) for _ in range(rng.randint(1, 2))),
                      "junk": " ".join(rng.choice(MISPLACED[level]) for _ in range(rng.randint(1, 2)))
                      if level != "decl" else rng.choice(MISPLACED[level]),
                      "g2": " ".join(rng.choice(goods) for _ in range(rng.randint(1, 2)))})
    return cases


def misplaced_texts(case):
    """(text with the misplaced statement, text without it)"""
    pre, g1, junk, g2, level = case["pre"], case["g1"], case["junk"], case["g2"], case["level"]
    if level == "top":
        return pre + " " + g1 + " " + junk + " " + g2, pre + " " + g1 + " " + g2
    if level == "media":
        inner = lambda x: " ".join(r for r in x.split(" ") if not r.startswith("@media"))  # noqa
        a, b = inner(g1) or "k{x:1}", inner(g2) or "l{y:2}"
        return (pre + " @media print{" + a + " " + junk + " " + b + "} " + g2,
                pre + " @media print{" + a + " " + b + "} " + g2)
    first = g1.split(" ")[0]
    sel = first[:first.index("{")] if "{" in first and not first.startswith("@") else "s"
    return (pre + " " + g1 + " " + sel + "{x:1;" + junk + ";z:3} " + g2,
            pre + " " + g1 + " " + sel + "{x:1;z:3} " + g2)


def soup(rng, depth, topfree, n=None, allow_at=True, brace_top=False):
    """balanced token soup as text; topfree: no ';' and (unless brace_top) no {}-group at nesting depth 0"""
    out = []
    for _ in range(rng.randint(0, 4) if n is None else n):
        r = rng.random()
        if r < 0.25 and depth > 0:
            o, c = rng.choice(OPEN if (not topfree or brace_top) else [p for p in OPEN if p[0] != "{"])
            if o == "url(":   # url( + soup would be tokenized as URI or bad; keep it a FUNCTION by a leading quote-less space
                o = "f("
            out.append(o + soup(rng, depth - 1, False, allow_at=allow_at) + c)
        elif r < 0.32 and not topfree:
            out.append(";")
        else:
            a = rng.choice(ATOMS)
            if a.startswith("@") and not allow_at:
                a = "foo"
            out.append(a)
        out.append(rng.choice(["", " ", " ", "\n"]))
    return "".join(out)


_T = [";", " ;", " @foo x;", " q{c:d}", " x, y{z:w}", " /*c*/ s.t{u:v}", " @page :first{margin:0}", " @media print{c{top:0}}",
      " @foo {x} y;"]
AT_TAILS = {"@import": _T, "@namespace": _T, "@charset ": _T, "@font-face": [";", " ;", " @media print{c{top:0}}", " @foo x;"],
            "@media": [";"], "@page": [";"], "@variables": [";", " ;", " @foo x;"]}


def closer_for(first):
    return {"(": ")", "[": "]", "{": "}", "f(": ")", "rgb(": ")"}.get(first)


def junk_statement(rng, first=None):
    """a balanced, malformed-by-construction statement: <first> ... ! ... (';' | '{' soup '}')"""
    first = first if first is not None else rng.choice(FIRST)
    c = closer_for(first)
    if first == "{":
        return "{" + soup(rng, 2, False) + "}"
    if first in AT_TAILS and rng.random() < 0.4:
        # a known at-keyword whose remainder would, on its own, be no statement (';') or a different one
        return first + rng.choice(AT_TAILS[first])
    head = first + ((soup(rng, 2, False) + c) if c else " ")
    if first in ("<!--", "-->"):
        head += "foo "          # CDO/CDC are skipped at top level: the statement starts with the next token
    if first == ";":
        head = "; " + rng.choice(["foo", "3"])
    body = soup(rng, 2, True) + " ! " + soup(rng, 2, True)
    end = ";" if rng.random() < 0.5 else "{" + soup(rng, 2, False) + "}"
    return head + " " + body + end


def junk_declaration(rng, first=None):
    """balanced junk declaration without its terminating ';': does not start with IDENT ':' """
    firsts = ["3", "4px", '"s"', "'q;}{'", "#h", "url(u)", ":", ",", ".", "=", "!", "/", "$", "(", "[", "{", "f(", "rgb(",
              "U+0-7F", "~=", "!important", "foo", "foo bar:", "-->", "5%", "*", "&"]
    first = first if first is not None else rng.choice(firsts)
    c = closer_for(first)
    head = first + ((soup(rng, 2, False, allow_at=False) + c) if c else " ")
    if first == "foo":
        head += "bar "          # IDENT not followed by ':' (a name of two identifiers is malformed)
    # (a {}-group at depth 0 does not end a declaration: only the next top-level ';' does)
    return head + " " + soup(rng, 2, True, allow_at=False, brace_top=True) + rng.choice(["", " y:2", " ! y:2", " {a} y:2"])


NAMES = ["color", "top", "margin", "x", "-moz-y", "background"]
NAME_JUNK = ["@x", "@x@y", "@page-break", "@media", "@import", "3", '"s"', "'q;}{'", "(a)", "[a;b]", "f(a)", "#h", ",", "=", ".",
             "*", "bar", "!", "/", "{a}", "{;}", "url(u)", "4px", "5%", "U+0-7F", "~=", "+", ">", "-->", "<!--", "@x bar",
             "@x :", "/*c*/ @y"]
BAD_PRIO = [" !", " ! imp", " !important x", " !important @x", " !@x important", " !important !important",
            " ! important important", " !important 3"]


def junk_named_declaration(rng, x=None, sep=None):
    """IDENT-starting malformed declaration: <name> [S|comment] <a token that cannot be part of a property name> ':' value.
    It is routed to the `ident` handler and must be rejected by the Property name parser as a whole."""
    name = rng.choice(NAMES)
    x = x if x is not None else rng.choice(NAME_JUNK)
    sep = sep if sep is not None else rng.choice(["", " ", "/**/", " /*c;}*/ "])
    if sep == "" and (x[0].isalnum() or x[0] in "-_(\\"):
        sep = " "
    val = rng.choice(["blue", "1px", "f(2) g", '"v"', "url(w)"])
    return name + sep + x + rng.choice(["", " "]) + ": " + val + rng.choice(["", " !important"])


def junk_priority_declaration(rng, tail=None):
    """well-formed name and value, malformed !priority part"""
    return rng.choice(NAMES) + ": " + rng.choice(["blue", "1px", "f(2) g"]) + (tail if tail is not None else rng.choice(BAD_PRIO))


# well-formed at-rule heads followed by a token after their expected end
AT_VALID = ['@import "a.css"', "@import url(a.css) print", '@namespace p "u"', '@namespace "d"']
AT_TRAIL = [" @x", "@x", " /*c*/ @x", " @x y", " @x@y", " 3"]   # (an identifier or a (..) after @import is a media query)

# ------------------------------------------------------------------ implementation side (workers)
def _tok(text, fs=True):
    from css_parser.tokenize2 import Tokenizer
    return list(Tokenizer().tokenize(text, fullsheet=fs))


def enc_tokens(toks):
    f = lambda x: ",".join(str(ord(c)) for c in x)  # noqa
    return ";".join(f(t[0]) + "/" + f(t[1]) for t in toks)


def impl_upto(case):
    """(text, fs, flag index, with start) -> (encoded tokens, len run, len rest)"""
    text, fs, fl, ws = case
    import css_parser
    from css_parser.util import Base
    toks = _tok(text, fs)
    if ws and not toks:
        return None
    it = iter(toks)
    kw = {FLAGS[fl]: True} if FLAGS[fl] else {}
    try:
        start = next(it) if ws else None
        res = Base()._tokensupto2(it, starttoken=start, **kw)
        rest = list(it)
        ok = res == toks[:len(res)]
        return [enc_tokens(toks), len(res), len(rest), ok]
    except Exception as e:  # noqa
        return [enc_tokens(toks), "EXC", type(e).__name__, False]


class Logger:
    """wraps Base._tokensupto2 in this process; records, per call, the chain of enclosing _setCssText frames,
    the handler that called, flags, start token and the result"""
    def __init__(self):
        self.calls = []

    def __enter__(self):
        from css_parser import util
        self.util = util
        self.orig = util.Base._tokensupto2
        log = self.calls
        orig = self.orig

        def wrapped(self_, tokenizer, starttoken=None, **kw):
            res = orig(self_, tokenizer, starttoken, **kw)
            f = sys._getframe(1)
            handler = f.f_code.co_name
            chain = []
            while f is not None:
                if f.f_code.co_name == "_setCssText":
                    chain.append(os.path.basename(f.f_code.co_filename))
                f = f.f_back
            flags = sorted(k for k, v in kw.items() if v and k != "separateEnd")
            run = res[0] + ([res[1]] if res[1] is not None else []) if kw.get("separateEnd") else res
            log.append((tuple(chain), handler, flags, starttoken is not None, list(run)))
            return res
        util.Base._tokensupto2 = wrapped
        return self

    def __exit__(self, *a):
        self.util.Base._tokensupto2 = self.orig


def impl_skeleton(text):
    """parse the token list of `text` as a sheet with the call log on; then re-run every statement through the
    rule class that owns it. Returns a list of (model command, encoded tokens, expected model output)."""
    import css_parser
    import logging
    css_parser.log.setLevel(logging.FATAL)
    css_parser.log.raiseExceptions = False
    out = []
    toks = _tok(text, True)
    try:
        with Logger() as lg:
            sheet = css_parser.css.CSSStyleSheet()
            sheet.cssText = list(toks)
        top = [c for c in lg.calls if c[0] == ("cssstylesheet.py",)]
        ncomments = len([r for r in sheet.cssRules if r.type == r.COMMENT])
        out.append(("T", enc_tokens(toks), {"stmts": [(c[1], len(c[4])) for c in top], "comments": ncomments}))
        for c in top[:6]:
            run = c[4]
            try:
                if c[1] == "ruleset":
                    out.append(impl_ruleset(run))
                elif c[1] == "mediarule":
                    out.append(impl_media(run))
                elif c[1] == "unknownrule":
                    out.append(impl_unknown(run))
            except TypeError:
                out.append(("RAISED", "", None))   # a crash inside a rule object (property C01), not a skeleton matter
    except TypeError:
        out.append(("RAISED", "", None))       # crash inside the library on malformed input: property C01's matter
    except Exception as e:  # noqa
        out.append(("EXC", text, "%s: %s" % (type(e).__name__, e)))
    return out


def impl_ruleset(run):
    import css_parser
    with Logger() as lg:
        r = css_parser.css.CSSStyleRule()
        r.cssText = list(run)
    own = [c for c in lg.calls if c[0] == ("cssstylerule.py",)]
    decl = [c for c in lg.calls if c[0] == ("cssstyledeclaration.py", "cssstylerule.py")]
    return ("R", enc_tokens(run), {"s": len(own[0][4]), "y": len(own[1][4]),
                                   "d": [(c[1], len(c[4]), c[2], c[3]) for c in decl]})


def impl_media(run):
    import css_parser
    with Logger() as lg:
        r = css_parser.css.CSSMediaRule()
        r.cssText = list(run)
    own = [c for c in lg.calls if c[0] == ("cssmediarule.py",)]
    head = [c for c in own if c[1] == "_setCssText"]
    inner = [c for c in own if c[1] in ("ruleset", "atrule")]   # (the optional "name" part is parsed separately, not modelled)
    m = len(head[0][4]) if head else 0
    n = r_ = 0
    for c in head[1:]:
        if c[2] == ["blockstartonly"]:
            n = len(c[4])
        if c[2] == ["mediaendonly"]:
            r_ = len(c[4])
    return ("M", enc_tokens(run[1:]), {"m": m, "n": n, "r": r_, "inner": [(c[1], len(c[4])) for c in inner]})


def impl_unknown(run):
    import css_parser
    r = css_parser.css.CSSUnknownRule()
    r.cssText = list(run)
    if run and run[0][1] in css_parser.css.MarginRule.margins:
        return ("K", "", None)
    n = len(r.seq) if r.wellformed else None
    return ("K", enc_tokens(run), {"wf": bool(r.wellformed), "n": n})


def parse_items(txt):
    return [] if txt in ("", "NONE", "[]") else [x for x in txt.strip("[]").split(",")]


def check_skel(cmd, exp, got):
    """compare the model's output line with what the call log says; returns None or a description"""
    if cmd == "T":
        items = parse_items(got)
        st = [(KIND_SHEET.get(int(x[1:].split(":")[0]), "?"), int(x.split(":")[1])) for x in items if x != "c"]
        if st != [tuple(x) for x in exp["stmts"]]:
            return "top-level statements: implementation %r, model %r" % (exp["stmts"], st)
        if items.count("c") != exp["comments"]:
            return "top-level comments: implementation %d, model %d" % (exp["comments"], items.count("c"))
    elif cmd == "R":
        f = dict(p.split("=", 1) for p in got.split(" "))
        if (int(f["s"]), int(f["y"])) != (exp["s"], exp["y"]):
            return "rule-set split: implementation %r, model %s" % ((exp["s"], exp["y"]), got)
        d = [(KIND_DECL.get(int(x[1:].split(":")[0]), "?"), int(x.split(":")[1])) for x in parse_items(f["d"]) if x != "c"]
        if d != [(a, b) for a, b, _, _ in exp["d"]]:
            return "declaration handlers: implementation %r, model %r" % (exp["d"], d)
    elif cmd == "M":
        f = dict(p.split("=", 1) for p in got.split(" "))
        if (int(f["m"]), int(f["n"]), int(f["r"])) != (exp["m"], exp["n"], exp["r"]):
            return "@media head split: implementation %r, model %s" % ((exp["m"], exp["n"], exp["r"]), got)
        d = [(KIND_MEDIA.get(int(x[1:].split(":")[0]), "?"), int(x.split(":")[1])) for x in parse_items(f["inner"]) if x != "c"]
        if d != [tuple(x) for x in exp["inner"]]:
            return "@media inner statements: implementation %r, model %r" % (exp["inner"], d)
    elif cmd == "K":
        if exp is None:
            return None
        if (got != "NONE") != exp["wf"]:
            return "unknown rule well-formedness: implementation %r, model %s" % (exp["wf"], got)
        if exp["wf"]:
            n = len(parse_items(got[3:]))
            if n != exp["n"]:
                return "unknown rule item count: implementation %d, model %d" % (exp["n"], n)
    return None


# ------------------------------------------------------------------ property-level oracle (implementation only)
def _rules(text):
    import css_parser
    import logging
    css_parser.log.setLevel(logging.FATAL)
    sh = css_parser.parseString(text, validate=False)
    return [r.cssText for r in sh.cssRules]


def _model(text):
    """the object model incl. namespace bindings: (rule tree with (URI, name) of every selector's element and the
    declared properties, prefix registry of the sheet)"""
    import css_parser
    import logging
    css_parser.log.setLevel(logging.FATAL)
    sh = css_parser.parseString(text, validate=False)

    def walk(rules):
        out = []
        for r in rules:
            if r.type == r.STYLE_RULE:
                out.append(["style", r.cssText, [list(x.element) if x.element else None for x in r.selectorList],
                            [(q.name, q.value, q.priority) for q in r.style.getProperties(all=True)]])
            elif r.type == r.MEDIA_RULE:
                out.append(["media", r.media.mediaText, walk(r.cssRules)])
            elif r.type == r.NAMESPACE_RULE:
                out.append(["namespace", r.prefix, r.namespaceURI])
            else:
                out.append([r.type, r.cssText])
        return out
    return [walk(sh.cssRules), sorted((str(k), v) for k, v in sh.namespaces.items())]


def _props(text):
    import css_parser
    import logging
    css_parser.log.setLevel(logging.FATAL)
    sh = css_parser.parseString(text, validate=False)
    if len(sh.cssRules) != 1:
        return ["#rules=%d" % len(sh.cssRules)]
    st = sh.cssRules[0].style
    return [(p.name, p.value, p.priority) for p in st.getProperties(all=True)]


def _style_props(text):
    import css_parser
    import logging
    css_parser.log.setLevel(logging.FATAL)
    st = css_parser.parseStyle(text, validate=False)
    return [(p.name, p.value, p.priority) for p in st.getProperties(all=True)]


def _sig_tokens(text):
    """token values without whitespace; strings and urls by content (the serializer normalises the quotes)"""
    from css_parser.util import Base
    b = Base()
    out = []
    for t in _tok(text, False):
        if t[0] == "S":
            continue
        out.append(b._stringtokenvalue(t) if t[0] == "STRING" else
                   "url(" + b._uritokenvalue(t) + ")" if t[0] == "URI" else t[1])
    return out


def extra_node(a, b):
    """a, b: rule trees of _model; the single node that a has in addition to b (at any depth), else None"""
    if len(a) == len(b) + 1:
        for i in range(len(a)):
            if a[:i] + a[i + 1:] == b:
                return a[i]
        return None
    if len(a) == len(b):
        d = [i for i in range(len(a)) if a[i] != b[i]]
        if len(d) == 1 and a[d[0]][0] == "media" == b[d[0]][0] and a[d[0]][1] == b[d[0]][1]:
            return extra_node(a[d[0]][2], b[d[0]][2])
    return None


def kept_container(case, text_with, text_without):
    """the only difference is one extra rule object of the kind the malformed statement starts with"""
    first = case["junk"].lstrip().lower()
    kinds = {"@media": ("media",), "@page": (6,), "@font-face": (5,), "@variables": (8, 1008, 10)}
    for kw, ks in kinds.items():
        if first.startswith(kw):
            n = extra_node(_model(text_with)[0], _model(text_without)[0])
            return n is not None and (n[0] in ks or (kw == "@variables" and isinstance(n[0], int) and n[0] not in (0, 1, 4, 5, 6)))
    return False


EMPTY_KEEPERS = ("@media", "@page", "@font-face", "@variables")


def oracle(case):
    """returns None or (description, sig_text). case = dict(kind=..., g1, junk, g2)"""
    k, g1, junk, g2 = case["kind"], case["g1"], case["junk"], case["g2"]
    try:
        pre = case.get("pre", "")
        if k == "top":
            with_, without = _rules(pre + " " + g1 + " " + junk + " " + g2), _rules(pre + " " + g1 + " " + g2)
        elif k == "media":
            with_ = _rules(pre + " @media print{" + g1 + " " + junk + " " + g2 + "}")
            without = _rules(pre + " @media print{" + g1 + " " + g2 + "}")
        elif k == "decl":
            with_, without = _props("a{" + g1 + ";" + junk + ";" + g2 + "}"), _props("a{" + g1 + ";" + g2 + "}")
            if with_ == without:          # the other entry points of the declaration parser
                w2 = _style_props(g1 + ";" + junk + ";" + g2), _style_props(g1 + ";" + g2)
                w3 = (_model("@media tv{p{left:0} a{" + g1 + ";" + junk + ";" + g2 + "} q{top:0}}"),
                      _model("@media tv{p{left:0} a{" + g1 + ";" + g2 + "} q{top:0}}"))
                if w2[0] != w2[1]:
                    with_, without = w2
                elif w3[0] != w3[1]:
                    with_, without = w3
        elif k == "unknown":
            import css_parser
            sh = css_parser.parseString(g1 + " " + junk + " " + g2, validate=False)
            with_ = [r.cssText for r in sh.cssRules]
            a, b = _rules(g1), _rules(g2)
            mid = list(sh.cssRules)[len(a):len(with_) - len(b)]
            ok = with_[:len(a)] == a and with_[len(with_) - len(b):] == b and len(mid) == 1 and \
                mid[0].type == mid[0].UNKNOWN_RULE
            if ok:
                # the rule's own item sequence (not its re-tokenised text: the serializer may glue '~' '=' to '~=')
                got = [mid[0].atkeyword] + [i.value if isinstance(i.value, str) else i.value.cssText
                                             for i in mid[0].seq if i.type != "S"]
                want = _sig_tokens(junk)
                want = [w[4:-1] if t[0] == "URI" else w for w, t in
                        zip(want, [t for t in _tok(junk, False) if t[0] != "S"])]
                ok = got == want
            if not ok:
                return ("unknown at-rule is not preserved with its tokens intact", json.dumps(case, sort_keys=True))
            return None
        elif k == "misplaced":
            tw, to = misplaced_texts(case)
            mw, mo = _model(tw), _model(to)
            if mw != mo:
                what = "rules" if [x[:2] for x in mw[0]] != [x[:2] for x in mo[0]] else \
                    "namespace bindings" if mw[1] != mo[1] or mw[0] != mo[0] else "?"
                return ("a well-formed but misplaced statement is not skipped as a unit (%s level, %s differ): with %r, "
                        "without %r" % (case["level"], what, mw, mo), json.dumps(case, sort_keys=True))
            return None
        elif k == "order":
            with_, without = _model(g1 + " " + junk + " " + g2), _model(g1 + " " + g2)
            if with_ != without:
                return ("a junk statement changes the fate of a later @import/@namespace rule", json.dumps(case, sort_keys=True))
            return None
    except Exception as e:  # noqa
        return ("parser raised %s on a (good, junk, good) triple" % type(e).__name__, json.dumps(case, sort_keys=True))
    if with_ == without:
        if k in ("top", "media"):
            pre = case.get("pre", "")
            wrap = (lambda x: pre + " " + x) if k == "top" else (lambda x: pre + " @media print{" + x + "}")
            mw, mo = _model(wrap(g1 + " " + junk + " " + g2)), _model(wrap(g1 + " " + g2))
            if mw != mo:
                if kept_container(case, wrap(g1 + " " + junk + " " + g2), wrap(g1 + " " + g2)):
                    return ("malformed @media/@page/@font-face/@variables statement is kept as an empty rule object",
                            json.dumps(case, sort_keys=True))
                return ("namespace bindings of the neighbours of a junk statement changed: with %r, without %r" % (mw, mo),
                        json.dumps(case, sort_keys=True))
        return None
    first = junk.lstrip().lower()
    wrap = (lambda x: pre + " " + x) if k == "top" else (lambda x: pre + " @media print{" + x + "}")
    if k in ("top", "media") and first.startswith(EMPTY_KEEPERS) and \
            kept_container(case, wrap(g1 + " " + junk + " " + g2), wrap(g1 + " " + g2)):
        return ("malformed @media/@page/@font-face/@variables statement is kept as an empty rule object", json.dumps(case, sort_keys=True))
    if k == "decl" and case.get("cls") == "prio":
        name, val = junk.split(":", 1)[0].strip(), junk.split(":", 1)[1].split("!")[0].strip()
        extra = [q for q in with_ if q not in without]
        if len(with_) == len(without) + 1 and len(extra) >= 1 and all(q[0] == name for q in extra):
            return ("a declaration with a malformed !priority is kept (the priority is dropped or taken as written)",
                    json.dumps(case, sort_keys=True))
    where = {"top": "top-level", "media": "@media-level", "decl": "declaration-level"}[k]
    return ("%s junk is not skipped as a unit: with junk %r, without %r" % (where, with_, without),
            json.dumps(case, sort_keys=True))


def gen_triples(rng, n):
    cases = []
    # every first-token kind at the three positions, fixed neighbours
    for f in FIRST:
        for kind in ("top", "media"):
            cases.append({"kind": kind, "g1": "a{x:1}", "junk": junk_statement(rng, f), "g2": "b{y:2}"})
    for f in ["3", "4px", '"s"', "'q;}{'", "#h", "url(u)", ":", ",", ".", "=", "!", "/", "$", "(", "[", "{", "f(", "rgb(",
              "U+0-7F", "~=", "!important", "foo", "foo bar:", "-->", "5%", "*", "&"]:
        cases.append({"kind": "decl", "g1": "x:1", "junk": junk_declaration(rng, f), "g2": "z:3"})
    # junk declarations that START like a declaration: a foreign token between the name and the colon (every kind of
    # token x every separator), and a malformed !priority
    for x in NAME_JUNK:
        for sep in ("", " ", "/**/"):
            cases.append({"kind": "decl", "g1": "color:red", "junk": junk_named_declaration(rng, x, sep), "g2": "top:0"})
    for t in BAD_PRIO:
        cases.append({"kind": "decl", "cls": "prio", "g1": "x:1", "junk": junk_priority_declaration(rng, t), "g2": "z:3"})
    for h in AT_VALID:
        for t in AT_TRAIL:
            cases.append({"kind": "order", "g1": '@import "i.css";', "junk": h + t + ";", "g2": "a{x:1}"})
    for _ in range(n // 5):
        r = rng.random()
        g1, g2 = rng.choice(GOODDECL + ["color:red"]), rng.choice(GOODDECL + ["top:0"])
        if r < 0.8:
            cases.append({"kind": "decl", "g1": g1, "junk": junk_named_declaration(rng), "g2": g2})
        else:
            cases.append({"kind": "decl", "cls": "prio", "g1": g1, "junk": junk_priority_declaration(rng), "g2": g2})
    for _ in range(n):
        r = rng.random()
        if r < 0.3:
            cases.append({"kind": "top", "g1": rng.choice(GOOD), "junk": junk_statement(rng), "g2": rng.choice(GOOD)})
        elif r < 0.5:
            g = [x for x in GOOD if not x.startswith("@font")]
            cases.append({"kind": "media", "g1": rng.choice(g), "junk": junk_statement(rng), "g2": rng.choice(g)})
        elif r < 0.85:
            cases.append({"kind": "decl", "g1": rng.choice(GOODDECL), "junk": junk_declaration(rng),
                          "g2": rng.choice(GOODDECL)})
        else:
            body = soup(rng, 2, True)
            end = ";" if rng.random() < 0.5 else "{" + soup(rng, 2, False) + "}"
            cases.append({"kind": "unknown", "g1": rng.choice(GOOD), "junk": "@unk " + body + end, "g2": rng.choice(GOOD)})
    # token-soup junk between neighbours that use namespace prefixes
    for _ in range(n // 6):
        pre, goods = rng.choice(NSCTX[:4])
        kind = rng.choice(["top", "media"])
        g = [x for x in goods if kind == "top" or not x.startswith("@")]
        cases.append({"kind": kind, "pre": pre, "g1": rng.choice(g), "junk": junk_statement(rng), "g2": rng.choice(g)})
    cases += gen_misplaced(rng, n // 3)
    # order state: a discarded statement must not change the fate of a later @import / @namespace / @variables
    skipf = ("@media", "@page", "@font-face", "@variables")      # kept as empty containers: open finding
    for _ in range(n // 6):
        g1, g2s = rng.choice(ORDER_CTX)
        first = rng.choice([f for f in FIRST if f not in skipf])
        cases.append({"kind": "order", "g1": g1, "junk": junk_statement(rng, first), "g2": rng.choice(g2s)})
    return cases


def usable(case):
    """the junk must tokenize into balanced tokens without INVALID/unterminated pieces; checked with the real
    tokenizer (texts whose junk is not balanced are outside the property)"""
    toks = _tok(case["junk"], False)
    if "/*" in "".join(t[1] for t in toks if t[0] not in ("COMMENT", "STRING", "URI")):
        return False      # an unterminated comment: not balanced
    depth = []
    pairs = {")": "(", "]": "[", "}": "{"}
    for t in toks:
        if t[0] == "INVALID":
            return False
        if t[0] == "FUNCTION" or (t[0] == "CHAR" and t[1] in "([{"):
            depth.append("(" if t[0] == "FUNCTION" else t[1])
        elif t[0] == "CHAR" and t[1] in ")]}":
            if not depth or depth.pop() != pairs[t[1]]:
                return False
    return not depth


def junk_shape(junk):
    """what must survive shrinking for the text to remain ONE malformed statement / declaration of the same class:
    (type or value of the first token, number of depth-0 ';', number of depth-0 '}' closings, position class of the
    last of them, a depth-0 '!' present, second token is ':')"""
    toks = [t for t in _tok(junk, False) if t[0] not in ("S", "COMMENT")]
    if not toks:
        return None
    d, semis, closes, bang, last_end = 0, 0, 0, False, -1
    for i, t in enumerate(toks):
        if t[0] == "FUNCTION" or (t[0] == "CHAR" and t[1] in "([{"):
            d += 1
        elif t[0] == "CHAR" and t[1] in ")]}":
            d -= 1
            if d == 0 and t[1] == "}":
                closes += 1
                last_end = i
        elif d == 0 and t[0] == "CHAR" and t[1] == ";":
            semis += 1
            last_end = i
        elif d == 0 and t[0] == "CHAR" and t[1] == "!":
            bang = True
    first = toks[0][0] if toks[0][0] != "CHAR" else toks[0][1]
    return (first, semis, closes, last_end == len(toks) - 1, bang, len(toks) > 1 and toks[1][1] == ":")


def run_oracle(case):
    if not usable(case):
        return "SKIP"
    return oracle(case)


# ------------------------------------------------------------------ the check
def run(ctx):
    thorough = ctx.tier == "thorough"
    rng = ctx.rng
    ctx.regen("upto")
    ctx.coq_build("props/C04.v")
    binary = ctx.ocaml_build("upto")
    corpus_p = VERIF / "corpus" / "C04.json"
    corpus = json.loads(corpus_p.read_text()) if corpus_p.exists() else {"texts": [], "triples": []}

    # ---- (f) function level
    texts = list(corpus.get("texts", []))
    small = ["a", "(", ")", "[", "]", "{", "}", ";", "f(", '"s"', ":", "!", ",", "@x "]
    import itertools
    for n in range(0, 4 if not thorough else 5):
        for tup in itertools.product(small, repeat=n):
            texts.append(" ".join(tup))
    n_exh = len(texts)
    for _ in range(3000 if not thorough else 30000):
        texts.append(soup(rng, 3, False, n=rng.randint(1, 10)))
    fcases = []
    for i, t in enumerate(texts):
        if i < n_exh and len(t) <= 5:
            combos = [(fl, ws) for fl in range(13) for ws in (0, 1)]
        else:
            combos = [(rng.randrange(13), rng.randrange(2)) for _ in range(3)] if i >= n_exh else \
                     [(fl, ws) for fl in (0, 1, 2, 5, 6, 8, rng.randrange(13)) for ws in (0, 1)]
        for fl, ws in combos:
            fcases.append((t, rng.random() < 0.5, fl, ws))
    fres = ctx.pool_map(impl_upto, fcases, procs=6, chunksize=512)
    mism = []
    evaluations = 0
    nontrivial = set()
    if binary:
        lines, idx = [], []
        for i, (c, r) in enumerate(zip(fcases, fres)):
            if r is None:
                continue
            lines.append("U %d %d %s" % (c[2], c[3], r[0]))
            idx.append(i)
        out = ctx.run_binary(binary, lines, shards=6)
        for i, o in zip(idx, out):
            c, r = fcases[i], fres[i]
            evaluations += 1
            if r[1] == "EXC" or not r[3] or o != "%d %d" % (r[1], r[2]):
                mism.append(("upto", c, r[1:], o))
            elif r[2] > 0 and r[1] > 1:
                nontrivial.add((c[0], c[2], c[3]))
    if mism:
        ctx.broken("correspondence", "Base._tokensupto2 vs CssV.Upto.upto",
                   "%d of %d cases differ; first: %s" % (len(mism), evaluations, json.dumps(mism[:3])))

    # ---- (s) skeleton level
    stexts = list(corpus.get("texts", []))
    for _ in range(500 if not thorough else 5000):
        parts = []
        for _ in range(rng.randint(1, 4)):
            r = rng.random()
            if r < 0.35:
                parts.append(rng.choice(GOOD))
            elif r < 0.6:
                parts.append(junk_statement(rng))
            elif r < 0.75:
                parts.append("s{" + ";".join(rng.choice([rng.choice(GOODDECL), junk_declaration(rng)])
                                              for _ in range(rng.randint(1, 4))) + "}")
            elif r < 0.9:
                parts.append("@media " + soup(rng, 1, True, allow_at=False) + rng.choice(["", '"n" ']) + "{" +
                             " ".join(rng.choice([rng.choice(GOOD), junk_statement(rng)]) for _ in range(rng.randint(0, 3))) + "}")
            else:
                parts.append("@unk " + soup(rng, 2, True) + rng.choice([";", "{" + soup(rng, 2, False) + "}"]))
        t = " ".join(parts)
        if rng.random() < 0.1:
            t = t[:rng.randint(0, len(t))]     # truncated: EOF inside a statement
        stexts.append(t)
    sres = ctx.pool_map(impl_skeleton, stexts, procs=6, chunksize=32)
    smism = []
    skel_eval = 0
    if binary:
        lines, exp = [], []
        for t, items in zip(stexts, sres):
            for cmd, enc, e in items:
                if cmd == "EXC":
                    smism.append(("skeleton", t, e))
                    continue
                if (cmd == "K" and e is None) or cmd == "RAISED":
                    continue
                lines.append(cmd + " " + enc)
                exp.append((t, cmd, e))
        out = ctx.run_binary(binary, lines, shards=6)
        for (t, cmd, e), o in zip(exp, out):
            skel_eval += 1
            d = check_skel(cmd, e, o)
            if d:
                smism.append((cmd, t, d))
    if smism:
        ctx.broken("correspondence", "parser statement skeleton vs CssV.Skeleton",
                   "%d of %d comparisons differ; first: %s" % (len(smism), skel_eval, json.dumps(smism[:3])))

    # ---- property-level oracle on the implementation
    triples = list(corpus.get("triples", [])) + gen_triples(rng, 1500 if not thorough else 20000)
    for f in ctx.findings:
        if f.get("status") == "open":
            triples.append(dict(f["witness"]))
    ores = ctx.pool_map(run_oracle, triples, procs=6, chunksize=64)
    skipped = 0
    per_kind = {}
    for case, r in zip(triples, ores):
        if r == "SKIP":
            skipped += 1
            continue
        per_kind[case["kind"]] = per_kind.get(case["kind"], 0) + 1
        if r:
            ctx.violation(r[0][:400], case, sig_text=r[1])

    def search():
        t0 = time.time()
        while time.time() - t0 < (300 if thorough else 60):
            batch = gen_triples(rng, 1500)
            res = ctx.pool_map(run_oracle, batch, procs=6, chunksize=64)
            for case, r in zip(batch, res):
                if r and r != "SKIP" and not ctx.match_known(r[0] + " :: " + r[1]):
                    return shrink(case, r[0])
        return None

    ctx.finish({
        "evaluations": evaluations + skel_eval + len(triples) - skipped,
        "upto_function_level_cases": evaluations,
        "skeleton_comparisons": skel_eval,
        "triples": per_kind,
        "triples_skipped_unbalanced": skipped,
        "distinct_nontrivial": len(nontrivial),
        "rule": "function level: all token texts of <= %d symbols over a %d-symbol alphabet x 13 modes x with/without start "
                "token (exhaustive part: %d texts) + random balanced soup; non-trivial = distinct (text, mode, start) whose "
                "run has >= 2 tokens and leaves a non-empty rest. skeleton: random sheets mixing good statements, junk "
                "statements, junk declarations, @media with junk children, unknown at-rules, 10%% truncated. triples: every "
                "first-token kind at top level / in @media / in a declaration block + random neighbours"
                % (3 if not thorough else 4, len(small), n_exh),
        "samples": [list(fcases[n_exh * 3 + 7]), stexts[len(corpus.get('texts', [])) + 3], triples[len(corpus.get('triples', [])) + 5],
                    triples[-3]],
        "disagreements_checked": (evaluations + skel_eval) if binary else 0,
        "trusted_base": TRUSTED,
    }, assumptions=ASSUME, search=search)


def shrink(case, what):
    """delete characters of the junk while the same failure (and balance) persists"""
    from harness.lib import shrink_seq
    head = what.split(":")[0]

    shape0 = junk_shape(case["junk"])

    def fails(j):
        c = dict(case, junk="".join(j))
        if not usable(c) or junk_shape(c["junk"]) != shape0:
            return False
        r = oracle(c)
        return bool(r) and r[0].split(":")[0] == head
    j = "".join(shrink_seq(case["junk"], fails, max_rounds=60))
    return dict(case, junk=j, fails=what[:300])


def replay(ctx, path):
    rep = json.loads(open(path).read())
    bad = 0
    for v in rep.get("violations", []):
        w = {k: v["witness"][k] for k in ("kind", "g1", "junk", "g2", "pre", "level", "cls") if k in v["witness"]}
        r = oracle(w)
        print("replay %s -> %s" % (json.dumps(w), r[0] if r else "holds"))
        bad += bool(r)
    return 1 if bad else 0


TRUSTED = [
    "Coq 8.16.1 kernel and VM; no native_compute",
    "translate/upto.py (AST shape checks on util._tokensupto2, the three dispatching _parse calls and their handlers; "
    "emits Gen/UptoGen.v; fail-closed)",
    "extraction (ExtrOcamlBasic only) + ocamlfind ocamlopt, ocaml/upto_driver.ml",
    "correspondence harness harness/props/c04.py: the call log wraps Base._tokensupto2 in the harness process "
    "(caller frame names identify the handler); generators; comparison of run lengths (a run is a prefix of the "
    "token list by upto_partition, and the harness checks result == tokens[:len] on the implementation side)",
    "modelled, not verified: _tokensupto2, the dispatch loops, the rule-set / @media splits and the CSSUnknownRule stack "
    "are hand-written Gallina transcriptions (coq/theories/Upto.v, Skeleton.v); what the rule objects do with a token "
    "run (selectors, values, media queries, the expected 0..3 order state) is outside the model and is exercised only "
    "by the end-to-end triples",
    "tokens come from the real tokenizer; the theorems are over arbitrary token lists (any ty/val)",
]
ASSUME = [
    "Print Assumptions for every theorem of props/C04.v: see coverage.print_assumptions",
    "junk is balanced as the counters of _tokensupto2 see it: brackets are recognised by token VALUE of non-IDENT "
    "tokens, a FUNCTION token opens a parenthesis",
    "unknown_atrule_preserved is proved for bodies of `usane` tokens (brackets are CHAR tokens, no EOF / INVALID token)",
    "the 0..3 order state is modelled with the rule objects' well-formedness as a parameter (wf) of "
    "junk_statement_skipped_order; the namespace registry is outside the model: misplaced well-formed statements "
    "(@namespace redeclarations, at-rules inside @media, statements inside declaration blocks) are covered by the "
    "end-to-end oracle only",
]
