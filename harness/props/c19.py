"""C19 -- a rejected assignment leaves the object unchanged.

proof:          coq/props/C19.v over coq/theories/Atomic.v (scripts, semantics, `atomic` analysis, atomic_sound)
tie:            translate/scripts.py regenerates the commit/raise script of every text setter from the current source
                (Gen/Scripts.v); correspondence: every setter x texts below is executed on fresh objects with
                exceptions enabled; the attributes of the object that changed must be fields the script may write
                (before a raise: raise_fields, on success: normal_fields), which checks the reviewed tables
oracle/search:  independent of the model: if the assignment raised a DOM exception, the public fingerprint (owner sheet
                cssText, wellformed/valid flags, specificity/element, every public attribute) must be unchanged.
                Lenient mode (log.raiseExceptions = False): every text that is rejected in raising mode is assigned
                again without exceptions, to the object (state A) and to a second object of the same kind that was first
                given another valid text through the same attribute (state B).  A setter either rejects (A unchanged) or
                commits a state determined by the text (A and B end equal); anything else is a mix of old and new state
                (e.g. old selector text with the specificity of the rejected text) and is a violation.
"""
import json
import re
import time
import traceback

BASE = ('@charset "utf-8";\n/*c1*/\n@import "x.css" tv "nm";\n@namespace p "http://u";\n@namespace q "http://v";\n'
        '@media print and (min-width: 10px), tv { a { left: 1px } @page { margin: 0 } }\n'
        '@page :first { margin: 1cm; @top-left { content: "x" } }\n'
        '@font-face { font-family: "F"; src: url(f.ttf) }\n@unknown x y;\n'
        'p|a, b.c > d:hover { color: red !important; background: url(i.png) no-repeat rgb(1,2,3); '
        'width: calc(1px + 2px); top: 1px; font-family: f(1) }\n'
        '@x\\5c 5c\\20 31 a;\n')


def esc_at(text, i):
    """the same text with the character at i written as a CSS escape (also a backslash or blank of an escape)"""
    return text[:i] + "\\%x " % ord(text[i]) + text[i + 1:]


def esc_levels(text, i, n):
    """text, escape of char i, escape of that escape's backslash, ... (n levels)"""
    out = [text]
    for _ in range(n):
        text = esc_at(text, i)
        out.append(text)
    return out


def fetcher(url):
    if "bad" in url:
        return None, b"i{top:0} j{color}"
    return None, b"i{top:0}"


def _r(s, clsname, n=0):
    return [r for r in s.cssRules if type(r).__name__ == clsname][n]


def _prop(s, name):
    return [p for p in _r(s, "CSSStyleRule").style.getProperties(all=True) if p.name == name][0]


# kind -> (how to reach the object in a fresh BASE sheet, {attr: [valid texts]})
KINDS = {
    "sheet": (lambda s: s, {"cssText": ["a{x:1}", "@import 'x.css'; b{y:2}", "@media tv{a{x:1}}", '@charset "ascii"; a{x:1}',
                                        "@variables {d: 1px} b{left: var(d)} c{top:0}"],
                            "encoding": ["ascii", "latin-1"]}),
    "charset": (lambda s: _r(s, "CSSCharsetRule"), {"cssText": ['@charset "ascii";'], "encoding": ["ascii", "latin-1"]}),
    "comment": (lambda s: _r(s, "CSSComment"), {"cssText": ["/*x*/"]}),
    "import": (lambda s: _r(s, "CSSImportRule"), {"cssText": ['@import "y.css";', '@import url(y.css) print "n";'],
                                         "href": ["y.css"], "media": ["print", "tv, print"], "name": ["n2"]}),
    "namespace": (lambda s: _r(s, "CSSNamespaceRule"), {"cssText": ['@namespace p "http://u";', '@namespace q "http://u";', '@namespace s "http://u";'],
                                            "prefix": ["q", "s"], "namespaceURI": ["http://u"]}),
    "namespace2": (lambda s: _r(s, "CSSNamespaceRule", 1), {"cssText": ['@namespace q "http://v";'], "prefix": ["r"],
                                                             "namespaceURI": ["http://v"]}),
    "media": (lambda s: _r(s, "CSSMediaRule"), {"cssText": ["@media tv {b{y:2}}", '@media print "n" {b{y:2} @page{margin:0} /*c*/}',
                                                    "@media screen and (color) {b{y:2} @media tv {c{z:1}}}"],
                                        "media": ["tv", "print, tv"], "name": ["n"]}),
    "medialist": (lambda s: _r(s, "CSSMediaRule").media, {"mediaText": ["tv", "print, tv", "screen and (color)", "all"]}),
    "mediaquery": (lambda s: _r(s, "CSSMediaRule").media[0], {"mediaText": ["tv", "screen and (color)", "not print"],
                                                      "mediaType": ["tv"]}),
    "nestedstyle": (lambda s: _r(s, "CSSMediaRule").cssRules[0], {"cssText": ["b{y:2}"], "selectorText": ["b, c"],
                                                          "style": ["y:2"]}),
    "page": (lambda s: _r(s, "CSSPageRule"), {"cssText": ["@page :left {margin:0}", "@page x:first {margin:0; @top-right{y:1}}"],
                                       "selectorText": [":left", "x:first", ""], "style": ["margin:0"]}),
    "margin": (lambda s: _r(s, "CSSPageRule").cssRules[0], {"cssText": ["@top-right{y:1}", "@bottom-left { y:1; z:2 }"],
                                                     "margin": ["@top-right"], "style": ["y:1"]}),
    "fontface": (lambda s: _r(s, "CSSFontFaceRule"), {"cssText": ['@font-face{font-family:"G";src:url(g.ttf)}'], "style": ['font-family:"G"']}),
    "unknown": (lambda s: _r(s, "CSSUnknownRule"), {"cssText": ["@unknown z;", "@unknown {a(b)[c]}"]}),
    "unknown_esc": (lambda s: _r(s, "CSSUnknownRule", 1), {"cssText": [x + " b;" for x in esc_levels("@x1", 2, 3)]}),
    "style": (lambda s: _r(s, "CSSStyleRule"), {"cssText": ["b{y:2}", "p|b, c > d {y:2;z:3 !important}"],
                                        "selectorText": ["b", "p|b, c:not(.d)", "a[b=c]::after"], "style": ["y:2; z:3"]}),
    "selectorlist": (lambda s: _r(s, "CSSStyleRule").selectorList, {"selectorText": ["b", "p|b, c > d", "a, b, c"]}),
    "selector": (lambda s: _r(s, "CSSStyleRule").selectorList[0], {"selectorText": ["b", "p|b", "c > d:hover", "*|e", "a[b|=c]"]}),
    "decl": (lambda s: _r(s, "CSSStyleRule").style, {"cssText": ["y:2", "y:2; z:3 !important; /*c*/"]}),
    "property": (lambda s: _r(s, "CSSStyleRule").style.getProperties()[0],
                 {"cssText": ["y: 2", "color: blue !important"], "name": ["top", "y"], "value": ["blue", "1px 2px"],
                  "priority": ["", "!important", "important"], "propertyValue": ["blue"], "cssValue": ["blue"]}),
    "propertyvalue": (lambda s: _r(s, "CSSStyleRule").style.getProperties()[1].propertyValue,
                      {"cssText": ["1px", "url(a) red, rgb(1,2,3)", "calc(1px + 2px) f(1)"]}),
    "value_ident": (lambda s: _r(s, "CSSStyleRule").style.getProperties()[1].propertyValue[1], {"cssText": ["repeat", '"s"'], "value": ["x"]}),
    "value_uri": (lambda s: _r(s, "CSSStyleRule").style.getProperties()[1].propertyValue[0], {"cssText": ["url(b.png)"], "uri": ["b.png"]}),
    "value_color": (lambda s: _r(s, "CSSStyleRule").style.getProperties()[1].propertyValue[2],
                    {"cssText": ["rgb(3,2,1)", "#fff", "hsl(1,2%,3%)", "rgba(1,2,3,0.5)", "red"]}),
    "value_calc": (lambda s: _r(s, "CSSStyleRule").style.getProperties()[2].propertyValue[0], {"cssText": ["calc(2px + 3px)"]}),
    "value_dim": (lambda s: _r(s, "CSSStyleRule").style.getProperties()[3].propertyValue[0], {"cssText": ["2px", "-1.5em", "3%", "4"]}),
    "value_func": (lambda s: _r(s, "CSSStyleRule").style.getProperties()[4].propertyValue[0], {"cssText": ["g(2)", "g(a, b)"]}),
}
# detached objects (no owner sheet)
DETACHED = {
    "d_medialist": ("css_parser.stylesheets.MediaList", ("print",), {}, {"mediaText": ["tv", "print, tv"]}),
    "d_medialist_empty": ("css_parser.stylesheets.MediaList", (), {}, {"mediaText": ["tv"]}),
    "d_mediaquery": ("css_parser.stylesheets.MediaQuery", ("print",), {}, {"mediaText": ["tv", "screen and (color)"]}),
    "d_color_fresh": ("css_parser.css.ColorValue", (), {}, {"cssText": ["rgb(3,2,1)", "hsl(1,2%,3%)"]}),
    "d_propertyvalue": ("css_parser.css.PropertyValue", ("1px solid red",), {}, {"cssText": ["2px", "a b"]}),
    "d_propertyvalue_fresh": ("css_parser.css.PropertyValue", (), {}, {"cssText": ["2px"]}),
    "d_property_mq": ("css_parser.css.Property", ("min-width", "10px"), {"_mediaQuery": True},
                      {"cssText": ["max-width: 5px", "color"], "name": ["color"], "value": ["5px"], "priority": [""]}),
    "d_property": ("css_parser.css.Property", ("left", "1px", "!important"), {},
                   {"cssText": ["y: 2"], "name": ["top"], "value": ["2px"], "priority": ["", "important"]}),
    "d_variable": ("css_parser.css.CSSVariable", ("var(x)",), {}, {"cssText": ["var(y)", "var(y, 1px)"]}),
    "d_selector": ("css_parser.css.Selector", ("a > b",), {}, {"selectorText": ["c", "d e"]}),
    "d_stylerule": ("css_parser.css.CSSStyleRule", ("a",), {}, {"cssText": ["b{y:2}"], "selectorText": ["b"], "style": ["y:2"]}),
    "d_nsrule": ("css_parser.css.CSSNamespaceRule", ("http://u", "p"), {}, {"cssText": ['@namespace p "http://u";'], "prefix": ["q"]}),
    "d_mediarule": ("css_parser.css.CSSMediaRule", ("print",), {}, {"cssText": ["@media tv {b{y:2}}"], "media": ["tv"]}),
}
TEXT_ATTRS = {"cssText", "selectorText", "mediaText", "style"}
JUNK = [";", "}", "{", "!", "@x", "(", ")", ",", "/*c*/", " junk", '"', "\\", ":", "|", "zz|q", '@import "bad.css";',
        "@media", " and ", "not(", "1px", "#", "url(", "[", "]", "!important", "!foo", "*", ">", "@charset \"a\";", "\n", "%",
        "@top-left{", "rgb(1,2)", "@namespace q \"http://other\";"]
# values that are not texts (decoded by pyvalue just before the assignment)
PYVALUES = {
    "\u00abNone\u00bb": lambda: None, "\u00ab0\u00bb": lambda: 0, "\u00ab1.5\u00bb": lambda: 1.5, "\u00abTrue\u00bb": lambda: True,
    "\u00ab[]\u00bb": lambda: [], "\u00ab['x']\u00bb": lambda: ["x"], "\u00ab()\u00bb": lambda: (), "\u00abb'x'\u00bb": lambda: b"x",
    "\u00abMediaList\u00bb": lambda: __import__("css_parser").stylesheets.MediaList("tv"),
    "\u00abbad MediaList\u00bb": lambda: __import__("css_parser").stylesheets.MediaList(),
    "\u00abCSSStyleDeclaration\u00bb": lambda: __import__("css_parser").css.CSSStyleDeclaration("y:2"),
    "\u00abSelectorList\u00bb": lambda: __import__("css_parser").css.SelectorList("b"),
}
# names and values that pass a setter's first (syntactic) check and may fail a later (semantic) one
SEMANTIC = [
    # at-keywords, also spelled with case / escapes
    "@import", "@IMPORT", "@\\69mport", "@media", "@page", "@namespace", "@charset", "@font-face", "@top-left",
    "@bottom-right-corner", "@TOP-LEFT", "@x", "@unknown", "@\\75nknown",
    # identifiers: declared / undeclared / reserved words of the sub-grammars
    "p", "q", "r", "zz", "P", "auto", "first", "left", "all", "tv", "print", "foo", "only", "not", "and", "inherit", "\\70",
    # priorities
    "!important", "! important", "!IMPORTANT", "!/*c*/important", "important", "IMPORTANT", "!foo", "!import\\61nt",
    # urls / uris: loadable, not loadable, with a broken sheet behind, malformed
    "x.css", "bad.css", "http://e.com/bad.css", "//[", "a b", "http://u", "http://v", "http://other", "HTTP://U",
    # encodings incl. codecs that are no text encodings
    "utf-8", "UTF-8", "latin_1", "hex", "HEX", "rot13", "base64", "undefined", "idna", "css", "punycode", "utf-16", "utf-9",
]


def codec_names(thorough):
    """every codec name the interpreter knows (modules of the encodings package, aliases in the thorough tier)"""
    import encodings
    import encodings.aliases
    import pkgutil
    names = sorted(m.name for m in pkgutil.iter_modules(encodings.__path__) if not m.name.startswith("_") and m.name != "aliases")
    out = list(names) + [n.upper() for n in names[::4]]
    if thorough:
        out += [n.upper() for n in names] + [n.replace("_", "-") for n in names if "_" in n] + sorted(encodings.aliases.aliases)
    return out


def pyvalue(text):
    return PYVALUES[text]() if text in PYVALUES else text


SKIP_KEYS = {"_parent", "_parentRule", "_parentStyleSheet", "parent", "_ownerRule", "_ownerNode", "_log", "_prods",
             "_fetcher", "_readonly", "_Property__nametoken", "_parentMediaList"}


def all_valid_texts():
    out = []
    for k, (_, attrs) in KINDS.items():
        for a, ts in attrs.items():
            out += ts
    return sorted(set(out))


def tokens_of(text):
    return [t for t in re.split(r"(\s+|[{};:,()!@|>\[\]\"']|/\*|\*/)", text) if t]


def mutations(text, rng, nrand):
    """invalid-ish texts from a valid one: truncation, token deletion/insertion, trailing content"""
    out = []
    step = 1 if (nrand > 20 or len(text) <= 16) else 2        # quick tier: every second cut of a long text
    for i in range(0, len(text), step):
        out.append(text[:i])
    toks = tokens_of(text)
    for i in range(len(toks)):
        out.append("".join(toks[:i] + toks[i + 1:]))
    # respellings that CSS treats as the same text: case of keywords/identifiers, escaped characters
    for i, tk in enumerate(toks):
        if tk[:1].isalpha() or (tk[:1] == "@" and len(tk) > 1) or tk[:1] == "-":
            k = 1 if tk[0] in "@-" and len(tk) > 1 else 0
            esc = "\\%x " % ord(tk[k])
            out.append("".join(toks[:i] + [tk[:k] + esc + tk[k + 1:]] + toks[i + 1:]))
            out.append("".join(toks[:i] + [tk.upper()] + toks[i + 1:]))
            if len(tk) > k + 2:
                m = k + 1 + (i % (len(tk) - k - 1))
                out.append("".join(toks[:i] + [tk[:m] + "\\" + ("%x " % ord(tk[m]) if tk[m] in "0123456789abcdefABCDEF" else tk[m])
                                               + tk[m + 1:]] + toks[i + 1:]))
    # escapes of any character, also of the backslash / blank of an escape (escape of an escape), and a double escape
    # (escaped backslash followed by hex digits) inside every identifier
    for i, ch in enumerate(text):
        if ch == "\\" or (len(text) <= 24 and (ch.isalnum() or ch == " ") and (nrand > 20 or i % 2 == 0)):
            out.append(esc_at(text, i))
    for i, tk in enumerate(toks):
        if tk[:1].isalpha() or (tk[:1] == "@" and len(tk) > 1):
            out.append("".join(toks[:i] + [tk + "\\5c 31 "] + toks[i + 1:]))
            out.append("".join(toks[:i] + [tk[:2] + "\\5c 5c\\20 31 " + tk[2:]] + toks[i + 1:]))
    for j in JUNK:
        out.append(text + j)
        if nrand > 20:                 # thorough tier only
            out.append(text + " " + j)
        out.append(j + text)
    for _ in range(nrand):
        t = list(toks)
        for _ in range(rng.randint(1, 3)):
            r = rng.random()
            if r < 0.5 or not t:
                t.insert(rng.randint(0, len(t)), rng.choice(JUNK))
            elif r < 0.8:
                del t[rng.randrange(len(t))]
            else:
                i = rng.randrange(len(t))
                t[i] = rng.choice(JUNK)
        out.append("".join(t))
    return out


REJECT_TEXTS = ["zz|a", "zz|a{x:1}", "@media tv {zz|a{x:1}}", "", "a{x:1} junk", "@page {@top-left{x:1;!}}", "y: ;", "print,",
                "@x\\5c 31 b;", "@unknown }", "!foo", "hex"]


def gen_histories(ctx, thorough):
    """two-step histories on one sheet: an ACCEPTED assignment that changes derived / cached state of the sheet
    (namespace prefix or URI, encoding, import, media, keyword spelling ...), then a rejected assignment anywhere"""
    rng = ctx.rng
    pres = []
    for k2 in ("namespace", "namespace2", "charset", "sheet", "import", "media", "page", "unknown_esc", "unknown", "style"):
        for a2, vs in KINDS[k2][1].items():
            if k2 == "sheet" and a2 == "cssText":
                continue
            for v in vs:
                pres.append([k2, a2, v])
    cases = []
    for kind, (_, attrs) in KINDS.items():
        for attr, valids in attrs.items():
            for pre in pres:
                for t in REJECT_TEXTS + [valids[0] + " }x"]:
                    if thorough or rng.random() < 0.08:
                        cases.append((kind, attr, t, 0, 1, [pre]))
    return cases


def gen_cases(ctx, thorough):
    rng = ctx.rng
    nrand = 60 if thorough else 12
    pool = all_valid_texts()
    cases = []
    for kind, (_, attrs) in list(KINDS.items()) + [(k, (None, v[3])) for k, v in DETACHED.items()]:
        for attr, valids in attrs.items():
            texts = set()
            for v in valids:
                texts.add(v)
                texts.update(mutations(v, rng, nrand))
            texts.update(pool)                     # wrong rule kind / wrong object kind
            texts.update(["", " ", "zz|a{x:1}", "zz|a", "a{x:1} junk", "@media tv {zz|a{x:1}}", "@media tv {a{x:1}} junk",
                          "@media tv {a{x:1} b{color}}", "@top-right{y:1;!}", "y: ;", "/*c*/", ",", "print,",
                          '@import "bad.css";', '@import "bad.css" tv;', "bad.css", "!foo", "rgb(1,2)", "1px }",
                          '@namespace q "http://other";', "@page :first {margin:0} x", "@page {@top-left{x:1;!}}"])
            if attr not in TEXT_ATTRS:
                # values that pass the first check and may fail a later one
                texts.update(SEMANTIC)
                texts.update(PYVALUES)
            else:
                texts.update(SEMANTIC[::3])
                texts.update(list(PYVALUES)[:4])
            if attr == "encoding":
                texts.update(codec_names(thorough))
            if kind in ("charset", "sheet") and attr == "cssText":
                texts.update('@charset "%s";%s' % (n, " a{x:1}" if kind == "sheet" else "")
                             for n in codec_names(thorough)[::1 if (thorough or kind == "charset") else 3])
            for t in sorted(texts):
                cases.append((kind, attr, t, 0))
            # readonly objects: every assignment must be rejected and change nothing
            for t in valids[:2] + ["", "junk{"]:
                cases.append((kind, attr, t, 1))
    if not thorough:
        # quick tier: a seeded 70 % sample of the single assignments (the thorough tier runs all of them)
        cases = [c for c in cases if c[3] or rng.random() < 0.7]
    return cases + gen_histories(ctx, thorough)


# ----------------------------------------------------------------------------- implementation side
def build(kind):
    import importlib
    import logging
    import css_parser
    css_parser.log.setLevel(logging.FATAL)
    if kind in KINDS:
        p = css_parser.CSSParser(fetcher=fetcher)
        s = p.parseString(BASE, href="http://e.com/s.css")
        return s, KINDS[kind][0](s)
    path, args, kw, _ = DETACHED[kind]
    mod, cls = path.rsplit(".", 1)
    css_parser.log.raiseExceptions = False
    obj = getattr(importlib.import_module(mod), cls)(*args, **kw)
    return None, obj


def canon(v, depth, seen):
    if isinstance(v, (str, int, float, bool, type(None), bytes)):
        return repr(v)
    if id(v) in seen:
        return "<cycle>"
    if depth <= 0:
        return "<deep>"
    seen = seen | {id(v)}
    if isinstance(v, (list, tuple)):
        return [canon(x, depth - 1, seen) for x in v]
    if isinstance(v, dict):
        return sorted((repr(k), canon(x, depth - 1, seen)) for k, x in v.items())
    mod = type(v).__module__ or ""
    if mod.startswith("css_parser") and hasattr(v, "__dict__"):
        d = {k: canon(x, depth - 1, seen) for k, x in vars(v).items() if k not in SKIP_KEYS}
        if isinstance(v, list):
            d["<items>"] = [canon(x, depth - 1, seen) for x in v]
        return (type(v).__name__, sorted(d.items()))
    return "<%s>" % type(v).__name__


def deep_fields(obj):
    return {k: json.dumps(canon(x, 7, frozenset([id(obj)])), sort_keys=True, default=str)
            for k, x in vars(obj).items() if k not in SKIP_KEYS}


def public_fp(sheet, obj, attrs):
    fp = {}
    if sheet is not None:
        try:
            fp["sheet.cssText"] = sheet.cssText
        except Exception as e:  # noqa -- a sheet that can no longer be serialised has certainly changed
            fp["sheet.cssText"] = "<%s: %s>" % (type(e).__name__, e)
        try:
            fp["sheet.encoding"] = sheet.encoding
        except Exception as e:  # noqa
            fp["sheet.encoding"] = "<%s>" % type(e).__name__
        for nm, f in (("sheet.variables", lambda: sorted((k, sheet.variables[k]) for k in sheet.variables.keys())),
                      ("sheet.namespaces", lambda: sorted(sheet.namespaces.items())),
                      ("sheet.rules", lambda: [(r.type, r.wellformed) for r in sheet.cssRules])):
            try:
                fp[nm] = str(f())
            except Exception as e:  # noqa
                fp[nm] = "<%s: %s>" % (type(e).__name__, e)
    names = set(attrs) | {"wellformed", "valid", "cssText", "selectorText", "mediaText", "specificity", "length", "element"}
    for k in type(obj).__mro__:
        for n, d in vars(k).items():
            if isinstance(d, property) and not n.startswith("_") and n not in FP_SKIP:
                names.add(n)
    for a in sorted(names):
        try:
            v = getattr(obj, a)
        except Exception as e:  # noqa
            v = "<%s>" % type(e).__name__
        if not isinstance(v, (str, bytes, int, float, bool, type(None), tuple)):
            v = getattr(v, "cssText", None) or getattr(v, "mediaText", None) or getattr(v, "selectorText", None) or type(v).__name__
        fp[a] = v
    return fp


# own errors after which the setter commits by design: script -> message prefixes
LENIENT_BY_DESIGN = {
    # the parser keeps an unknown priority (`color: red !foo` is serialised again, valid = False)
    "Property.priority": ("Property: No CSS priority value",),
    # a colour function with a wrong mix of numbers/percentages is reported and kept (like any invalid value)
    "ColorValue.cssText": ("ColorValue has invalid",),
    # recovering containers: the error concerns one child (declaration / rule), which is dropped; the rest is kept (C04)
    "CSSStyleDeclaration.cssText": ("CSSStyleDeclaration:",),
    "CSSStyleSheet.cssText": ("CSSStylesheet:", "CSSStyleSheet:"),
    "CSSMediaRule.cssText": ("CSSMediaRule: This rule is not allowed in CSSMediaRule - ignored",
                             "CSSMediaRule: This type of rule is not allowed here"),
}
# public properties that are links / derived objects / deprecated aliases, not state of the object itself
FP_SKIP = {"parent", "parentRule", "parentStyleSheet", "parentList", "styleSheet", "seq", "cssValue", "absoluteUri",
           "typeString", "type"}


class _Count(object):
    """stands in for the logger of css_parser.log: counts the messages at ERROR level and above"""

    def __init__(self):
        self.n = 0
        self.obj = None
        self.own = []        # messages logged by the setter of self.obj itself (not by a nested object's setter)

    def error(self, msg="", *a, **k):
        import sys
        self.n += 1
        if _T.get("neverraise"):
            return          # a validation note (neverraise=True): reported, never a rejection
        f = sys._getframe(1)
        while f is not None:
            fn = f.f_code.co_filename
            if not (fn.endswith("errorhandler.py") or fn.endswith("prodparser.py") or fn.endswith("c19.py")):
                o = f.f_locals.get("self")
                if o is not None and (type(o).__module__ or "").startswith("css_parser"):
                    if o is self.obj:
                        self.own.append(str(msg)[:80])
                    return
            f = f.f_back

    critical = fatal = error

    def debug(self, *a, **k):
        pass

    info = warning = warn = debug

    def setLevel(self, *a):
        pass

    def getEffectiveLevel(self):
        return 40

    def addHandler(self, *a):
        pass

    removeHandler = addHandler


def lenient_pair(kind, attr, text, attrs):
    """the same assignment without exceptions on state A and on state B; returns a dict"""
    import xml.dom
    import css_parser
    valids = (KINDS[kind][1] if kind in KINDS else DETACHED[kind][3])[attr]
    alts = [v for v in valids if v != text]
    out = {}
    ends = []
    for which in ("A", "B"):
        sheet, obj = build(kind)
        old = css_parser.log._log
        cnt = _Count()
        try:
            css_parser.log.raiseExceptions = False
            if which == "B":
                if not alts:
                    ends.append(None)
                    continue
                try:
                    setattr(obj, attr, alts[-1])
                except Exception:  # noqa
                    pass
            css_parser.log.setLog(cnt)
            p0 = public_fp(sheet, obj, attrs)
            d0 = deep_fields(obj) if which == "A" else None
            cnt.n, cnt.own, cnt.obj = 0, [], obj
            exc = ""
            if which == "A":
                _const_check(obj)
                _T["obj"] = obj
            try:
                setattr(obj, attr, pyvalue(text))
            except xml.dom.DOMException as e:
                exc = type(e).__name__
            except Exception as e:  # noqa
                exc = "!" + type(e).__name__
            finally:
                _T["obj"] = None
            if which == "A":
                _const_check(obj)
            nerr = cnt.n
            p1 = public_fp(sheet, obj, attrs)
            if which == "A":
                d1 = deep_fields(obj)
                out.update(l_exc=exc, l_errors=nerr, l_own=[m for m in cnt.own if not any(
                    m.startswith(x) for x in LENIENT_BY_DESIGN.get(script_name(obj, attr) or "", ()))],
                    l_before=p0, l_after=p1,
                           l_changed=sorted(k for k in set(p0) | set(p1) if p0.get(k) != p1.get(k)),
                           l_deep=sorted(k for k in set(d0) | set(d1) if d0.get(k) != d1.get(k)))
            else:
                out.update(l_b_prepared=(p0 != out["l_before"]))
            ends.append(p1)
            if which == "A" and not out["l_changed"]:
                ends.append(None)          # unchanged: state B is not needed
                break
        finally:
            css_parser.log.setLog(old)
            css_parser.log.raiseExceptions = True
    a1, b1 = ends[0], ends[1]
    out["l_unchanged"] = not out["l_changed"]
    out["l_same_as_b"] = (b1 is not None and a1 == b1)
    out["l_bad"] = ""
    if out["l_changed"] and (out["l_own"] or out["l_exc"]):
        out["l_bad"] = "the setter logged its own error (%s) and still changed the object" % (out["l_own"] or [out["l_exc"]])[0]
    elif out["l_changed"] and not out["l_same_as_b"] and b1 is not None:
        out["l_bad"] = "the result is a mix of old and new state (it depends on the state before)"
    if out["l_bad"] and b1 is not None:
        k = [k for k in out["l_changed"] if True][0]
        out["l_detail"] = {"A_before": str(out["l_before"].get(k))[:160], "A_after": str(a1.get(k))[:160],
                           "B_after": str(b1.get(k))[:160], "attribute": k,
                           "A_differs_from_B_in": sorted(x for x in set(a1) | set(b1) if a1.get(x) != b1.get(x))[:8]}
    del out["l_before"], out["l_after"]
    return out


# ----------------------------------------------------------------------------- run-time validation of the reviewed tables
# The tables of translate/scripts.py are trusted by the theorems.  Every entry is checked against the executions of this
# run, on the object under test only:
#   PURE_SELF       the helper is wrapped: a deep snapshot of self before/after the call must be equal
#   MUTATORS        wrapped: the attributes of self that changed must be the one field the table names; no DOM exception
#   DEAD_CHECKS     the inner property setter is wrapped while the outer setter runs: no check (log call that may raise)
#                   may be reached and no DOM exception may leave it
#   CONST_EMPTY_IN_MODE   in the mode named, the attribute is '' before and after every assignment
_T = {"installed": False, "obj": None, "outer": [], "checks": 0,
      "pure_calls": {}, "pure_snap": 0, "pure_bad": [], "mut_calls": {}, "mut_bad": [], "dead_calls": {}, "dead_fired": [],
      "const_checked": 0, "const_bad": []}


def _t_reset():
    _T.update(obj=None, outer=[], pure_calls={}, pure_snap=0, pure_bad=[], mut_calls={}, mut_bad=[], dead_calls={},
              dead_fired=[], const_checked=0, const_bad=[])


def _t_report():
    return {"pc": dict(_T["pure_calls"]), "ps": _T["pure_snap"], "pb": _T["pure_bad"][:3], "mc": dict(_T["mut_calls"]),
            "mb": _T["mut_bad"][:3], "dc": dict(_T["dead_calls"]), "df": _T["dead_fired"][:3],
            "cc": _T["const_checked"], "cb": _T["const_bad"][:3]}


def _all_classes():
    import inspect
    import pkgutil
    import importlib
    import css_parser
    import css_parser.css
    import css_parser.stylesheets
    import css_parser.util
    seen = {}
    mods = [css_parser.util]
    for pkg in (css_parser.css, css_parser.stylesheets):
        for m in pkgutil.iter_modules(pkg.__path__):
            try:
                mods.append(importlib.import_module(pkg.__name__ + "." + m.name))
            except Exception:  # noqa
                pass
    for mod in mods:
        for c in vars(mod).values():
            if inspect.isclass(c) and (c.__module__ or "").startswith("css_parser"):
                seen[id(c)] = c
    return list(seen.values())


def _install_tables():
    if _T["installed"]:
        return
    _T["installed"] = True
    import inspect
    import xml.dom
    import css_parser.errorhandler as EH
    from translate.scripts import PURE_SELF, MUTATORS, DEAD_CHECKS

    orig_handle = EH._ErrorHandler._ErrorHandler__handle

    def handle(self, msg="", token=None, error=xml.dom.SyntaxErr, neverraise=False, args=None):
        if not neverraise and _T["obj"] is not None:
            _T["checks"] += 1
        _T["neverraise"] = bool(neverraise)
        try:
            return orig_handle(self, msg, token, error, neverraise, args)
        finally:
            _T["neverraise"] = False
    EH._ErrorHandler._ErrorHandler__handle = handle

    def unmangled(k):
        # _Cls__name -> __name
        if k.startswith("_") and "__" in k[1:]:
            i = k.index("__", 1)
            return k[i:]
        return k

    def wrap_pure(name, f):
        def w(self, *a, **k):
            if _T["obj"] is None or self is not _T["obj"]:
                return f(self, *a, **k)
            n = _T["pure_calls"][name] = _T["pure_calls"].get(name, 0) + 1
            check = n == 1 or n % 40 == 0
            if check:
                before = deep_fields(self)
            try:
                return f(self, *a, **k)
            finally:
                if check:
                    _T["pure_snap"] += 1
                    after = deep_fields(self)
                    if before != after:
                        _T["pure_bad"].append([name, sorted(x for x in set(before) | set(after) if before.get(x) != after.get(x))])
        w.__name__ = getattr(f, "__name__", name)
        w.__wrapped_c19__ = f
        return w

    def wrap_mut(name, fld, f):
        def w(self, *a, **k):
            if _T["obj"] is None or self is not _T["obj"]:
                return f(self, *a, **k)
            _T["mut_calls"][name] = _T["mut_calls"].get(name, 0) + 1
            before = deep_fields(self)
            try:
                return f(self, *a, **k)
            except xml.dom.DOMException as e:
                _T["mut_bad"].append([name, "raised " + type(e).__name__])
                raise
            finally:
                after = deep_fields(self)
                ch = sorted(x for x in set(before) | set(after) if before.get(x) != after.get(x))
                if any(x != fld for x in ch):
                    _T["mut_bad"].append([name, ch])
        w.__name__ = getattr(f, "__name__", name)
        return w

    for c in _all_classes():
        for k, v in list(vars(c).items()):
            if not inspect.isfunction(v):
                continue
            nm = unmangled(k)
            if nm in PURE_SELF or k in PURE_SELF:
                setattr(c, k, wrap_pure(nm if nm in PURE_SELF else k, v))
            elif k in MUTATORS:
                setattr(c, k, wrap_mut(k, MUTATORS[k], v))

    by_name = {c.__name__: c for c in _all_classes()}
    for (cname, outer, attr), why in DEAD_CHECKS.items():
        c = by_name.get(cname)
        if c is None:
            continue
        key = "%s.%s in %s" % (cname, attr, outer)
        # the outer setter: the property of the class whose fset has that name
        for pn, pv in list(vars(c).items()):
            if isinstance(pv, property) and pv.fset is not None and getattr(pv.fset, "__name__", "") == outer:
                def mk_outer(fset, tag):
                    def w(self, value):
                        _T["outer"].append((id(self), tag))
                        try:
                            return fset(self, value)
                        finally:
                            _T["outer"].pop()
                    w.__name__ = fset.__name__
                    return w
                setattr(c, pn, property(pv.fget, mk_outer(pv.fset, (cname, outer)), pv.fdel, pv.__doc__))
        inner = None
        for k in c.__mro__:
            if attr in vars(k) and isinstance(vars(k)[attr], property):
                inner = (k, vars(k)[attr])
                break
        if inner is None or inner[1].fset is None:
            continue

        def mk_inner(fset, key, tag):
            def w(self, value):
                if _T["obj"] is None or self is not _T["obj"] or (id(self), tag) not in _T["outer"]:
                    return fset(self, value)
                _T["dead_calls"][key] = _T["dead_calls"].get(key, 0) + 1
                c0 = _T["checks"]
                try:
                    r = fset(self, value)
                except xml.dom.DOMException as e:
                    _T["dead_fired"].append([key, "raised " + type(e).__name__])
                    raise
                if _T["checks"] != c0:
                    _T["dead_fired"].append([key, "a check was reached (logged)"])
                return r
            w.__name__ = fset.__name__
            return w
        k, pv = inner
        setattr(k, attr, property(pv.fget, mk_inner(pv.fset, key, (cname, outer)), pv.fdel, pv.__doc__))


def _const_check(obj):
    from translate.scripts import CONST_EMPTY_IN_MODE
    for cname, flag, attr in CONST_EMPTY_IN_MODE:
        if any(k.__name__ == cname for k in type(obj).__mro__) and getattr(obj, flag, False):
            _T["const_checked"] += 1
            if getattr(obj, attr, None) != "":
                _T["const_bad"].append([cname, flag, attr, repr(getattr(obj, attr, None))])


def script_name(obj, attr):
    for k in type(obj).__mro__:
        if attr in k.__dict__ and isinstance(k.__dict__[attr], property):
            n = "%s.%s" % (k.__name__, attr)
            if getattr(obj, "_mediaQuery", False):
                n += "[_mediaQuery]"
            return n
    return None


def attrs_of(kind):
    return list((KINDS[kind][1] if kind in KINDS else DETACHED[kind][3]).keys())


def run_case(case):
    try:
        return run_case_(case)
    except Exception as e:  # noqa -- e.g. the serializer crashing on the fingerprint
        return {"error": "%s: %r" % (case[:3], e)}


def run_case_(case):
    """returns dict(raised, exc, where, pub_changed, changed(list of fields), script)"""
    import xml.dom
    import css_parser
    kind, attr, text, ro = case[:4]
    _install_tables()
    _t_reset()
    try:
        sheet, obj = build(kind)
    except Exception as e:  # noqa
        return {"error": "build failed: %r" % (e,)}
    attrs = attrs_of(kind)
    pre = case[5] if len(case) > 5 else None
    if pre:
        css_parser.log.raiseExceptions = True
        for k2, a2, t2 in pre:
            try:
                setattr(KINDS[k2][0](sheet), a2, pyvalue(t2))
            except Exception as e:  # noqa -- the first step must be accepted
                return {"skipped": "history step rejected: %s" % type(e).__name__}
        try:
            obj = KINDS[kind][0](sheet)
        except Exception as e:  # noqa
            return {"skipped": "object gone after the first step"}
        if obj is None or not hasattr(obj, "__dict__"):
            return {"skipped": "object gone after the first step"}
    res = {"script": script_name(obj, attr)}
    css_parser.log.raiseExceptions = True
    try:
        if ro:
            obj._readonly = True
        pub0, deep0 = public_fp(sheet, obj, attrs), deep_fields(obj)
        raised, exc, where, msg = 0, "", "", ""
        _const_check(obj)
        _T["obj"] = obj
        try:
            setattr(obj, attr, pyvalue(text))
        except xml.dom.DOMException as e:
            raised, exc, msg = 1, type(e).__name__, str(e)[:120]
            fr = [f.name for f in traceback.extract_tb(e.__traceback__) if "css_parser" in f.filename]
            where = "_setHref" if "_setHref" in fr else (fr[-2] if len(fr) > 1 and fr[-1] in ("__handle",) else (fr[-1] if fr else ""))
        except Exception as e:  # noqa  -- a crash, not a rejection: outside the statement, counted
            raised, exc, msg = 2, type(e).__name__, str(e)[:120]
        finally:
            _T["obj"] = None
        _const_check(obj)
        pub1, deep1 = public_fp(sheet, obj, attrs), deep_fields(obj)
    finally:
        css_parser.log.raiseExceptions = True
    res.update(raised=raised, exc=exc, where=where, msg=msg,
               pub_changed=sorted(k for k in set(pub0) | set(pub1) if pub0.get(k) != pub1.get(k)),
               changed=sorted(k for k in set(deep0) | set(deep1) if deep0.get(k) != deep1.get(k)))
    if res["pub_changed"]:
        k = res["pub_changed"][0]
        res["before_after"] = [str(pub0.get(k))[:200], str(pub1.get(k))[:200]]
    if raised == 1 and not ro and not pre and (len(case) < 5 or case[4]):
        res.update(lenient_pair(kind, attr, text, attrs))
    res["tbl"] = _t_report()
    return res


# ----------------------------------------------------------------------------- model side
def model_summaries(ctx):
    req = "From CssV Require Import Base Atomic AtomicFacts AtomicLenient Gen.Scripts AtomicHand.\nOpen Scope string_scope."
    out = ctx.coq_eval(req, ["map (fun p : string * script => (fst p, summary (snd p))) (all_scripts ++ hand_scripts)",
                             "(refused_anchored, refused_extra)",
                             "map (fun p : string * lscript => (fst p, lsummary (snd p))) (all_lscripts ++ hand_lscripts)"])
    summ = {}
    for m in re.finditer(r'\("([^"]+)",\s*\((true|false),\s*(true|false),\s*\[([^\]]*)\],\s*\[([^\]]*)\]\)\)', out[0]):
        f = lambda x: set(re.findall(r'"([^"]+)"', x))  # noqa
        summ[m.group(1)] = {"atomic": m.group(2) == "true", "can_raise": m.group(3) == "true",
                            "raise_fields": f(m.group(4)), "normal_fields": f(m.group(5))}
    refused = re.findall(r'"([^"]+)"', out[1] or "")
    for m in re.finditer(r'\("([^"]+)",\s*\((true|false),\s*\[([^\]]*)\],\s*\[([^\]]*)\]\)\)', out[2]):
        if m.group(1) in summ:
            summ[m.group(1)].update(atomic_lenient=m.group(2) == "true",
                                    reject_fields=set(re.findall(r'"([^"]+)"', m.group(3))),
                                    accept_fields=set(re.findall(r'"([^"]+)"', m.group(4))))
    return summ, refused


def describe(case, r):
    pre = (" after " + "; ".join("%s.%s = %r" % tuple(x) for x in case[5])) if len(case) > 5 and case[5] else ""
    return "%s.%s = %r%s%s" % (case[0], case[1], case[2], " (readonly)" if case[3] else "", pre)


def sig_of(case, r):
    return "%s exc=%s raised-in=%s readonly=%d changed=%s" % (r.get("script") or case[0] + "." + case[1], r["exc"], r["where"],
                                                             case[3], ",".join(r.get("pub_changed") or []))


def check_case(ctx, case, r, summ, stats):
    """oracle + correspondence for one executed case; returns None or a correspondence complaint"""
    if "error" in r:
        return "harness: " + r["error"]
    if "skipped" in r:
        stats["histories_skipped"] = stats.get("histories_skipped", 0) + 1
        return None
    if len(case) > 5 and case[5]:
        stats["histories"] = stats.get("histories", 0) + 1
    stats["raised" if r["raised"] == 1 else ("crashed" if r["raised"] == 2 else "accepted")] += 1
    if r["raised"] == 1:
        stats["nontrivial"].add((case[0], case[1], r["exc"], r["where"]))
        if r["pub_changed"]:
            ctx.violation("rejected assignment changed the object",
                          {"kind": case[0], "attr": case[1], "text": case[2], "readonly": case[3], "exception": r["exc"],
                           "pre": case[5] if len(case) > 5 else None,
                           "message": r["msg"], "changed": r["pub_changed"], "before_after": r.get("before_after")},
                          sig_text=sig_of(case, r))
    if case[3] and r["raised"] == 0 and r["script"] and summ.get(r["script"], {}).get("can_raise") and \
            "CheckRO" in stats["ro_scripts"].get(r["script"], "CheckRO"):
        pass
    if "l_changed" in r:
        stats["lenient"] += 1
        if r["l_errors"] or r["l_exc"]:
            stats["lenient_logged"] += 1
        if r["l_own"]:
            stats["lenient_own_error"] += 1
        if r["l_bad"]:
            ctx.violation("assignment rejected without raising changed the object",
                          {"kind": case[0], "attr": case[1], "text": case[2], "readonly": 0, "mode": "lenient",
                           "why": r["l_bad"], "errors_logged": r["l_errors"], "changed": r["l_changed"],
                           "detail": r.get("l_detail")},
                          sig_text="%s lenient changed=%s own=%s" % (r.get("script") or case[0] + "." + case[1],
                                                                     ",".join(r["l_changed"]), (r.get("l_own") or [""])[0][:60]))
    m = summ.get(r["script"]) if r["script"] else None
    if m is None:
        stats["unmodelled"].add(r["script"] or "%s.%s" % (case[0], case[1]))
        return None
    stats["compared"] += 1
    ch = set(r["changed"])
    if r["raised"] == 1:
        extra = ch - m["raise_fields"]
        if extra:
            return "%s raised %s after changing %s; the script admits only %s before a raise" % (
                describe(case, r), r["exc"], sorted(extra), sorted(m["raise_fields"]))
        if not m["can_raise"]:
            return "%s raised %s but the script has no raising execution" % (describe(case, r), r["exc"])
        if "l_deep" in r and "reject_fields" in m:
            extra = set(r["l_deep"]) - (m["normal_fields"] | m["reject_fields"] | m["accept_fields"])
            if extra:
                return "%s without exceptions changed %s; the script writes only %s" % (
                    describe(case, r), sorted(extra), sorted(m["normal_fields"] | m["reject_fields"]))
    elif r["raised"] == 0:
        extra = ch - m["normal_fields"]
        if extra:
            return "%s succeeded and changed %s; the script writes only %s" % (
                describe(case, r), sorted(extra), sorted(m["normal_fields"]))
    return None


def run(ctx):
    thorough = ctx.tier == "thorough"
    ok_regen = ctx.regen("scripts")
    b = ctx.coq_build("props/C19.v")
    summ, refused = {}, []
    if b.ok and ok_regen:
        try:
            summ, refused = model_summaries(ctx)
        except Exception as e:  # noqa
            ctx.broken("correspondence", "model evaluation", str(e)[-1500:])
    from harness.lib import VERIF
    cp = VERIF / "corpus" / "C19.json"
    corpus = [tuple(c) for c in json.loads(cp.read_text())] if cp.exists() else []
    cases = corpus + gen_cases(ctx, thorough)
    results = ctx.pool_map(run_case, cases, procs=6, chunksize=64)
    stats = {"raised": 0, "accepted": 0, "crashed": 0, "compared": 0, "nontrivial": set(), "unmodelled": set(),
             "ro_scripts": {}, "lenient": 0, "lenient_logged": 0, "lenient_own_error": 0}
    mism = []
    tables = {"pure_calls": {}, "pure_snapshots": 0, "pure_violations": [], "mutator_calls": {}, "mutator_violations": [],
              "dead_check_calls": {}, "dead_checks_fired": [], "const_checked": 0, "const_violations": []}
    for case, r in zip(cases, results):
        d = check_case(ctx, case, r, summ, stats)
        if d:
            mism.append(d)
        tb = r.get("tbl")
        if tb and r.get("script") in summ:          # the tables are claims about the translated setters only
            for k, v in tb["pc"].items():
                tables["pure_calls"][k] = tables["pure_calls"].get(k, 0) + v
            for k, v in tb["mc"].items():
                tables["mutator_calls"][k] = tables["mutator_calls"].get(k, 0) + v
            for k, v in tb["dc"].items():
                tables["dead_check_calls"][k] = tables["dead_check_calls"].get(k, 0) + v
            tables["pure_snapshots"] += tb["ps"]
            tables["const_checked"] += tb["cc"]
            for key, src in (("pure_violations", "pb"), ("mutator_violations", "mb"), ("dead_checks_fired", "df"),
                             ("const_violations", "cb")):
                for x in tb[src]:
                    if len(tables[key]) < 10:
                        tables[key].append([describe(case, r)] + list(x))
    from translate.scripts import PURE_SELF, MUTATORS, DEAD_CHECKS
    tables["pure_helpers_never_called"] = sorted(set(PURE_SELF) - set(tables["pure_calls"]))
    tables["mutators_never_called"] = sorted(set(MUTATORS) - set(tables["mutator_calls"]))
    tables["dead_checks_never_reached"] = sorted("%s.%s in %s" % (c, a, o) for (c, o, a) in DEAD_CHECKS
                                                 if "%s.%s in %s" % (c, a, o) not in tables["dead_check_calls"])
    tables["static_helpers_without_self"] = sorted(n for n in PURE_SELF if n in ("_normalize", "_normalizeatkeyword"))
    for key, what in (("pure_violations", "PURE_SELF"), ("mutator_violations", "MUTATORS"), ("dead_checks_fired", "DEAD_CHECKS"),
                      ("const_violations", "CONST_EMPTY_IN_MODE")):
        if tables[key]:
            ctx.broken("correspondence", "reviewed table %s of translate/scripts.py contradicted by an execution" % what,
                       json.dumps(tables[key][:4]))
    if mism:
        ctx.broken("correspondence", "setter executions vs generated scripts (reviewed tables of translate/scripts.py)",
                   "%d of %d cases; first: %s" % (len(mism), len(cases), " || ".join(mism[:4])))
    # model verdicts that are not theorems: every anchored setter must be atomic or an open finding
    not_atomic = sorted(n for n, m in summ.items() if not m["atomic"])
    # stored witnesses of open findings are re-run so that KNOWN-FINDING is printed only while they reproduce
    for f in ctx.findings:
        if f.get("status") == "open":
            w = f["witness"]
            case = (w["kind"], w["attr"], w["text"], w.get("readonly", 0), 1, w.get("pre"))
            r = run_case(case)
            if r.get("raised") == 1 and r.get("pub_changed"):
                ctx.violation("rejected assignment changed the object", dict(w, changed=r["pub_changed"]),
                              sig_text=sig_of(case, r))
            if r.get("l_bad"):
                ctx.violation("assignment rejected without raising changed the object", dict(w, mode="lenient"),
                              sig_text="%s lenient changed=%s own=%s" % (r.get("script"), ",".join(r["l_changed"]),
                                                                         (r.get("l_own") or [""])[0][:60]))
    for n in not_atomic:
        if not ctx.match_known("model verdict :: " + n + " exc= raised-in=_setHref"):
            ctx.broken("proof", "atomic " + n, "the regenerated script of %s is not atomic: it may write %s and then raise"
                       % (n, sorted(summ[n]["raise_fields"])))

    def search():
        t0 = time.time()
        rng = ctx.rng
        # the setters whose scripts are not atomic first, then everything
        hot = [n.split("[")[0] for n in not_atomic]
        allk = [(k, a, v) for k, (_, attrs) in list(KINDS.items()) + [(k, (None, v[3])) for k, v in DETACHED.items()]
                for a, vs in attrs.items() for v in vs]
        while time.time() - t0 < (300 if thorough else 60):
            batch = []
            for _ in range(1500):
                k, a, v = rng.choice(allk)
                if hot and rng.random() < 0.5:
                    cand = [x for x in allk if any(h.endswith("." + x[1]) for h in hot)]
                    k, a, v = rng.choice(cand or allk)
                t = rng.choice(mutations(v, rng, 8) + all_valid_texts())
                batch.append((k, a, t, 0))
            res = ctx.pool_map(run_case, batch, procs=6, chunksize=64)
            for case, r in zip(batch, res):
                if r.get("raised") == 1 and r.get("pub_changed") and not ctx.match_known(
                        "rejected assignment changed the object :: " + sig_of(case, r)):
                    return {"kind": case[0], "attr": case[1], "text": case[2], "readonly": 0, "exception": r["exc"],
                            "changed": r["pub_changed"], "before_after": r.get("before_after")}
                if r.get("l_bad") and not ctx.match_known(
                        "assignment rejected without raising changed the object :: %s lenient changed=%s"
                        % (r.get("script"), ",".join(r["l_changed"]))):
                    return {"kind": case[0], "attr": case[1], "text": case[2], "readonly": 0, "mode": "lenient",
                            "why": r["l_bad"], "changed": r["l_changed"], "detail": r.get("l_detail")}
        return None

    samples = []
    for case, r in zip(cases, results):
        if r.get("raised") == 1 and len(samples) < 6 and (case[0], case[1]) not in [(s[0], s[1]) for s in samples]:
            samples.append([case[0], case[1], case[2], r["exc"]])
    ctx.finish({
        "evaluations": len(cases),
        "distinct_nontrivial": len(stats["nontrivial"]),
        "rule": "cases = (object kind, attribute, text, readonly?) on a fresh object each: %d object kinds (every rule kind, "
                "selector list/selector, declaration, property in both modes, property value and each value class, media "
                "list/query, attached to a sheet with namespaces + an importing fetcher, or detached) x every text setter x "
                "(valid texts, every truncation, single token deletions, junk token insertions/appends, random multi-edits, "
                "texts of all other kinds, undeclared prefix, trailing content); non-trivial = distinct (kind, attribute, "
                "DOM exception class, raising function) among rejected assignments" % (len(KINDS) + len(DETACHED)),
        "rejected": stats["raised"], "accepted": stats["accepted"], "crashed_non_dom": stats["crashed"],
        "two_step_histories": stats.get("histories", 0), "histories_first_step_rejected": stats.get("histories_skipped", 0),
        "lenient_reassignments": stats["lenient"], "lenient_with_error_logged": stats["lenient_logged"], "lenient_rejected_by_own_setter": stats["lenient_own_error"],
        "samples": samples,
        "disagreements_checked": stats["compared"],
        "setters_modelled": len(summ), "setters_not_modelled_oracle_only": sorted(x for x in stats["unmodelled"] if x),
        "refused_by_translator": refused,
        "table_validation": tables,
        "not_atomic_scripts": not_atomic,
        "trusted_base": TRUSTED,
    }, assumptions=ASSUME, search=search)


def replay(ctx, path):
    rep = json.loads(open(path).read())
    ws = [v["witness"] for v in rep.get("violations", [])] or ([rep["witness"]] if "witness" in rep else [])
    bad = 0
    for w in ws:
        case = (w["kind"], w["attr"], w["text"], w.get("readonly", 0), 1, w.get("pre"))
        r = run_case(case)
        fails = r.get("raised") == 1 and bool(r.get("pub_changed"))
        lfails = bool(r.get("l_bad"))
        print("replay %s -> raising mode: raised=%s %s changed=%s; lenient mode: errors=%s changed=%s mixed=%s  %s" % (
            describe(case, r), r.get("raised"), r.get("exc"), r.get("pub_changed"), r.get("l_errors"), r.get("l_changed"),
            lfails, "PROPERTY FAILS" if (fails or lfails) else "holds"))
        fails = fails or lfails
        bad += fails
    return 1 if bad else 0


TRUSTED = [
    "Coq 8.16.1 kernel and VM (vm_compute for the finite checks over the generated scripts); no native_compute",
    "translate/scripts.py: the linearisation rules and its reviewed tables (PURE_SELF, MUTATORS, SELF_ATTR_CALLS, "
    "DEAD_CHECKS, CONST_EMPTY_IN_MODE, LOCAL_PLAIN_ATTRS, SELF_ATTR_PLAIN, UNOBSERVED, constructor rule, try/except rule); "
    "the hard-coded expansions of Base._parse, _checkReadonly, _setSeq and ErrorHandler.__handle are pinned by AST hash",
    "coq/theories/AtomicHand.v: hand transcription of Property.cssValue (setter wrapped by @Deprecated)",
    "the abstraction itself: conditions are not modelled (both arms possible), a temporary is any object not reachable "
    "from self before the call, writes to objects reachable only from temporaries are not writes to self",
    "correspondence harness harness/props/c19.py: object zoo, deep attribute snapshot (parent links and _readonly excluded)",
    "setters outside the anchored files (CSSStyleSheet.cssText/encoding, CSSVariables*) are checked by the oracle only",
]
ASSUME = [
    "Print Assumptions of every theorem of props/C19.v: Closed under the global context (see coverage.print_assumptions)",
    "first statement: C19_rejected_assignment_unchanged holds for every setter (no exclusion); lenient statement "
    "C19_logged_rejection_unchanged_partial excludes Property.cssText[_mediaQuery] (open finding, private mode)",
    "exceptions other than xml.dom.DOMException (crashes of a setter) are outside the statement; they are counted",
]
