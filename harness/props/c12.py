"""C12 -- getUrls / replaceUrls see every URL exactly once; URLs survive output.

proof:          coq/props/C12.v  (getUrls_spec, replace_then_get (+ ignoreImportRules, style variants),
                replace_touches_only_urls, uri_bare / uri_quoted / uri_roundtrip, import_string_roundtrip)
                over the models coq/theories/Urls.v, UrlQuote.v and the shared Tokenizer.v
tie:            translate/tokenizer.py + translate/urlquote.py regenerate the URI production, the forbidden-
                character regex and every constant of the quoting helpers (and check the helpers' statement shapes);
                function-level: helper.uri / string / urivalue / stringvalue / _uritokenvalue / _stringtokenvalue and
                the first token of helper.uri(v)+follow vs the extracted model;
                end-to-end: getUrls / replaceUrls on parsed sheets vs the model run on the tree read from the CSSOM
oracle/search:  sheets are generated from a tree with URLs planted at every URL-bearing position, so the expected
                getUrls list is known by construction; the replacer records its calls; the replaced sheet is
                serialised, re-parsed and listed again
"""
import json
import time

from harness.lib import cps, VERIF

# ---------------------------------------------------------------------------------------------- alphabets
ALPHA = ["a", "b", "Z", "0", "9", ".", "/", "-", "_", "#", "?", "=", "&", "%", ":", "~", "+", "!", "$", "@", "*",
         " ", "\t", "\x0b", "'", '"', "(", ")", ",", ";", "{", "}", "[", "]", "<", ">", "|", "^", "`",
         "\x00", "\x01", "\x08", "\x0e", "\x1b", "\x1c", "\x1f", "\x7f", "\x80", "\x85", "\xa0", "\xe9", " ",
         " ", " ", "　", "﻿", "\U0001d4b3", "\ud800", "\\", "\n", "\r", "\f", "u", "r", "l"]
# replacement characters: the whole alphabet, backslash and newline characters included (helper.string writes them
# since 546430b; helper.uri quotes a backslash since 3f41842); the few values helper.string cannot represent
# (see in_set) are still generated but the survive-output clause is not demanded for them
SAFE = list(ALPHA)
URLPOOL = ["a.png", "img/b(1).gif", "a b", "it's", 'x"y', "a,b;c", "\xe9.png", "\x01", "\x7f", " lead", "trail ",
           "", "url(x)", "a)b", "(", " ", "\xa0x", "\U0001d4b3", "http://h/p?q=1&r=2#f", "data:image/png;base64,AA==",
           "'", '"', "''", '""', "'a'", '"a"', "a'", 'a"', ")", ";", ",", " ", "\t", "x\ty", "\x00", "a\x1fb", "\x85",
           "　", "{", "}", "a}b{", "/*c*/", "*/", "!important", "@import", "﻿",
           "c:\\dir\\f.png", "\\", "\\\\", "a\\", "\\5c", "\\a", "a\nb", "\r", "a\\\nb", "\\\\\f", "x\\\"y", "a\\ b", "\\g\\\\"]
BARE_OK = set("abcdefghijklmnopqrstuvwxyzABCDEFGHIJKLMNOPQRSTUVWXYZ0123456789._/-#?=&%:~+!$@*\xe9\U0001d4b3")


def plant_url(rng):
    """a URL for the source text: no backslash (the implementation reads a backslash in a source string only in the
    spelling helper.string itself writes -- url('\\5c ') is read as the empty URL, '\\\\' as two backslashes: escape
    resolution of string values, outside this property); newline characters are planted (as hex escapes)"""
    return rand_url(rng).replace("\\", "/")


def rand_url(rng):
    r = rng.random()
    if r < 0.45:
        return rng.choice(URLPOOL)
    if r < 0.6:
        return "".join(rng.choice("abcxyz0189./-_") for _ in range(rng.randint(1, 8)))
    return "".join(rng.choice(SAFE) for _ in range(rng.randint(1, 6)))


# ---------------------------------------------------------------------------------------------- rendering a tree
def src_escape(u, q):
    """source spelling of a string value inside quotes q (independent of helper.string: every backslash as the
    hex escape \\5c, newline characters as hex escapes, the quote with a backslash)"""
    return "".join({"\\": "\\5c ", "\n": "\\a ", "\r": "\\d ", "\f": "\\c ", q: "\\" + q}.get(c, c) for c in u)


def render_url(rng, u):
    forms = ["dq", "sq"]
    if u and all(c in BARE_OK for c in u):
        forms += ["bare", "bare", "bare"]
    if u == "":
        forms += ["bare"]
    f = rng.choice(forms)
    pad1, pad2 = rng.choice(["", "", " ", "\t "]), rng.choice(["", "", " "])
    if f == "dq":
        body = '"' + src_escape(u, '"') + '"'
    elif f == "sq":
        body = "'" + src_escape(u, "'") + "'"
    else:
        body = u
    return rng.choice(["url(", "url(", "URL(", "Url("]) + pad1 + body + pad2 + ")"


# not generated on purpose (defects outside this property that make the parser drop the rule or the re-parse fail):
# a '+' token inside a margin rule's declaration ('@page{@top-left{x:calc(1px + 2px)}}' drops the @page), and
# blank-separated items inside expression(...) (MSValue is serialised without the blanks: '2xcross-fade(')
OTHERS = ["auto", "1.5em", "50%", "#fff", "rgb(1, 2, 3)", '"s"', "calc(2px)", "no-repeat", "0", "red", "2x",
          "U+26", "'u'"]
FNAMES = ["image-set(", "cross-fade(", "g(", "-webkit-image-set(", "expression(", "local("]
PROPS = ["background", "background-image", "list-style", "cursor", "src", "content", "x-unknown", "BACKGROUND",
         "border-image"]


def gen_value(rng, depth, urls, ms=False):
    """returns (model value, text); appends planted URLs to `urls` in document order"""
    r = rng.random()
    if r < 0.5:
        u = plant_url(rng)
        urls.append(u)
        return ["U", u], render_url(rng, u)
    if r < 0.7 and depth < 3:
        n = rng.randint(1, 3)
        items, texts = [], []
        name = rng.choice(FNAMES)
        ms = ms or name == "expression("
        for _ in range(n):
            v, t = gen_value(rng, depth + 1, urls, ms)
            items.append(v)
            texts.append(t)
        txt = name
        for i, t in enumerate(texts):
            txt += ("" if i == 0 else rng.choice([", ", ","] if ms else [", ", " ", ","])) + t
        return ["f", items], txt + ")"
    # inside expression(...) (MSValue) a calc( is read as one more function value, not as a calc value
    return ["o"], rng.choice([x for x in OTHERS if not (ms and x.startswith("calc("))])


def gen_style(rng, urls, maxdecl=3):
    decls, texts = [], []
    for _ in range(rng.randint(0 if rng.random() < 0.15 else 1, maxdecl)):
        vals, vt = [], []
        for _ in range(rng.randint(1, 3)):
            v, t = gen_value(rng, 0, urls)
            vals.append(v)
            vt.append(t)
        txt = rng.choice(PROPS) + rng.choice([":", ": "])
        for i, t in enumerate(vt):
            txt += ("" if i == 0 else rng.choice([" ", ", ", " , "])) + t
        if rng.random() < 0.15:
            txt += " !important"
        decls.append(vals)
        texts.append(txt)
    return decls, rng.choice(["; ", ";", ";\n "]).join(texts)


MARGINS = ["@top-left", "@top-center", "@bottom-right", "@left-middle", "@bottom-left-corner"]
OTHER_RULES = ["/* c */", "@foo bar;", "/* url(no) */", "@x-unknown url(nope) ;"]


def gen_rule(rng, depth, urls, in_media):
    r = rng.random()
    if r < 0.34:
        st, t = gen_style(rng, urls)
        return ["S", st], rng.choice(["a", "a, b", ".c > d", "#i", "a:hover"]) + " {" + t + "}"
    if r < 0.46 and not in_media:
        st, t = gen_style(rng, urls)
        return ["F", st], "@font-face {" + t + "}"
    if r < 0.66:
        st, t = gen_style(rng, urls, 2)
        ms, mt = [], []
        names = rng.sample(MARGINS, rng.randint(0, 2))
        for nm in names:
            s2, t2 = gen_style(rng, urls, 2)
            if not s2:
                continue
            ms.append(["G", s2])
            mt.append(nm + " {" + t2 + "}")
        body = t + ("; " if t and mt else "") + " ".join(mt)
        return ["P", st, ms], rng.choice(["@page", "@page :first", "@page :left"]) + " {" + body + "}"
    if r < 0.84 and depth < 3:
        rs, ts = [], []
        for _ in range(rng.randint(0, 3)):
            x, t = gen_rule(rng, depth + 1, urls, True)
            rs.append(x)
            ts.append(t)
        return ["M", rs], rng.choice(["@media print", "@media screen and (min-width: 10px)", "@media tv, print"]) + \
            " {" + "\n".join(ts) + "}"
    return ["O"], rng.choice(OTHER_RULES)


def render_import(rng, u):
    f = rng.choice(["str", "str1", "url"])
    if f == "str":
        t = '"' + src_escape(u, '"') + '"'
    elif f == "str1":
        t = "'" + src_escape(u, "'") + "'"
    else:
        t = render_url(rng, u)
    return "@import " + t + rng.choice(["", "", " print", " screen, tv"]) + ";"


def gen_sheet(rng):
    """returns (tree, css text, import hrefs, declaration urls) -- expected getUrls = imports + urls"""
    items, texts, imports, urls = [], [], [], []
    if rng.random() < 0.3:
        items.append(["O"])
        texts.append("/* first */")
    for _ in range(rng.choice([0, 0, 1, 1, 2, 3])):
        u = plant_url(rng) or "e.css"      # an @import with an empty href is not a valid rule (by design)
        imports.append(u)
        items.append(["I", u])
        texts.append(render_import(rng, u))
    for _ in range(rng.randint(0, 4)):
        x, t = gen_rule(rng, 0, urls, False)
        items.append(x)
        texts.append(t)
    return items, texts, imports, urls


# ---------------------------------------------------------------------------------------------- wire format
def wstr(u):
    return ",".join(str(ord(c)) for c in u) if u else "-"


def rstr(x):
    return "" if x == "-" else "".join(chr(int(c)) for c in x.split(","))


def enc_value(v):
    if v[0] == "U":
        return "U " + wstr(v[1])
    if v[0] == "f":
        return "f ( " + "".join(enc_value(x) + " " for x in v[1]) + ")"
    return "o"


def enc_style(st):
    return "{ " + "".join("( " + "".join(enc_value(v) + " " for v in d) + ") " for d in st) + "}"


def enc_rule(r):
    k = r[0]
    if k in "SFG":
        return k + " " + enc_style(r[1])
    if k == "P":
        return "P " + enc_style(r[1]) + " [ " + "".join(enc_rule(x) + " " for x in r[2]) + "]"
    if k == "M":
        return "M [ " + "".join(enc_rule(x) + " " for x in r[1]) + "]"
    return "O"


def enc_sheet(items):
    return "[ " + "".join(("I " + wstr(i[1]) if i[0] == "I" else enc_rule(i)) + " " for i in items) + "]"


def spec_urls(items):
    """the specification, on the Python tree (independent of the Coq model and of css_parser)"""
    out = [i[1] for i in items if i[0] == "I"]

    def val(v):
        if v[0] == "U":
            out.append(v[1])
        elif v[0] == "f":
            for x in v[1]:
                val(x)

    def sty(st):
        for d in st:
            for v in d:
                val(v)

    def rule(r):
        if r[0] in "SFG":
            sty(r[1])
        elif r[0] == "P":
            sty(r[1])
            for x in r[2]:
                rule(x)
        elif r[0] == "M":
            for x in r[1]:
                rule(x)
    for i in items:
        if i[0] != "I":
            rule(i)
    return out


def blank_tree(x):
    if isinstance(x, list):
        if x and x[0] in ("U", "I") and len(x) == 2 and isinstance(x[1], str):
            return [x[0], ""]
        return [blank_tree(y) for y in x]
    return x


def apply_replacer(mode, arg, u):
    return u + arg if mode == "A" else arg + u if mode == "P" else arg


# ---------------------------------------------------------------------------------------------- implementation side
def extract_tree(sheet):
    """CSSOM -> tree (reads rule types, getProperties(all=True), propertyValue items and the Value items of
    function values; does not use getUrls / replaceUrls)"""
    import css_parser
    from css_parser import css

    def value(v):
        if v.type == "URI":
            return ["U", v.uri]
        if v.type == "FUNCTION":
            return ["f", [value(i.value) for i in v.seq if isinstance(i.value, css.Value)]]
        return ["o"]

    def style(st):
        return [[value(v) for v in p.propertyValue] for p in st.getProperties(all=True)]

    def rule(r):
        t = r.type
        if t == r.STYLE_RULE:
            return ["S", style(r.style)]
        if t == r.FONT_FACE_RULE:
            return ["F", style(r.style)]
        if t == r.MARGIN_RULE:
            return ["G", style(r.style)]
        if t == r.PAGE_RULE:
            return ["P", style(r.style), [rule(x) for x in r.cssRules]]
        if t == r.MEDIA_RULE:
            return ["M", [rule(x) for x in r.cssRules]]
        if t == r.IMPORT_RULE:
            return ["I", r.href]
        return ["O"]
    return [rule(r) for r in sheet.cssRules]


def impl_e2e(case):
    text, mode, arg, ign = case
    import logging
    import css_parser
    css_parser.log.setLevel(logging.CRITICAL)
    fetched = []

    def fetcher(url):
        # a recording fetcher whose loads all fail, in the three ways a fetcher may fail (nothing found, OSError,
        # ValueError as the default fetcher raises for an unknown url type / wrong mime type); which one depends on
        # the url only, so a replay sees the same behaviour
        import zlib
        fetched.append(url)
        k = zlib.crc32(url.encode("utf-8", "surrogatepass")) % 3
        if k == 1:
            raise OSError("not found: %r" % url)
        if k == 2:
            raise ValueError("unknown url type: %r" % url)
        return None
    try:
        p = css_parser.CSSParser(fetcher=fetcher, validate=False)
        sh = p.parseString(text)
        tree0 = extract_tree(sh)
        urls0 = list(css_parser.getUrls(sh))
        calls = []

        def repl(u):
            calls.append(u)
            return apply_replacer(mode, arg, u)
        css_parser.replaceUrls(sh, repl, ignoreImportRules=bool(ign))
        tree1 = extract_tree(sh)
        urls1 = list(css_parser.getUrls(sh))
        out = sh.cssText
        out = out.decode("utf-8", "surrogatepass") if isinstance(out, bytes) else out
        sh2 = css_parser.CSSParser(fetcher=fetcher, validate=False).parseString(out)
        urls2 = list(css_parser.getUrls(sh2))
        # second call on the same sheet (theorems replace_compose / replace_keeps_url_count): a non-idempotent
        # replacer, so a URL rewritten twice or skipped by one call shows
        calls2 = []

        def repl2(u):
            calls2.append(u)
            return "z" + u
        css_parser.replaceUrls(sh, repl2, ignoreImportRules=bool(ign))
        tree3 = extract_tree(sh)
        urls3 = list(css_parser.getUrls(sh))
        return {"tree0": tree0, "urls0": urls0, "calls": calls, "tree1": tree1, "urls1": urls1, "urls2": urls2,
                "out": out, "calls2": calls2, "tree3": tree3, "urls3": urls3}
    except Exception as e:  # noqa
        return {"EXC": type(e).__name__, "msg": str(e)[:300]}


def impl_style(case):
    """replaceUrls(CSSStyleDeclaration, f)"""
    text, mode, arg = case
    import logging
    import css_parser
    css_parser.log.setLevel(logging.CRITICAL)
    try:
        st = css_parser.CSSParser(fetcher=lambda u: None, validate=False).parseStyle(text)
        calls = []

        def repl(u):
            calls.append(u)
            return apply_replacer(mode, arg, u)
        before = [[_v(v) for v in p.propertyValue] for p in st.getProperties(all=True)]
        css_parser.replaceUrls(st, repl)
        after = [[_v(v) for v in p.propertyValue] for p in st.getProperties(all=True)]
        return {"before": before, "after": after, "calls": calls}
    except Exception as e:  # noqa
        return {"EXC": type(e).__name__, "msg": str(e)[:300]}


def _v(v):
    from css_parser import css
    if v.type == "URI":
        return ["U", v.uri]
    if v.type == "FUNCTION":
        return ["f", [_v(i.value) for i in v.seq if isinstance(i.value, css.Value)]]
    return ["o"]


def impl_fn(case):
    kind, a, b = case
    import css_parser.helper as H
    from css_parser.util import Base
    try:
        if kind == "U":
            return H.uri(a)
        if kind == "S":
            return H.string(a)
        if kind == "F":
            return "1" if H._match_forbidden_in_uri(a) else "0"
        if kind == "V":
            return "=" + H.urivalue(a)
        if kind == "W":
            return "=" + H.stringvalue(a)
        if kind == "K":
            return "=" + Base()._uritokenvalue(("URI", a, 1, 1))
        if kind == "G":
            return "=" + Base()._stringtokenvalue(("STRING", a, 1, 1))
        if kind == "T":
            from css_parser.tokenize2 import Tokenizer
            t = next(iter(Tokenizer(doComments=True).tokenize(H.uri(a) + b, fullsheet=False)))
            try:
                v1 = "=" + H.urivalue(t[1])
            except IndexError:
                v1 = "N"
            try:
                v2 = "=" + Base()._uritokenvalue(t)
            except IndexError:
                v2 = "N"
            return [t[0], t[1], v1, v2]
    except IndexError:
        return "N"
    except Exception as e:  # noqa
        return "EXC " + type(e).__name__
    return "?"


def model_fn_line(case):
    kind, a, b = case
    if kind == "T":
        return "Q T %s %s" % (wstr(a), wstr(b))
    return "Q %s %s" % (kind, wstr(a))


def model_fn_result(kind, line):
    if kind in "US":
        return rstr(line)
    if kind == "F":
        return line
    if kind == "T":
        parts = line.split("|")
        if len(parts) != 4:
            return line
        f = lambda x: "N" if x == "N" else "=" + rstr(x[1:])  # noqa
        return [rstr(parts[0]), rstr(parts[1]), f(parts[2]), f(parts[3])]
    return "N" if line == "N" else "=" + rstr(line[1:])


# ---------------------------------------------------------------------------------------------- the oracle
def in_set(u):
    """the values helper.string can represent inside url() (CssV.QuoteStrFacts.rep_okc): everything except a backslash
    run of odd length directly before a double quote"""
    st = 0
    for c in u:
        if c == "\\":
            st = {0: 1, 1: 2, 2: 1}[st]
            continue
        if st == 1 and c == '"':
            return False
        st = 0
    return True


def prop_set(u):
    return not any(c in "\\\n\r\f" for c in u)


def oracle(tree, imports, urls, mode, arg, ign, res):
    """the property's statements on the implementation's observations; returns None or (description, sig_text)"""
    if "EXC" in res:
        return "getUrls/replaceUrls/cssText raised %s: %s" % (res["EXC"], res["msg"]), "raised"
    expected = imports + urls
    if res["urls0"] != expected:
        missing = [u for u in expected if u not in res["urls0"]]
        return ("getUrls does not yield the URLs planted in the sheet (in document order): expected %r, got %r"
                % (expected, res["urls0"]), "getUrls missing=%r" % (missing[:3],))
    want_calls = urls if ign else expected
    if res["calls"] != want_calls:
        return ("replaceUrls called the replacer with %r, the sheet's URLs are %r" % (res["calls"], want_calls),
                "replacer calls")
    want1 = (imports if ign else [apply_replacer(mode, arg, u) for u in imports]) + \
        [apply_replacer(mode, arg, u) for u in urls]
    if res["urls1"] != want1:
        return ("getUrls after replaceUrls yields %r, expected the replaced values %r" % (res["urls1"], want1),
                "getUrls after replace")
    if blank_tree(res["tree1"]) != blank_tree(res["tree0"]):
        return "replaceUrls changed something other than URL strings", "frame"
    if "urls3" in res:
        nimp = len(imports)
        want3 = (want1[:nimp] if ign else ["z" + u for u in want1[:nimp]]) + ["z" + u for u in want1[nimp:]]
        if res["calls2"] != (want1[nimp:] if ign else want1):
            return ("a second replaceUrls called the replacer with %r, the sheet's URLs are now %r"
                    % (res["calls2"], want1[nimp:] if ign else want1), "replacer calls second")
        if res["urls3"] != want3:
            return ("two replaceUrls calls are not one call with the composed replacer: getUrls yields %r, expected %r"
                    % (res["urls3"], want3), "compose")
        if blank_tree(res["tree3"]) != blank_tree(res["tree0"]):
            return "a second replaceUrls changed something other than URL strings", "frame second"
    if all(in_set(u) for u in want1) and res["urls2"] != want1:
        lost = [u for u in want1 if u not in res["urls2"]]
        return ("URLs do not survive output: serialised and re-parsed sheet yields %r, expected %r"
                % (res["urls2"], want1), "survive lost=%r" % (lost[:3],))
    return None


def gen_case(rng):
    tree, parts, imports, urls = gen_sheet(rng)
    text = "\n".join(parts)
    mode = rng.choice(["A", "A", "P", "C"])
    arg = rand_url(rng) if rng.random() < 0.6 else rng.choice(SAFE)
    ign = 1 if rng.random() < 0.25 else 0
    if mode == "C" and arg == "" and imports:
        arg = "e"                          # see gen_sheet: no empty @import href
    return {"tree": tree, "css": text, "parts": parts, "imports": imports, "urls": urls, "mode": mode, "arg": arg,
            "ign": ign}


def check_witness(w):
    """re-run one stored e2e witness on the implementation; returns None or (description, sig)"""
    res = impl_e2e((w["css"], w["mode"], w["arg"], w["ign"]))
    return oracle(w.get("tree"), w["imports"], w["urls"], w["mode"], w["arg"], w["ign"], res)


def shrink_case(c):
    """drop top-level statements of the sheet (tree items and text parts correspond one to one) while the oracle
    still fails; the expected lists are recomputed from the remaining tree"""
    parts = c.get("parts")
    if not parts or len(parts) != len(c["tree"]):
        return c
    items = list(zip(c["tree"], parts))
    changed = True
    while changed and len(items) > 1:
        changed = False
        for i in range(len(items)):
            cand = items[:i] + items[i + 1:]
            tree = [x for x, _ in cand]
            w = dict(c, tree=tree, parts=[t for _, t in cand], css="\n".join(t for _, t in cand),
                     imports=[x[1] for x in tree if x[0] == "I"],
                     urls=spec_urls([x for x in tree if x[0] != "I"]))
            if check_witness(w):
                items, c, changed = cand, w, True
                break
    return c


KEYS = ("tree", "css", "parts", "imports", "urls", "mode", "arg", "ign")


# ---------------------------------------------------------------------------------------------- run
def run(ctx):
    thorough = ctx.tier == "thorough"
    rng = ctx.rng
    ctx.regen("tokenizer", "quote", "urlquote")
    ctx.coq_build("props/C12.v")
    binary = ctx.ocaml_build("urls")
    cpath = VERIF / "corpus" / "C12.json"
    corpus = json.loads(cpath.read_text()) if cpath.exists() else {"fn": [], "e2e": []}

    # ---- function level
    fn_cases = [tuple(c) for c in corpus.get("fn", [])]
    n_corpus_fn = len(fn_cases)
    strings = [""] + list(ALPHA) + [a + b for a in ALPHA for b in ALPHA]
    n_exh = len(strings)
    for _ in range(6000 if thorough else 1500):
        strings.append("".join(rng.choice(ALPHA) for _ in range(rng.randint(3, 12))))
    for _ in range(3000 if thorough else 600):
        strings.append("".join(chr(rng.choice([rng.randrange(0, 0x300), rng.randrange(0x2000, 0x3100),
                                               rng.randrange(0, 0x110000)])) for _ in range(rng.randint(1, 5))))
    wraps = [("url(", ")"), ("url( ", " )"), ("url('", "')"), ('url("', '")'), ("", ""), ("(", ")"), ("url(\t'", "'\n)"),
             ('u\\rl("', '" )')]
    follows = [")", "", ";", " x", "')", '")', "url(y)", "\\", "\n)"]
    for i, x in enumerate(strings):
        fn_cases.append(("U", x, ""))
        fn_cases.append(("S", x, ""))
        fn_cases.append(("F", x, ""))
        fn_cases.append(("T", x, follows[i % len(follows)]))
        w = wraps[i % len(wraps)]
        u = w[0] + x + w[1]
        fn_cases.append(("V", u, ""))
        fn_cases.append(("K", u, ""))
        fn_cases.append(("G", x, ""))
        fn_cases.append(("W", x, ""))
        if i < n_exh:       # quoted forms as they appear in token values
            fn_cases.append(("V", "url(" + '"' + x.replace('"', '\\"') + '"' + ")", ""))
            fn_cases.append(("K", "url(" + "'" + x.replace("'", "\\'") + "'" + ")", ""))
    impl = ctx.pool_map(impl_fn, fn_cases, procs=6, chunksize=2000)
    mism = []
    nontrivial = set()
    if binary:
        out = ctx.run_binary(binary, [model_fn_line(c) for c in fn_cases], shards=6)
        for c, i, o in zip(fn_cases, impl, out):
            m = model_fn_result(c[0], o)
            if m != i:
                mism.append((list(c), i, m))
            elif c[0] in "UT" and c[1]:
                nontrivial.add(c[1])
    if mism:
        ctx.broken("correspondence", "URI quoting helpers vs CssV.UrlQuote / CssV.Tokenizer",
                   "%d of %d cases differ; first: %s" % (len(mism), len(fn_cases), json.dumps(mism[:3])))
    # function-level oracle: the round trip of the property on every string of its set
    rt = 0
    for c, i in zip(fn_cases, impl):
        if c[0] == "T" and in_set(c[1]):
            rt += 1
            # (the token value equals the written text only when nothing in it is spelled with an escape)
            if not (isinstance(i, list) and i[0] == "URI" and i[2] == "=" + c[1] and i[3] == "=" + c[1]
                    and (not prop_set(c[1]) or i[1] == _huri_impl(c[1]))):
                ctx.violation("helper.uri(v) followed by other text is not read back as the URI token with value v",
                              {"kind": "fn", "v": c[1], "follow": c[2], "observed": i},
                              sig_text="fn roundtrip " + json.dumps(c[1]))

    # ---- end to end
    e2e = [dict(w) for w in corpus.get("e2e", [])]
    n_sheets = 2500 if thorough else 500
    for _ in range(n_sheets):
        base = gen_case(rng)
        e2e.append(base)
        for _ in range(4):          # the same sheet with further replacers
            e2e.append(dict(base, mode=rng.choice(["A", "P", "P"] if base["imports"] else ["A", "P", "C"]),
                            arg=(rand_url(rng) if rng.random() < 0.5 else rng.choice(SAFE)),
                            ign=1 if rng.random() < 0.25 else 0))
    res = ctx.pool_map(impl_e2e, [(c["css"], c["mode"], c["arg"], c["ign"]) for c in e2e], procs=6, chunksize=50)
    lines, idx = [], []
    gen_dis = []
    for k, (c, r) in enumerate(zip(e2e, res)):
        if "EXC" in r:
            continue
        if r["tree0"] != c["tree"]:
            gen_dis.append((c["css"], c["tree"], r["tree0"]))
        lines.append("G " + enc_sheet(r["tree0"]))
        lines.append("R %d %s %s %s" % (c["ign"], c["mode"], wstr(c["arg"]), enc_sheet(r["tree0"])))
        idx.append(k)
    e2e_mism = []
    if binary and lines:
        out = ctx.run_binary(binary, lines, shards=6)
        for j, k in enumerate(idx):
            r = res[k]
            g = [rstr(x) for x in out[2 * j].split(";")] if out[2 * j] != "" else []
            if g != r["urls0"]:
                e2e_mism.append(("getUrls", e2e[k]["css"], r["urls0"], g))
                continue
            tr, _, us = out[2 * j + 1].partition(" ## ")
            u1 = [rstr(x) for x in us.split(";")] if us != "" else []
            if tr.split() != enc_sheet(r["tree1"]).split() or u1 != r["urls1"]:
                e2e_mism.append(("replaceUrls", e2e[k]["css"], [e2e[k]["mode"], e2e[k]["arg"], e2e[k]["ign"]],
                                 r["urls1"], u1))
    if gen_dis:
        ctx.broken("correspondence", "generated sheet vs the CSSOM read back from the parser",
                   "%d of %d sheets are not parsed into the planted structure; first: %s"
                   % (len(gen_dis), len(e2e), json.dumps(gen_dis[0])[:1500]))
    if e2e_mism:
        ctx.broken("correspondence", "getUrls / replaceUrls vs CssV.Urls",
                   "%d of %d cases differ; first: %s" % (len(e2e_mism), len(idx), json.dumps(e2e_mism[:2])[:2500]))
    distinct = set()
    seen_css = set()
    nviol = 0
    skipped = with_bs = 0
    for c, r in zip(e2e, res):
        if "EXC" not in r:
            skipped += not all(in_set(u) for u in r["urls1"])
            with_bs += any("\\" in u or "\n" in u for u in r["urls1"])
        d = oracle(c["tree"], c["imports"], c["urls"], c["mode"], c["arg"], c["ign"], r)
        if len(c["imports"]) + len(c["urls"]) >= 2:
            distinct.add(c["css"])
        if d and nviol < 5 and c["css"] not in seen_css:
            nviol += 1
            seen_css.add(c["css"])
            w = shrink_case({k: c[k] for k in KEYS if k in c})
            d2 = check_witness(w) or d
            ctx.violation(d2[0], dict(w, kind="e2e"), sig_text=d2[1])

    # ---- replaceUrls(style, f)
    st_cases, st_trees = [], []
    for _ in range(600 if thorough else 150):
        urls = []
        st, text = gen_style(rng, urls)
        st_cases.append((text, rng.choice(["A", "P", "C"]), rand_url(rng)))
        st_trees.append((st, urls))
    st_res = ctx.pool_map(impl_style, st_cases, procs=6, chunksize=50)
    st_lines = []
    for (text, mode, arg), (st, urls), r in zip(st_cases, st_trees, st_res):
        if "EXC" in r:
            ctx.violation("replaceUrls(style) raised %s" % r["EXC"], {"kind": "style", "css": text, "mode": mode, "arg": arg},
                          sig_text="style raised")
            continue
        want = [apply_replacer(mode, arg, u) for u in urls]
        got = spec_urls([["S", r["after"]]])
        if r["before"] != st or r["calls"] != urls or got != want or blank_tree(r["after"]) != blank_tree(st):
            ctx.violation("replaceUrls(style, f) does not replace exactly the URLs of the declaration block",
                          {"kind": "style", "css": text, "mode": mode, "arg": arg, "expected": want, "observed": got},
                          sig_text="style replace")
        st_lines.append(("Y %s %s %s" % (mode, wstr(arg), enc_style(r["before"])), enc_style(r["after"])))
    if binary and st_lines:
        out = ctx.run_binary(binary, [a for a, _ in st_lines])
        bad = [(a, b, o) for (a, b), o in zip(st_lines, out) if o.split() != b.split()]
        if bad:
            ctx.broken("correspondence", "replaceUrls(style) vs CssV.Urls.replaceUrls_style", json.dumps(bad[:2])[:1500])

    def search():
        t0 = time.time()
        limit = 300 if thorough else 60
        while time.time() - t0 < limit:
            batch = [gen_case(rng) for _ in range(300)]
            rs = ctx.pool_map(impl_e2e, [(c["css"], c["mode"], c["arg"], c["ign"]) for c in batch], procs=6, chunksize=25)
            for c, r in zip(batch, rs):
                d = oracle(c["tree"], c["imports"], c["urls"], c["mode"], c["arg"], c["ign"], r)
                if d and not ctx.match_known(d[0] + " :: " + d[1]):
                    w = shrink_case({k: c[k] for k in KEYS if k in c})
                    return dict(w, kind="e2e", fails=(check_witness(w) or d)[0])
            # same value set as the main oracle (in_set: what helper.string can represent)
            strs = [x for x in ("".join(rng.choice(SAFE) for _ in range(rng.randint(1, 4))) for _ in range(3000))
                    if in_set(x)]
            rf = ctx.pool_map(impl_fn, [("T", x, ")") for x in strs], procs=6, chunksize=500)
            for x, i in zip(strs, rf):
                if not (isinstance(i, list) and i[0] == "URI" and i[2] == "=" + x and i[3] == "=" + x):
                    return {"kind": "fn", "v": x, "follow": ")", "observed": i,
                            "fails": "helper.uri(v) is not read back as the URI token with value v"}
        return None

    sample = [c for c in e2e if len(c["urls"]) >= 3][:3]
    ctx.finish({
        "evaluations": len(fn_cases) + len(e2e) + len(st_cases),
        "function_level_cases": len(fn_cases),
        "function_level_roundtrips_checked": rt,
        "end_to_end_cases": len(e2e),
        "style_cases": len(st_cases),
        "end_to_end_cases_with_backslash_or_newline_urls": with_bs,
        "survive_clause_not_demanded_unrepresentable_value": skipped,
        "distinct_nontrivial": len(distinct) + len(nontrivial),
        "rule": "function level: helper.uri / string / forbidden-test / urivalue / stringvalue / _uritokenvalue / "
                "_stringtokenvalue and the first token of helper.uri(v)+follow on the empty string, all 1- and 2-character "
                "strings over a %d-symbol alphabet (%d strings, exhaustive part) and random longer / random code point "
                "strings, the readers also on wrapped forms; end to end: random sheets (imports, style, @font-face, "
                "@page with margin rules, @media nested to depth 3, comments/unknown rules, URLs at top level and inside "
                "function values, bare/single/double quoted) x 5 replacers each (append/prepend/constant over the URL pool "
                "and the alphabet, ignoreImportRules 25%%); non-trivial = distinct sheets with >= 2 planted URLs plus "
                "distinct non-empty strings whose helper.uri / first-token results agreed with the model"
                % (len(ALPHA), n_exh),
        "samples": [{"css": c["css"], "expected": c["imports"] + c["urls"], "replacer": [c["mode"], c["arg"], c["ign"]]}
                    for c in sample] + [list(fn_cases[n_corpus_fn + 9 * 70 + 3])],
        "disagreements_checked": (len(fn_cases) + 2 * len(idx) + len(st_lines)) if binary else 0,
        "trusted_base": TRUSTED,
    }, assumptions=ASSUME, search=search)


def _huri_impl(v):
    import css_parser.helper as H
    return H.uri(v)


def replay(ctx, path):
    rep = json.loads(open(path).read())
    bad = 0
    for v in rep.get("violations", []):
        w = v["witness"]
        if w.get("kind") == "fn":
            i = impl_fn(("T", w["v"], w.get("follow", ")")))
            ok = isinstance(i, list) and i[0] == "URI" and i[2] == "=" + w["v"] and i[3] == "=" + w["v"]
            print("replay helper.uri(%r)+%r -> first token %r : %s" % (w["v"], w.get("follow", ")"), i, "holds" if ok else "FAILS"))
            bad += not ok
        elif w.get("kind") == "style":
            r = impl_style((w["css"], w["mode"], w["arg"]))
            got = None if "EXC" in r else spec_urls([["S", r["after"]]])
            ok = got == w.get("expected")
            print("replay replaceUrls(style %r) -> %r, expected %r : %s" % (w["css"], got, w.get("expected"), "holds" if ok else "FAILS"))
            bad += not ok
        else:
            d = check_witness(w)
            print("replay sheet %r replacer=%s%r ignoreImportRules=%s -> %s" % (
                w["css"], w["mode"], w["arg"], w["ign"], d[0] if d else "holds"))
            bad += bool(d)
    return 1 if bad else 0


TRUSTED = [
    "Coq 8.16.1 kernel and VM (vm_compute for the finite checks on the regenerated character classes); no native_compute",
    "translate/tokenizer.py + translate/quote.py (C03: helper.string / stringvalue / _stringtokenvalue) + "
    "translate/urlquote.py + translate/regexlib.py (CPython's re._parser parses the patterns; "
    "urlquote.py checks the statement shape of helper.uri / urivalue / _uritokenvalue "
    "and the call sites in serialize.py, prodparser.PreDef.uri, URIValue, CSSImportRule)",
    "extraction (ExtrOcamlBasic only) + ocamlfind ocamlopt, ocaml/urls_driver.ml",
    "harness/props/c12.py: sheet generator/renderer, the CSSOM reader extract_tree (rule types, getProperties(all=True), "
    "propertyValue items, Value items of function values), comparison code",
    "modelled, not verified: getUrls/replaceUrls (coq/theories/Urls.v) and the quoting helpers (UrlQuote.v) are "
    "hand-written Gallina transcriptions, corresponded on every run; the tokenizer model is the shared Tokenizer.v (C08)",
    "hypothesised, validated end to end only: the value/declaration/rule parsers and the serializer deliver each URL to "
    "helper.uri / helper.urivalue / _uritokenvalue unchanged (ProdParser grammars and serialize.py are not modelled); "
    "assigning CSSImportRule.href stores the string (its loading side effect belongs to C20); str.strip()/isspace "
    "table and the Unicode \\s class generated from the running interpreter",
    "CPython 3.12 re/str semantics as the thing being modelled",
]
ASSUME = [
    "Print Assumptions for every theorem of props/C12.v: see coverage.print_assumptions (all closed under the global context)",
    "document order inside @page = own declarations, then margin rules (the order of the object model and of the "
    "serializer; the generator writes them in that order)",
    "URL strings of the text-level theorems: every value helper.string can represent -- any code points, backslash and "
    "\\n \\r \\f included, except a backslash run of odd length directly before a double quote "
    "(C03's open finding on helper.string/stringvalue); the property's own set (no backslash, "
    "no newline) is a subset (uri_roundtrip_property_set)",
    "the replacer is a pure function in the model; the harness checks the order and number of its calls on the implementation",
    "an @import with an empty href is not a valid rule (CSSImportRule rejects it by design), so import hrefs are non-empty "
    "in the end-to-end stream; not generated because of defects outside this property: a '+' token in a margin rule's "
    "declaration drops the @page rule, blank-separated items inside expression(...) are serialised without the blanks",
]
