"""maintainer tool: validate seeded changes produced by independent sub-agents and run the checks against them.
usage: tools_seed.py validate C07 [k]     -> confirm (patch applies, 384 tests pass, demo fails with / passes without), copy to seeded/
       tools_seed.py run C07-1 [--tier t] -> apply seeded/C07-1/patch.diff to /repo, ./check, revert, record in seeded/C07-1/result.json"""
import json, os, shutil, subprocess, sys, time
from pathlib import Path
V = Path('/verif'); R = '/repo'

def sh(cmd, **kw):
    return subprocess.run(cmd, shell=True, capture_output=True, text=True, **kw)

def validate(pid, ks):
    src = Path(os.environ.get('SEED_PREFIX', '/tmp/seed-') + '%s/OUT' % pid)
    off = int(os.environ.get('SEED_OFFSET', '0'))
    for k in ks:
        d = src / str(k)
        if not (d / 'patch.diff').exists():
            print(pid, k, 'no patch'); continue
        wt = '/tmp/val-%s-%s' % (pid, k)
        sh('git -C %s worktree remove --force %s' % (R, wt)); shutil.rmtree(wt, ignore_errors=True)
        sh('git -C %s worktree add --detach %s HEAD' % (R, wt))
        env = dict(os.environ, PYTHONPATH=wt + '/src', PYTHONHASHSEED='0')
        base = sh('/venv/bin/python %s' % (d / 'demo.py'), cwd=wt, env=env, timeout=600)
        ap = sh('git apply %s' % (d / 'patch.diff'), cwd=wt)
        if ap.returncode:
            ap = sh('git apply -3 %s || patch -p1 < %s' % (d / 'patch.diff', d / 'patch.diff'), cwd=wt)
        tests = sh('/venv/bin/python -m pytest -q -p no:cacheprovider -x css_parser_tests 2>&1 | tail -1', cwd=wt, env=env, timeout=900)
        demo = sh('/venv/bin/python %s' % (d / 'demo.py'), cwd=wt, env=env, timeout=600)
        ok = ap.returncode == 0 and '384 passed' in tests.stdout and base.returncode == 0 and demo.returncode != 0
        print('%s-%s applies=%s tests=%r demo_without=%d demo_with=%d -> %s' % (pid, k, ap.returncode == 0, tests.stdout.strip()[-40:], base.returncode, demo.returncode, 'KEEP' if ok else 'REJECT'))
        if ok:
            out = V / 'seeded' / ('%s-%s' % (pid, int(k) + off)); out.mkdir(parents=True, exist_ok=True)
            # store the patch as a diff against /repo HEAD
            (out / 'patch.diff').write_text(sh('git diff', cwd=wt).stdout)
            shutil.copy(d / 'demo.py', out / 'demo.py')
            meta = json.loads((d / 'meta.json').read_text()) if (d / 'meta.json').exists() else {}
            meta.update({'property': pid, 'confirmed_by_maintainer': {
                'repo_head': sh('git -C %s rev-parse --short HEAD' % R).stdout.strip(),
                'suite_with_change': tests.stdout.strip(), 'demo_exit_without_change': base.returncode,
                'demo_exit_with_change': demo.returncode, 'demo_output_with_change': (demo.stdout + demo.stderr)[-600:]}})
            (out / 'meta.json').write_text(json.dumps(meta, indent=1))
        sh('git -C %s worktree remove --force %s' % (R, wt)); shutil.rmtree(wt, ignore_errors=True)

def run(name, tier='quick', props=None):
    """runs the checks against a PRIVATE worktree of /repo HEAD with the seeded patch applied (VERIF_REPO), so that
    /repo's own working tree is never touched; Gen/*.v are regenerated from /repo again afterwards"""
    d = V / 'seeded' / name
    pid = name.split('-')[0]
    wt = '/tmp/run-%s' % name
    sh('git -C %s worktree remove --force %s' % (R, wt)); shutil.rmtree(wt, ignore_errors=True)
    sh('git -C %s worktree add --detach %s HEAD' % (R, wt))
    patch = d / 'patch.diff'
    if (d / 'patch-rebased.diff').exists():
        patch = d / 'patch-rebased.diff'
    ap = sh('git apply %s' % patch, cwd=wt)
    if ap.returncode:
        ap = sh('git apply -3 %s' % patch, cwd=wt)
        if ap.returncode or 'conflict' in (ap.stdout + ap.stderr).lower() or sh('git diff --check', cwd=wt).returncode:
            print(name, 'patch does not apply to HEAD (superseded by later fix: commits); recorded result kept')
            sh('git -C %s worktree remove --force %s' % (R, wt)); shutil.rmtree(wt, ignore_errors=True)
            return
    env = dict(os.environ, PYTHONPATH=wt + '/src', PYTHONHASHSEED='0')
    tests = sh('/venv/bin/python -m pytest -q -p no:cacheprovider -x css_parser_tests 2>&1 | tail -1', cwd=wt, env=env, timeout=900)
    demo = sh('/venv/bin/python %s' % (d / 'demo.py'), cwd=wt, env=env, timeout=600)
    res = {}
    try:
        for p in (props or [pid]):
            t0 = time.time()
            r = sh('./check %s --tier %s' % (p, tier), cwd=str(V), timeout=3000, env=dict(os.environ, VERIF_REPO=wt))
            lines = [l for l in r.stdout.splitlines() if l.startswith('VIOLATION')]
            stages = [l.strip() for l in r.stdout.splitlines() if l.strip().startswith(('broken ', 'violation:'))]
            if lines and 'replay=' in lines[0]:
                rp = lines[0].split('replay=')[1].split()[0]
                try:
                    shutil.copy(rp, d / ('replay-%s.json' % p))
                except Exception:
                    pass
            res[p] = {'rc': r.returncode, 'violation_line': lines[:1], 'stages': stages[:12], 'wall_s': round(time.time() - t0),
                      'found_input': bool(lines) and 'no-failing-input-found' not in lines[0],
                      'repo_head': sh('git -C %s rev-parse --short HEAD' % R).stdout.strip(),
                      'suite_with_change': tests.stdout.strip()[-40:], 'demo_exit_with_change': demo.returncode}
            print(name, p, 'rc=%d' % r.returncode, 'tests=%r demo=%d' % (tests.stdout.strip()[-12:], demo.returncode), lines[:1], [s.split(':')[0] for s in stages[:6]])
    finally:
        sh('git -C %s worktree remove --force %s' % (R, wt)); shutil.rmtree(wt, ignore_errors=True)
    old = json.loads((d / 'result.json').read_text()) if (d / 'result.json').exists() else {}
    old.setdefault(tier, {}).update(res)
    (d / 'result.json').write_text(json.dumps(old, indent=1))


if __name__ == '__main__':
    if sys.argv[1] == 'validate':
        validate(sys.argv[2], sys.argv[3:] or ['1', '2'])
    else:
        tier = 'quick'
        a = sys.argv[2:]
        if '--tier' in a:
            tier = a[a.index('--tier') + 1]; del a[a.index('--tier'):a.index('--tier') + 2]
        run(a[0], tier, a[1:] or None)
