(* line protocol (strings = decimal code points joined by ","):
   T|<ns>|<tokens>   ns = prefix:uri;...   tokens = type:value;...     -> result of Selector.select
   A|<ns>|<ast words> (prefix notation, see harness/props/c16.py)       -> "<declared> <b> <c> <d>|<tokens>|<result>"
   S|<ns>|<tokens>   serialisation (do_css_Selector) of what Selector.select accepts -> NONE | =<text>
   L|<ns>|<tokens>   SelectorList -> CRASH | REJ | ACC b c d|items@b c d|items...
   H|<ns>|<tokens>#<tokens>#...   successive assignments to one Selector -> EMPTY | CRASH | ACC ... (what it holds)
   P|<raising 0/1>|<step>#<step>...   step = S/<tokens> | C/<ispage>/<O|L|R>/<selector tokens>: assignments to one
                     CSSPageRule; after each step "n f l~items@" (UNMOD@ and stop when not modelled)
   N|<str>           -> "<Selector.normalize>|<Tokenizer.normalize>"
   result = CRASH | REJ | ACC <b> <c> <d>|typ~kind~a~b;...                                                  *)
open Selector_model

let rec pos_of_int n = if n = 1 then XH else if n land 1 = 0 then XO (pos_of_int (n lsr 1)) else XI (pos_of_int (n lsr 1))
let n_of_int n = if n = 0 then N0 else Npos (pos_of_int n)
let rec int_of_pos = function XH -> 1 | XO p -> 2 * int_of_pos p | XI p -> 2 * int_of_pos p + 1
let int_of_n = function N0 -> 0 | Npos p -> int_of_pos p
let rec int_of_nat = function O -> 0 | S n -> 1 + int_of_nat n
let str_out l = String.concat "," (List.map (fun c -> string_of_int (int_of_n c)) l)
let str_in x = List.map (fun c -> n_of_int (int_of_string c)) (List.filter (fun c -> c <> "") (String.split_on_char ',' x))
let split c x = if x = "" then [] else String.split_on_char c x
let pair x = match String.split_on_char ':' x with [a; b] -> (str_in a, str_in b) | _ -> failwith "pair"

let item_out (t, v) =
  let ts = str_out (ityp_str t) in
  match v with
  | VStr0 w -> ts ^ "~S~" ^ str_out w ^ "~"
  | VComment w -> ts ^ "~C~" ^ str_out w ^ "~"
  | VPair (u, n) -> ts ^ "~P~" ^ (match u with UAny -> "A" | UNone -> "N" | UStr x -> "U" ^ str_out x) ^ "~" ^ str_out n
let result_out = function
  | None -> "CRASH"
  | Some Rejected -> "REJ"
  | Some (Accepted (b, c, d, q)) ->
    Printf.sprintf "ACC %d %d %d|%s" (int_of_nat b) (int_of_nat c) (int_of_nat d) (String.concat ";" (List.map item_out q))
let tok_out t = (match tty_str t.sty with Some x -> str_out x | None -> "?") ^ ":" ^ str_out t.sval

(* ---- AST reader *)
let words = ref [||]
let pos = ref 0
let next () = let w = !words.(!pos) in incr pos; w
let rd_str () = let w = next () in if w.[0] <> '=' then failwith ("str " ^ w) else str_in (String.sub w 1 (String.length w - 1))
let rd_int () = int_of_string (next ())
let rd_list f = let n = rd_int () in List.init n (fun _ -> f ())
let rd_bool () = next () = "1"
let rd_wtok () = match next () with "S" -> WS (rd_str ()) | "C" -> WC (rd_str ()) | w -> failwith ("wtok " ^ w)
let rd_wsl () = rd_list rd_wtok
let rd_cm () = rd_list rd_str
let rd_nsq () = match next () with "ND" -> NsDefault | "NA" -> NsAny | "NN" -> NsNo | "NP" -> NsP (rd_str ()) | w -> failwith ("nsq " ^ w)
let rd_op () = match next () with "EQ" -> OpEq | "IN" -> OpIncl | "DA" -> OpDash | "PR" -> OpPre | "SU" -> OpSuf | "SB" -> OpSub | w -> failwith ("op " ^ w)
let rd_attr () =
  let w1 = rd_wsl () in let q = rd_nsq () in let n = rd_str () in let w2 = rd_wsl () in
  let rest = match next () with
    | "R0" -> None
    | "R1" -> let o = rd_op () in let w3 = rd_wsl () in
      let v = (match next () with "VI" -> AvI (rd_str ()) | "VS" -> AvS (rd_str ()) | w -> failwith ("attv " ^ w)) in
      let w4 = rd_wsl () in Some (((o, w3), v), w4)
    | w -> failwith ("rest " ^ w) in
  { at_w1 = w1; at_ns = q; at_name = n; at_w2 = w2; at_rest = rest }
let rd_etok () = match next () with
  | "E+" -> EPlus | "E-" -> EMinus | "ED" -> EDim (rd_str ()) | "EN" -> ENum (rd_str ()) | "ES" -> EStr (rd_str ())
  | "EI" -> EId (rd_str ()) | w -> failwith ("etok " ^ w)
let rd_pseudo () = match next () with
  | "PI" -> let d = rd_bool () in PsId (d, rd_str ())
  | "PF" -> let d = rd_bool () in let n = rd_str () in let w = rd_wsl () in
    let e = rd_list (fun () -> let t = rd_etok () in let w = rd_wsl () in (t, w)) in PsFn (d, n, w, e)
  | w -> failwith ("pseudo " ^ w)
let rd_negarg () = match next () with
  | "NT" -> let q = rd_nsq () in NaType (q, rd_str ()) | "NU" -> NaUniv (rd_nsq ()) | "NH" -> NaHash (rd_str ())
  | "NC" -> NaClass (rd_str ()) | "NAT" -> NaAttr (rd_attr ()) | "NPS" -> NaPseudo (rd_pseudo ()) | w -> failwith ("negarg " ^ w)
let rd_simple () = match next () with
  | "SH" -> SHash (rd_str ()) | "SC" -> SClass (rd_str ()) | "SA" -> SAttr (rd_attr ()) | "SP" -> SPseudo (rd_pseudo ())
  | "SN" -> let w1 = rd_wsl () in let a = rd_negarg () in let w2 = rd_wsl () in SNot (w1, a, w2)
  | w -> failwith ("simple " ^ w)
let rd_head () = match next () with
  | "H0" -> HNone | "HT" -> let q = rd_nsq () in HType (q, rd_str ()) | "HU" -> HUniv (rd_nsq ()) | w -> failwith ("head " ^ w)
let rd_compound () =
  let h = rd_head () in
  let r = rd_list (fun () -> let c = rd_cm () in let x = rd_simple () in (c, x)) in
  let pe = match next () with "P0" -> None | "P1" -> let c = rd_cm () in Some (c, rd_pseudo ()) | w -> failwith ("pe " ^ w) in
  { c_head = h; c_rest = r; c_pe = pe }
let rd_comb () = match next () with
  | "CD" -> let w1 = rd_wsl () in let sp = rd_str () in CDesc (w1, sp, rd_wsl ())
  | "CC" -> let w1 = rd_wsl () in CChild (w1, rd_wsl ()) | "CA" -> let w1 = rd_wsl () in CAdj (w1, rd_wsl ())
  | "CS" -> let w1 = rd_wsl () in CSib (w1, rd_wsl ()) | w -> failwith ("comb " ^ w)
let rd_selector () =
  let l = rd_wsl () in let f = rd_compound () in
  let m = rd_list (fun () -> let c = rd_comb () in let x = rd_compound () in (c, x)) in
  let t = rd_wsl () in { s_lead = l; s_first = f; s_more = m; s_trail = t }

let () =
  try
    while true do
      let line = input_line stdin in
      (try
        match String.split_on_char '|' line with
        | ["T"; ns; toks] ->
          let ns = List.map pair (split ';' ns) in
          let toks = List.map pair (split ';' toks) in
          print_endline (result_out (select ns toks))
        | ["A"; ns; ast] ->
          let ns = List.map pair (split ';' ns) in
          words := Array.of_list (List.filter (fun x -> x <> "") (String.split_on_char ' ' ast)); pos := 0;
          let x = rd_selector () in
          if !pos <> Array.length !words then failwith "trailing words";
          let ((b, c), d) = sp_selector x in
          let toks = render x in
          Printf.printf "%d %d %d %d %d|%s|%s\n" (if declared_b ns x then 1 else 0) (int_of_nat b) (int_of_nat c) (int_of_nat d)
            (if sep_free x then 1 else 0)
            (String.concat ";" (List.map tok_out toks)) (result_out (sel_run ns (sel_prepass toks)))
        | ["S"; ns; toks] ->
          let ns = List.map pair (split ';' ns) in
          let tl = List.map pair (split ';' toks) in
          print_endline (match select_ser ns tl with
              | None -> "NONE"
              | Some t -> "=" ^ str_out t ^ "|" ^ String.concat ";" (List.map tok_out (select_ser_tokens ns tl)))
        | ["L"; ns; toks] ->
          let ns = List.map pair (split ';' ns) in
          print_endline (match sl_select ns (List.map pair (split ';' toks)) with
              | None -> "CRASH"
              | Some SLRejected -> "REJ"
              | Some (SLAccepted ms) ->
                "ACC " ^ String.concat "@" (List.map (fun (((b, c), d), q) ->
                    Printf.sprintf "%d %d %d|%s" (int_of_nat b) (int_of_nat c) (int_of_nat d)
                      (String.concat ";" (List.map item_out q))) ms))
        | ["H"; ns; hist] ->
          let ns = List.map pair (split ';' ns) in
          let hist = List.map (fun h -> List.map pair (split ';' h)) (String.split_on_char '#' hist) in
          print_endline (match assigns0 ns hist with
              | None -> "CRASH"
              | Some h -> (match h.h_seq with
                  | [] -> "EMPTY"
                  | q -> let ((b, c), d) = h.h_spec in
                    Printf.sprintf "ACC %d %d %d|%s" (int_of_nat b) (int_of_nat c) (int_of_nat d)
                      (String.concat ";" (List.map item_out q))))
        | ["P"; raising; hist] ->
          let raising = raising = "1" in
          let toks x = List.map (fun (a, b) -> { sty = tty_of_str a; sval = b }) (List.map pair (split ';' x)) in
          let step x = match String.split_on_char '/' x with
            | ["S"; ts] -> ASel (toks ts)
            | ["C"; ip; f; ts] -> ACss (ip = "1", toks ts, (match f with "O" -> BOk | "L" -> BLogged | _ -> BReject))
            | _ -> failwith "step" in
          let out = Buffer.create 64 in
          let rec go h = function
            | [] -> ()
            | a :: r -> (match page_assign raising h a with
                | None -> Buffer.add_string out "UNMOD@"
                | Some h' ->
                  let ((n, f), l) = h'.ph_spec in
                  Buffer.add_string out (Printf.sprintf "%d %d %d~%s@" (int_of_nat n) (int_of_nat f) (int_of_nat l)
                    (String.concat ";" (List.map (fun (a, b) -> str_out a ^ ":" ^ str_out b) h'.ph_seq)));
                  go h' r) in
          go pheld0 (List.map step (String.split_on_char '#' hist));
          print_endline (Buffer.contents out)
        | ["N"; x] -> let v = str_in x in print_endline (str_out (sel_normalize v) ^ "|" ^ str_out (tok_normalize v))
        | _ -> print_endline "BAD"
      with Failure m -> print_endline ("BAD " ^ m) | Invalid_argument m -> print_endline ("BAD " ^ m))
    done
  with End_of_file -> ()
