(* line protocol:  <cmd> <cp> <cp> ...   ->  one line: code points joined by "," | CRASH | NONE | a number
   cmd: N normalize  U unicodesub  X normalize_u  V urivalue  S _stringtokenvalue  H helper.stringvalue
        K at-keyword token name  M usub_len (match length of the unicodesub regex at 0)  T strip_spec  P priority_of *)
open Respell_model

let rec pos_of_int n = if n = 1 then XH else if n land 1 = 0 then XO (pos_of_int (n lsr 1)) else XI (pos_of_int (n lsr 1))
let n_of_int n = if n = 0 then N0 else Npos (pos_of_int n)
let rec int_of_pos = function XH -> 1 | XO p -> 2 * int_of_pos p | XI p -> 2 * int_of_pos p + 1
let int_of_n = function N0 -> 0 | Npos p -> int_of_pos p
let rec int_of_nat = function O -> 0 | S n -> 1 + int_of_nat n
let str_out l = String.concat "," (List.map (fun c -> string_of_int (int_of_n c)) l)

let () =
  try
    while true do
      let line = input_line stdin in
      let parts = List.filter (fun x -> x <> "") (String.split_on_char ' ' line) in
      match parts with
      | cmd :: cps ->
        let t = List.map (fun x -> n_of_int (int_of_string x)) cps in
        print_endline (match cmd with
          | "N" -> str_out (normalize t)
          | "U" -> str_out (unicodesub t)
          | "X" -> str_out (normalize_u t)
          | "V" -> str_out (urivalue t)
          | "T" -> str_out (strip_spec t)
          | "P" -> str_out (priority_of t)
          | "K" -> str_out (atkw_name t)
          | "S" -> (match strtokval t with Ok (Some v) -> str_out v | Ok None -> "NONE" | Crash -> "CRASH")
          | "H" -> (match hstringvalue t with Ok v -> str_out v | Crash -> "CRASH")
          | "M" -> (match usub_len t with Some n -> string_of_int (int_of_nat n) | None -> "NONE")
          | _ -> "BAD")
      | _ -> print_endline "BAD"
    done
  with End_of_file -> ()
