(* line protocol (whitespace separated words, strings = "-" or code points joined by ","):
     R gid d clear  NS tok* NP tok* NT tok*            parse of grammar gid of env_real (ProdParser(clear).parse)
     B gid d NT tok*                                   constructor of grammar gid of env_real (build)
     Y d clear keepS checkS emptyOk NENV gram* NS tok* NP tok* NT tok*      synthetic environment, root = grammar 0
   gram := keepS checkS emptyOk tree ; tok := ty val
   tree := P name mcode opt acode store stop stopkeep stopnm nextsor mayend storetok | Q n lo hi tree* | C n oopt tree*
   answer: one JSON line *)
open Prodparser_model

let rec pos_of_int n = if n = 1 then XH else if n land 1 = 0 then XO (pos_of_int (n lsr 1)) else XI (pos_of_int (n lsr 1))
let n_of_int n = if n = 0 then N0 else Npos (pos_of_int n)
let rec int_of_pos = function XH -> 1 | XO p -> 2 * int_of_pos p | XI p -> 2 * int_of_pos p + 1
let int_of_n = function N0 -> 0 | Npos p -> int_of_pos p
let rec nat_of_int n = if n <= 0 then O else S (nat_of_int (n - 1))
let rec int_of_nat = function O -> 0 | S n -> 1 + int_of_nat n

let words = ref [||]
let pos = ref 0
let next () = let w = !words.(!pos) in incr pos; w
let nint () = int_of_string (next ())
let nbool () = (next ()) = "1"
let nstr () = let w = next () in
  if w = "-" then [] else List.map (fun x -> n_of_int (int_of_string x)) (String.split_on_char ',' w)
let rec ntimes n f = if n <= 0 then [] else let x = f () in x :: ntimes (n - 1) f
let nlist f = let n = nint () in ntimes n f
let ntok () = let t = nstr () in let v = nstr () in { ty = t; raw = v; val0 = v; line = O; col = O }

let rec nmcode () =
  match next () with
  | "t" -> MTrue | "f" -> MFalse
  | "T" -> MTy (nstr ()) | "TI" -> MTyIn (nlist nstr)
  | "V" -> MVal (nstr ()) | "VN" -> MValNe (nstr ()) | "VI" -> MValIn (nlist nstr)
  | "VS" -> MValSubstr (nstr ()) | "VP" -> MValStarts (nstr ())
  | "N" -> MNorm (nstr ()) | "NI" -> MNormIn (nlist nstr) | "H" -> MHexRe
  | "A" -> let a = nmcode () in let b = nmcode () in MAnd (a, b)
  | "O" -> let a = nmcode () in let b = nmcode () in MOr (a, b)
  | w -> failwith ("mcode " ^ w)
let nacode () =
  match next () with
  | "d" -> ADefault | "F" -> AFalse | "n" -> ANorm | "l" -> ALower | "sv" -> AStrVal | "uv" -> AUriVal
  | "c" -> AConstTy (nstr ())
  | "sub" -> let l = next () in
             let lab = if l = "_" then None else Some (if l = "-" then [] else List.map (fun x -> n_of_int (int_of_string x)) (String.split_on_char ',' l)) in
             let g = nint () in ASub (lab, nat_of_int g)
  | "op" -> AOpaque
  | w -> failwith ("acode " ^ w)
let rec ntree () =
  match next () with
  | "P" ->
    let name = nstr () in let m = nmcode () in let o = nbool () in let a = nacode () in
    let st = (let w = next () in if w = "_" then None else Some (if w = "-" then [] else List.map (fun x -> n_of_int (int_of_string x)) (String.split_on_char ',' w))) in
    let stop = nbool () in let sk = nbool () in let snm = nbool () in let ns = nbool () in let me = nbool () in let stt = nbool () in
    PProd { p_name = name; p_match = m; p_opt = o; p_toseq = a; p_store = st; p_stop = stop; p_stopkeep = sk;
            p_stopnm = snm; p_nextsor = ns; p_mayend = me; p_storetok = stt }
  | "Q" -> let n = nint () in let lo = nint () in let hi = nint () in
    let ps = ntimes n ntree in PSeq (ps, nat_of_int lo, (if hi < 0 then None else Some (nat_of_int hi)))
  | "C" -> let n = nint () in let oo = nint () in
    let ps = ntimes n ntree in PCho (ps, (if oo < 0 then None else Some (oo = 1)))
  | w -> failwith ("tree " ^ w)
let nopts () = let k = nbool () in let c = nbool () in let e = nbool () in { o_keepS = k; o_checkS = c; o_emptyOk = e }

let b = Buffer.create 4096
let jstr l = Buffer.add_char b '['; List.iteri (fun i c -> if i > 0 then Buffer.add_char b ','; Buffer.add_string b (string_of_int (int_of_n c))) l; Buffer.add_char b ']'
let jbool x = Buffer.add_string b (if x then "true" else "false")
let jlist f l = Buffer.add_char b '['; List.iteri (fun i x -> if i > 0 then Buffer.add_char b ','; f x) l; Buffer.add_char b ']'
let jtok t = Buffer.add_char b '['; jstr t.ty; Buffer.add_char b ','; jstr t.val0; Buffer.add_char b ']'
let rec jitem = function
  | IStr (t, v) -> Buffer.add_string b "{\"t\":"; jstr t; Buffer.add_string b ",\"v\":"; jstr v; Buffer.add_char b '}'
  | IObj (l, g, w, its, mt) ->
    Buffer.add_string b "{\"t\":"; jstr l; Buffer.add_string b ",\"g\":"; Buffer.add_string b (string_of_int (int_of_nat g));
    Buffer.add_string b ",\"wf\":"; jbool w; Buffer.add_string b ",\"mt\":"; jstr mt;
    Buffer.add_string b ",\"items\":"; jlist jitem its; Buffer.add_char b '}'
let jout = function
  | Ret r ->
    Buffer.add_string b "{\"out\":\"ret\",\"wf\":"; jbool r.r_wf;
    Buffer.add_string b ",\"none\":"; jbool r.r_none;
    Buffer.add_string b ",\"keep\":"; (match (if r.r_none then None else r.r_keep) with None -> Buffer.add_string b "null" | Some t -> jtok t);
    Buffer.add_string b ",\"items\":"; jlist jitem r.r_items;
    Buffer.add_string b ",\"store\":"; jlist (fun (k, vs) -> Buffer.add_char b '['; jstr k; Buffer.add_char b ','; jlist jstr vs; Buffer.add_char b ']') r.r_store;
    Buffer.add_string b ",\"unused\":"; jlist jtok (if r.r_none then [] else unused_of r);
    Buffer.add_string b ",\"saved\":"; jlist jtok r.r_stash.saved;
    Buffer.add_string b ",\"pushed\":"; jlist jtok r.r_stash.pushed;
    Buffer.add_char b '}'
  | OutOfFuel -> Buffer.add_string b "{\"out\":\"fuel\"}"
  | DepthOut -> Buffer.add_string b "{\"out\":\"depth\"}"
  | Spin -> Buffer.add_string b "{\"out\":\"spin\"}"
  | Crash -> Buffer.add_string b "{\"out\":\"crash\"}"

let () =
  try
    while true do
      let line = input_line stdin in
      words := Array.of_list (List.filter (fun x -> x <> "") (String.split_on_char ' ' line));
      pos := 0;
      Buffer.clear b;
      (try
        (match next () with
         | "R" ->
           let g = nint () in let d = nint () in let clear = nbool () in
           let sv = nlist ntok in let pu = nlist ntok in let toks = nlist ntok in
           (match List.nth_opt env_real g with
            | None -> Buffer.add_string b "{\"out\":\"nogrammar\"}"
            | Some gr -> jout (pparse (nat_of_int d) env_real clear gr.g_opts gr.g_tree toks { saved = sv; pushed = pu }))
         | "B" ->
           let g = nint () in let d = nint () in let toks = nlist ntok in
           (match build (nat_of_int d) env_real (nat_of_int g) toks with
            | None -> Buffer.add_string b "{\"out\":\"nobuild\"}"
            | Some PCrash -> Buffer.add_string b "{\"out\":\"crash\"}"
            | Some (PRet (w, its, mt)) ->
              Buffer.add_string b "{\"out\":\"obj\",\"wf\":"; jbool w; Buffer.add_string b ",\"mt\":"; jstr mt;
              Buffer.add_string b ",\"items\":"; jlist jitem its; Buffer.add_char b '}')
         | "Y" ->
           let d = nint () in let clear = nbool () in let o = nopts () in
           let env = nlist (fun () -> let oo = nopts () in let t = ntree () in
                                      { g_name = []; g_tree = t; g_opts = oo; g_post = PostOk }) in
           let sv = nlist ntok in let pu = nlist ntok in let toks = nlist ntok in
           (match env with
            | [] -> Buffer.add_string b "{\"out\":\"noenv\"}"
            | gr :: _ -> jout (pparse (nat_of_int d) env clear o gr.g_tree toks { saved = sv; pushed = pu }))
         | w -> Buffer.add_string b "{\"out\":\"bad\"}")
      with Failure m -> (Buffer.clear b; Buffer.add_string b ("{\"out\":\"bad\",\"why\":\"" ^ m ^ "\"}"))
         | Invalid_argument m -> (Buffer.clear b; Buffer.add_string b "{\"out\":\"bad\",\"why\":\"short line\"}"));
      print_endline (Buffer.contents b)
    done
  with End_of_file -> ()
