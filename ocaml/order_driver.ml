(* line protocol (one history per line):   <rx> <op> <op> ...
   op (fields separated by '|'):
     I|T|<proto>;<proto>...|<index or N>|<0/1>      insertRule(text, index, inOrder)
     I|O|<rule>|<index or N>|<0/1>                  insertRule(ruleobject, index, inOrder)
     D|<index>   DO|<i>   NS|<p>|<u>   ND|<p>   E|<e>   T|<item>;...   item = <proto> | S0 ('<!--'/'-->' + whitespace) | S1 (no whitespace after it)
     C|<k>|I|T|<protos>|<index or N>   C|<k>|I|O|<rule>|<index or N>   C|<k>|D|<index>   C|<k>|DO|<i>   C|<k>|T|<kind>+<kind>...
   proto / rule:  kindcode:prefix:uri:enc:n+n+...:kindcode+kindcode+...
   answer: one line, per op  <result>#<state>#<valid 0/1>#<accept_kinds of the state's kinds>  joined by ' '
     result: R<n> | RN | E<exception> | S | U ;  state: rules joined by ';' in the proto syntax *)
open Order_model

let rec pos_of_int n = if n = 1 then XH else if n land 1 = 0 then XO (pos_of_int (n lsr 1)) else XI (pos_of_int (n lsr 1))
let n_of_int n = if n = 0 then N0 else Npos (pos_of_int n)
let z_of_int n = if n = 0 then Z0 else if n > 0 then Zpos (pos_of_int n) else Zneg (pos_of_int (-n))
let rec nat_of_int n = if n <= 0 then O else S (nat_of_int (n - 1))
let rec int_of_pos = function XH -> 1 | XO p -> 2 * int_of_pos p | XI p -> 2 * int_of_pos p + 1
let int_of_n = function N0 -> 0 | Npos p -> int_of_pos p
let rec int_of_nat = function O -> 0 | S n -> 1 + int_of_nat n

let kind_of_code c =
  match List.filter (fun k -> int_of_n (kind_code k) = c) all_kinds with
  | k :: _ -> k
  | [] -> failwith ("unknown kind code " ^ string_of_int c)

let split c s = if s = "" then [] else String.split_on_char c s
let ints s = List.map int_of_string (split '+' s)
let fields6 s = match String.split_on_char ':' s with
  | [k; p; u; e; l; c] -> (kind_of_code (int_of_string k), n_of_int (int_of_string p), n_of_int (int_of_string u),
                           n_of_int (int_of_string e), List.map n_of_int (ints l), List.map kind_of_code (ints c))
  | _ -> failwith ("bad rule/proto " ^ s)
let proto_of s = let (k, p, u, e, l, c) = fields6 s in { pkind = k; pprefix = p; puri = u; penc = e; ppfx = l; pkids = c }
let rule_of s = let (k, p, u, e, l, c) = fields6 s in { rkind = k; rprefix = p; ruri = u; renc = e; ruses = l; rkids = c }
let protos_of s = List.map proto_of (split ';' s)
let index_of s = if s = "N" then None else Some (z_of_int (int_of_string s))
let source_of form s = if form = "T" then Text (protos_of s) else Obj (rule_of s)

let op_of s =
  match String.split_on_char '|' s with
  | ["I"; form; src; idx; io] -> Ins (source_of form src, index_of idx, io = "1")
  | ["D"; idx] -> Del (z_of_int (int_of_string idx))
  | ["DO"; i] -> DelObj (nat_of_int (int_of_string i))
  | ["NS"; p; u] -> NsSet (n_of_int (int_of_string p), n_of_int (int_of_string u))
  | ["ND"; p] -> NsDel (n_of_int (int_of_string p))
  | ["E"; e] -> Enc (n_of_int (int_of_string e))
  | ["T"; ps] -> SetText (List.map (fun x -> if x = "S0" then TSep false else if x = "S1" then TSep true
                                      else TStmt (proto_of x)) (split ';' ps))
  | ["C"; k; "I"; form; src; idx] -> In (nat_of_int (int_of_string k), CIns (source_of form src, index_of idx))
  | ["C"; k; "D"; idx] -> In (nat_of_int (int_of_string k), CDel (z_of_int (int_of_string idx)))
  | ["C"; k; "DO"; i] -> In (nat_of_int (int_of_string k), CDelObj (nat_of_int (int_of_string i)))
  | ["C"; k; "T"; ks] -> In (nat_of_int (int_of_string k), CText (List.map kind_of_code (ints ks)))
  | _ -> failwith ("bad op " ^ s)

let kcode k = string_of_int (int_of_n (kind_code k))
let rule_out r =
  Printf.sprintf "%s:%d:%d:%d:%s:%s" (kcode r.rkind) (int_of_n r.rprefix) (int_of_n r.ruri) (int_of_n r.renc)
    (String.concat "+" (List.map (fun u -> string_of_int (int_of_n u)) r.ruses))
    (String.concat "+" (List.map kcode r.rkids))
let exn_out = function
  | IndexSizeErr -> "IndexSizeErr" | HierarchyRequestErr -> "HierarchyRequestErr"
  | NoModificationAllowedErr -> "NoModificationAllowedErr" | NamespaceErr -> "NamespaceErr" | SyntaxErr -> "SyntaxErr"
  | InvalidModificationErr -> "InvalidModificationErr"
let result_out = function
  | Ret None -> "RN" | Ret (Some n) -> "R" ^ string_of_int (int_of_nat n)
  | Exc e -> "E" ^ exn_out e | Skip -> "S" | Unmodelled -> "U"

let () =
  try
    while true do
      let line = input_line stdin in
      match List.filter (fun x -> x <> "") (String.split_on_char ' ' line) with
      | rx :: ops ->
        (try
           let st = ref [] in
           let outs = List.map (fun o ->
               let (rs, res) = step (rx = "1") !st (op_of o) in
               st := rs;
               Printf.sprintf "%s#%s#%d#%s" (result_out res) (String.concat ";" (List.map rule_out rs))
                 (if valid_sheet rs then 1 else 0)
                 (String.concat "+" (List.map kcode (accept_kinds (kinds rs))))) ops in
           print_endline (String.concat " " outs)
         with Failure m -> print_endline ("BAD " ^ m))
      | [] -> print_endline ""
    done
  with End_of_file -> ()
