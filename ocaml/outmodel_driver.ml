(* line protocol (tokens separated by single spaces; a string is its code points joined by ',' or '-' when empty;
   an optional string is '~' for None):
     A <bools01> <ihf> <s1..s8> <lvl> <keepS01> <n> item*n     item = <vk> <val> <css> <media> <ty> <flags4> <conv>
         vk: n = None, s = str, t/f = truthy/falsy object (css/media: optional strings)
         -> C | <chunks joined by ';'>|<value()>
     G  same arguments as A                      -> C | <ws_prefs>|<item guards>|<tagged self.out>
     S <bools01> <ihf> <s1..s8> <n> rule*n       -> C | <text>
     P d|m  -> the preset as  <bools01> <ihf> <s1..s8>                                                   *)
open Outmodel_model

let rec pos_of_int n = if n = 1 then XH else if n land 1 = 0 then XO (pos_of_int (n lsr 1)) else XI (pos_of_int (n lsr 1))
let n_of_int n = if n = 0 then N0 else Npos (pos_of_int n)
let rec int_of_pos = function XH -> 1 | XO p -> 2 * int_of_pos p | XI p -> 2 * int_of_pos p + 1
let int_of_n = function N0 -> 0 | Npos p -> int_of_pos p
let rec nat_of_int n = if n = 0 then O else S (nat_of_int (n - 1))
let str_out l = if l = [] then "-" else String.concat "," (List.map (fun c -> string_of_int (int_of_n c)) l)
let str_in x = if x = "-" then [] else List.map (fun v -> n_of_int (int_of_string v)) (String.split_on_char ',' x)
let ostr_in x = if x = "~" then None else Some (str_in x)
let ostr_out = function None -> "~" | Some x -> str_out x
let bool_in x = (x = "1")
let bools_in x = List.init (String.length x) (fun i -> x.[i] = '1')

exception Bad

let toks = ref []
let next () = match !toks with [] -> raise Bad | x :: r -> toks := r; x
let rec many n f = if n = 0 then [] else let x = f () in x :: many (n - 1) f

let prefs_in () =
  let b = bools_in (next ()) in
  let ihf = ostr_in (next ()) in
  let st = many 8 (fun () -> str_in (next ())) in
  match mk_prefs b st ihf with Some p -> p | None -> raise Bad

let item_in () =
  let vk = next () in
  let v = str_in (next ()) in
  let css = ostr_in (next ()) in
  let media = ostr_in (next ()) in
  let ty = ostr_in (next ()) in
  let fl = bools_in (next ()) in
  let conv = str_in (next ()) in
  let pv = match vk with "n" -> VNone | "s" -> VStr v | "t" -> VObj (true, css, media) | "f" -> VObj (false, css, media)
                       | _ -> raise Bad in
  match fl with
  | [sp; ks; ind; al] -> { ival = pv; ity = ty; ispace = sp; ikeepS = ks; iindent = ind; ialwaysS = al; iconv = conv }
  | _ -> raise Bad

let rec ditem_in () =
  match next () with
  | "c" -> DComment (str_in (next ()))
  | "u" -> DUnknown (str_in (next ()))
  | "o" -> DOther (str_in (next ()))
  | "p" ->
    let ln = str_in (next ()) in let nm = str_in (next ()) in let v = str_in (next ()) in
    let hp = bool_in (next ()) in let lp = str_in (next ()) in let pr = str_in (next ()) in
    let ok = bool_in (next ()) in let wf = bool_in (next ()) in let va = bool_in (next ()) in
    let ef = bool_in (next ()) in
    DProp { p_litname = ln; p_name = nm; p_value = v; p_hasprio = hp; p_litprio = lp; p_prio = pr;
            p_nameseq_ok = ok; p_wf = wf; p_valid = va; p_effective = ef }
  | _ -> raise Bad

let rec rule_in () =
  match next () with
  | "C" -> RComment (str_in (next ()))
  | "Y" -> let sel = str_in (next ()) in let wf = bool_in (next ()) in
    let n = int_of_string (next ()) in RStyle (sel, wf, many n ditem_in)
  | "M" -> let kw = ostr_in (next ()) in let mq = str_in (next ()) in let wf = bool_in (next ()) in
    let n = int_of_string (next ()) in RMedia (kw, mq, wf, many n rule_in)
  | "F" -> let kw = ostr_in (next ()) in let wf = bool_in (next ()) in
    let n = int_of_string (next ()) in RFontFace (kw, wf, many n ditem_in)
  | "N" -> let t = str_in (next ()) in let a = bool_in (next ()) in let b = bool_in (next ()) in
    let c = bool_in (next ()) in RNamespace (t, a, b, c)
  | "U" -> let kw = str_in (next ()) in let wf = bool_in (next ()) in let f = str_in (next ()) in
    let r = str_in (next ()) in RUnknown (kw, wf, f, r)
  | "O" -> ROther (str_in (next ()))
  | _ -> raise Bad

let prefs_out p =
  String.concat " " ([String.concat "" (List.map (fun b -> if b then "1" else "0") (bool_prefs p));
                      ostr_out (importHrefFormat p)] @ List.map str_out (str_prefs p))

let handle line =
  toks := List.filter (fun x -> x <> "") (String.split_on_char ' ' line);
  match next () with
  | "A" ->
    let p = prefs_in () in
    let lvl = nat_of_int (int_of_string (next ())) in
    let keeps = bool_in (next ()) in
    let n = int_of_string (next ()) in
    let items = many n item_in in
    (match run p lvl items with
     | None -> "C"
     | Some r -> String.concat ";" (List.map str_out (out_list r)) ^ "|" ^ str_out (value r [] None keeps))
  | "G" ->
    (* guards + tagged list:  <ws_prefs 0/1>|<per item: s = writes nothing or raises, v<leaves_sep><keeps_sep>>|<tag or ->:<text> ;... *)
    let p = prefs_in () in
    let lvl = nat_of_int (int_of_string (next ())) in
    let _ = next () in
    let n = int_of_string (next ()) in
    let items = many n item_in in
    let b x = if x then "1" else "0" in
    let g = String.concat ";" (List.map (fun it -> match item_guard p it with
        | None -> "s" | Some (l, k) -> "v" ^ b l ^ b k) items) in
    let rec int_of_nat = function O -> 0 | S n -> 1 + int_of_nat n in
    (match run p lvl items with
     | None -> "C"
     | Some r -> b (ws_prefs p) ^ "|" ^ g ^ "|" ^ String.concat ";" (List.map (fun (tg, t) ->
         (match tg with None -> "-" | Some i -> string_of_int (int_of_nat i)) ^ ":" ^ str_out t) (List.rev r)))
  | "S" ->
    let p = prefs_in () in
    let n = int_of_string (next ()) in
    let rs = many n rule_in in
    (match do_sheet p rs with None -> "C" | Some t -> str_out t)
  | "P" -> prefs_out (if next () = "m" then prefs_minified else prefs_default)
  | _ -> raise Bad

let () =
  try
    while true do
      let line = input_line stdin in
      print_endline (try handle line with Bad | Failure _ | Not_found -> "BAD")
    done
  with End_of_file -> ()
