(* line protocol (tokens separated by blanks; a str is its code points joined by "," or "-" when empty):
     Q U v | Q S v | Q F v          helper.uri / helper.string / forbidden?      -> str | str | 0/1
     Q V u | Q K u | Q G u | Q W u  urivalue / _uritokenvalue / _stringtokenvalue / stringvalue -> N | =str
     Q T v follow                   first token of tokenize(helper.uri(v) + follow): ty|val|urivalue(val)|uritokenvalue(val)
     G sheet                        getUrls -> strs joined by ";"
     R ign mode arg sheet           replaceUrls(sheet, f, ign) -> sheet ; getUrls of the result
     Y mode arg style               replaceUrls(style, f) -> style
   sheet = "[" (I str | rule)* "]"   rule = S style | F style | G style | P style "[" rule* "]" | M "[" rule* "]" | O
   style = "{" decl* "}"   decl = "(" value* ")"   value = U str | f "(" value* ")" | o
   replacer modes: A arg (append) | P arg (prepend) | C arg (constant)                                   *)
open Urls_model

let rec pos_of_int n = if n = 1 then XH else if n land 1 = 0 then XO (pos_of_int (n lsr 1)) else XI (pos_of_int (n lsr 1))
let n_of_int n = if n = 0 then N0 else Npos (pos_of_int n)
let rec int_of_pos = function XH -> 1 | XO p -> 2 * int_of_pos p | XI p -> 2 * int_of_pos p + 1
let int_of_n = function N0 -> 0 | Npos p -> int_of_pos p
let str_out l = if l = [] then "-" else String.concat "," (List.map (fun c -> string_of_int (int_of_n c)) l)
let str_in x = if x = "-" then [] else List.map (fun c -> n_of_int (int_of_string c)) (String.split_on_char ',' x)
let opt_out = function Crash -> "N" | Ok v -> "=" ^ str_out v
let optopt_out = function Crash -> "N" | Ok None -> "NONE" | Ok (Some v) -> "=" ^ str_out v

exception Bad

let parse_values toks =
  let rec values acc = function
    | ")" :: r -> (List.rev acc, r)
    | "U" :: u :: r -> values (VUri (str_in u) :: acc) r
    | "o" :: r -> values (VOther :: acc) r
    | "f" :: "(" :: r -> let (items, r') = values [] r in values (VFun items :: acc) r'
    | _ -> raise Bad in
  values [] toks

let parse_style = function
  | "{" :: r ->
    let rec decls acc = function
      | "}" :: r -> (List.rev acc, r)
      | "(" :: r -> let (vs, r') = parse_values r in decls (vs :: acc) r'
      | _ -> raise Bad in
    decls [] r
  | _ -> raise Bad

let rec parse_rules acc = function
  | "]" :: r -> (List.rev acc, r)
  | toks -> let (x, r) = parse_rule toks in parse_rules (x :: acc) r
and parse_rule = function
  | "S" :: r -> let (st, r') = parse_style r in (RStyle st, r')
  | "F" :: r -> let (st, r') = parse_style r in (RFontFace st, r')
  | "G" :: r -> let (st, r') = parse_style r in (RMargin st, r')
  | "P" :: r -> let (st, r') = parse_style r in
    (match r' with "[" :: r'' -> let (rs, r3) = parse_rules [] r'' in (RPage (st, rs), r3) | _ -> raise Bad)
  | "M" :: "[" :: r -> let (rs, r') = parse_rules [] r in (RMedia rs, r')
  | "O" :: r -> (ROther, r)
  | _ -> raise Bad

let parse_sheet = function
  | "[" :: r ->
    let rec items acc = function
      | "]" :: r -> (List.rev acc, r)
      | "I" :: h :: r -> items (IImport (str_in h) :: acc) r
      | toks -> let (x, r) = parse_rule toks in items (IRule x :: acc) r in
    items [] r
  | _ -> raise Bad

let rec out_value = function
  | VUri u -> "U " ^ str_out u
  | VFun items -> "f ( " ^ String.concat "" (List.map (fun v -> out_value v ^ " ") items) ^ ")"
  | VOther -> "o"
let out_style st =
  "{ " ^ String.concat "" (List.map (fun d -> "( " ^ String.concat "" (List.map (fun v -> out_value v ^ " ") d) ^ ") ") st) ^ "}"
let rec out_rule = function
  | RStyle st -> "S " ^ out_style st
  | RFontFace st -> "F " ^ out_style st
  | RMargin st -> "G " ^ out_style st
  | RPage (st, rs) -> "P " ^ out_style st ^ " [ " ^ String.concat "" (List.map (fun r -> out_rule r ^ " ") rs) ^ "]"
  | RMedia rs -> "M [ " ^ String.concat "" (List.map (fun r -> out_rule r ^ " ") rs) ^ "]"
  | ROther -> "O"
let out_sheet sh =
  "[ " ^ String.concat "" (List.map (function IImport h -> "I " ^ str_out h ^ " " | IRule r -> out_rule r ^ " ") sh) ^ "]"

let replacer mode arg =
  let a = str_in arg in
  match mode with
  | "A" -> (fun u -> u @ a)
  | "P" -> (fun u -> a @ u)
  | "C" -> (fun _ -> a)
  | _ -> raise Bad

let urls_out l = String.concat ";" (List.map str_out l)

let handle parts =
  match parts with
  | ["Q"; "U"; v] -> str_out (huri (str_in v))
  | ["Q"; "S"; v] -> str_out (hstring (str_in v))
  | ["Q"; "F"; v] -> if forbidden (str_in v) then "1" else "0"
  | ["Q"; "V"; u] -> opt_out (urivalue (str_in u))
  | ["Q"; "K"; u] -> opt_out (uritokenvalue (str_in u))
  | ["Q"; "G"; u] -> optopt_out (stringtokenvalue (Some { ty = []; raw = []; val0 = str_in u; line = O; col = O }))
  | ["Q"; "W"; u] -> opt_out (hstringvalue (str_in u))
  | ["Q"; "T"; v; follow] ->
    (match tokenize true false (huri (str_in v) @ str_in follow) with
     | Some (t :: _) -> Printf.sprintf "%s|%s|%s|%s" (str_out t.ty) (str_out t.val0) (opt_out (urivalue t.val0)) (opt_out (uritokenvalue t.val0))
     | Some [] -> "EMPTY"
     | None -> "NONE")
  | "G" :: toks -> let (sh, _) = parse_sheet toks in urls_out (getUrls sh)
  | "R" :: ign :: mode :: arg :: toks ->
    let (sh, _) = parse_sheet toks in
    let sh' = replaceUrls (ign = "1") (replacer mode arg) sh in
    out_sheet sh' ^ " ## " ^ urls_out (getUrls sh')
  | "Y" :: mode :: arg :: toks ->
    let (st, _) = parse_style toks in out_style (replaceUrls_style (replacer mode arg) st)
  | _ -> "BAD"

let () =
  try
    while true do
      let line = input_line stdin in
      let parts = List.filter (fun x -> x <> "") (String.split_on_char ' ' line) in
      print_endline (try handle parts with Bad -> "BAD" | Failure _ -> "BAD")
    done
  with End_of_file -> ()
