(* line protocol (tokens:  ty/val;ty/val;...  with ty, val as comma-separated decimal code points):
     U <flag 0..12> <withstart 0|1> <tokens>   ->  <len run> <len rest>       (upto; run includes the start token)
     P <flag> <withstart> <tokens>             ->  same for upto_pinned
     T <tokens>   -> items of skeleton          D <tokens> -> items of decl_block     I <tokens> -> items of media_inner
     M <tokens>   -> media_split   (tokens after the MEDIA_SYM)
     R <tokens>   -> ruleset_split
     K <tokens>   -> unknown_rule
   items:  c | k<kind>:<len>    joined by ','                                                           *)
open Upto_model

let rec pos_of_int n = if n = 1 then XH else if n land 1 = 0 then XO (pos_of_int (n lsr 1)) else XI (pos_of_int (n lsr 1))
let n_of_int n = if n = 0 then N0 else Npos (pos_of_int n)
let rec nat_of_int n = if n = 0 then O else S (nat_of_int (n - 1))
let str_in x = if x = "" then [] else List.map (fun c -> n_of_int (int_of_string c)) (String.split_on_char ',' x)
let tok_in x =
  match String.split_on_char '/' x with
  | [a; b] -> { ty = str_in a; raw = []; val0 = str_in b; line = O; col = O }
  | _ -> failwith "bad token"
let toks_in x = if x = "" then [] else List.map tok_in (String.split_on_char ';' x)
let kind_no = function
  | KCharset -> 0 | KImport -> 1 | KNamespace -> 2 | KVariables -> 3 | KFontFace -> 4 | KMedia -> 5 | KPage -> 6
  | KUnknown -> 7 | KRuleset -> 8 | KDeclIdent -> 9 | KDeclUnexpected -> 10 | KDeclAt -> 11
let item_out = function IComment _ -> "c" | IStmt (k, run) -> Printf.sprintf "k%d:%d" (kind_no k) (List.length run)
let items_out l = String.concat "," (List.map item_out l)
let opt_items = function None -> "NONE" | Some l -> "[" ^ items_out l ^ "]"
let some = function None -> 0 | Some _ -> 1

let () =
  try
    while true do
      let line = input_line stdin in
      let parts = String.split_on_char ' ' line in
      (try
        match parts with
        | [("U" | "P") as c; fl; ws; ts] ->
          let ts = toks_in ts in
          let f = if c = "U" then upto else upto_pinned in
          let flag = flag_of_nat (nat_of_int (int_of_string fl)) in
          let (run, rest) =
            if ws = "1" then (match ts with t :: r -> f flag (Some t) r | [] -> failwith "no start")
            else f flag None ts in
          Printf.printf "%d %d\n" (List.length run) (List.length rest)
        | ["T"; ts] -> print_endline (items_out (skeleton (toks_in ts)))
        | ["D"; ts] -> print_endline (items_out (decl_block (toks_in ts)))
        | ["I"; ts] -> print_endline (items_out (media_inner (toks_in ts)))
        | ["M"; ts] ->
          let p = media_split (toks_in ts) in
          Printf.printf "m=%d n=%d r=%d t=%d inner=%s\n" (List.length p.mp_media) (List.length p.mp_name)
            (List.length p.mp_rules) (some p.mp_trail) (opt_items p.mp_inner)
        | ["R"; ts] ->
          let p = ruleset_split (toks_in ts) in
          Printf.printf "s=%d y=%d t=%d d=%s\n" (List.length p.rs_selector) (List.length p.rs_style)
            (some p.rs_trail) (opt_items p.rs_decls)
        | ["K"; ts] ->
          (match unknown_rule (toks_in ts) with
           | None -> print_endline "NONE"
           | Some (_, items) ->
             print_endline ("wf " ^ String.concat "," (List.map (function
                 | UTok _ -> "t" | UClose _ -> "x") items)))
        | _ -> print_endline "BAD"
      with Failure m -> print_endline ("BAD " ^ m))
    done
  with End_of_file -> ()
