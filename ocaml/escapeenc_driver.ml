(* line protocol (fields separated by one space, lists by commas, "-" = empty / none):
   H <cp>                         -> esc cp                      (cps | NONE)
   E <bom> <table> <text>         -> bytes|unenc|resolved        (table: cp=b.b.b or cp=- joined by ","; bytes NONE when the encoder raises)
   K <bom> <table> <text>         -> tokens of (escape_unenc text) in full-sheet mode: ty:val;ty:val...   (strings as cps joined by ".")
   D <bytes>                      -> detect_charset              (cps | NONE)
   S <enc|-> <rule>;<rule>...     -> get_encoding|sheet_text  after set_encoding enc (if given); rule = C.cps or O.cps
   A <rule>;... <op>;<op>...      -> get_encoding|sheet_text  after run_history; op = +cps (accepted name), -cps (refused name), 0 (None) *)
open Escapeenc_model

let rec pos_of_int n = if n = 1 then XH else if n land 1 = 0 then XO (pos_of_int (n lsr 1)) else XI (pos_of_int (n lsr 1))
let n_of_int n = if n = 0 then N0 else Npos (pos_of_int n)
let rec int_of_pos = function XH -> 1 | XO p -> 2 * int_of_pos p | XI p -> 2 * int_of_pos p + 1
let int_of_n = function N0 -> 0 | Npos p -> int_of_pos p
let out sep l = if l = [] then "-" else String.concat sep (List.map (fun c -> string_of_int (int_of_n c)) l)
let parse sep x = if x = "-" || x = "" then [] else List.map (fun v -> n_of_int (int_of_string v)) (String.split_on_char sep x)
let outo sep = function None -> "NONE" | Some l -> out sep l

let table x =
  let h = Hashtbl.create 64 in
  if x <> "-" then
    List.iter (fun ent ->
        match String.split_on_char '=' ent with
        | [k; "-"] -> Hashtbl.replace h (int_of_string k) None
        | [k; "e"] -> Hashtbl.replace h (int_of_string k) (Some [])
        | [k; v] -> Hashtbl.replace h (int_of_string k) (Some (parse '.' v))
        | _ -> failwith "bad table entry") (String.split_on_char ',' x);
  fun c -> match Hashtbl.find_opt h (int_of_n c) with Some v -> v | None -> failwith ("no table entry for " ^ string_of_int (int_of_n c))

let rule x =
  let body = if String.length x > 2 then parse '.' (String.sub x 2 (String.length x - 2)) else [] in
  if x.[0] = 'C' then Charset body else Other body

let () =
  try
    while true do
      let line = input_line stdin in
      let r =
        try
          match String.split_on_char ' ' line with
          | ["H"; c] -> outo "," (esc (n_of_int (int_of_string c)))
          | ["E"; b; tb; tx] ->
            let encc = table tb and bom = parse ',' b and text = parse ',' tx in
            let u = escape_unenc encc text in
            outo "," (encode_esc encc bom text) ^ "|" ^ out "," u ^ "|" ^ out "," (unicodesub u)
          | ["K"; _; tb; tx] ->
            let encc = table tb and text = parse ',' tx in
            (match tokenize true true (escape_unenc encc text) with
             | None -> "NONE"
             | Some toks -> String.concat ";" (List.map (fun t -> out "." t.ty ^ ":" ^ out "." t.val0) toks))
          | ["D"; b] -> outo "," (detect_charset (parse ',' b))
          | ["S"; e; rs] ->
            let sh = if rs = "-" then [] else List.map rule (String.split_on_char ';' rs) in
            let sh = if e = "-" then sh else set_encoding (parse ',' e) sh in
            out "," (get_encoding sh) ^ "|" ^ out "," (sheet_text sh)
          | ["A"; rs; ops] ->
            let sh = if rs = "-" then [] else List.map rule (String.split_on_char ';' rs) in
            let ops = if ops = "-" then [] else List.map (fun o ->
                if o = "0" then (None, false)
                else (Some (parse '.' (String.sub o 1 (String.length o - 1))), o.[0] = '+')) (String.split_on_char ';' ops) in
            let usable e = List.exists (fun (n, u) -> u && n = Some e) ops in
            let sh = run_history usable sh (List.map fst ops) in
            out "," (get_encoding sh) ^ "|" ^ out "," (sheet_text sh)
          | _ -> "BAD"
        with Failure m -> "FAIL " ^ m
      in
      print_endline r
    done
  with End_of_file -> ()
