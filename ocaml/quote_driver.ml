(* line protocol (strings are space-separated decimal code points):
     S <cps>        -> helper.string            : cps joined by ","
     U <cps>        -> helper.string(v, False)  (the call of helper.uri)
     V <cps>        -> helper.stringvalue       : CRASH | cps
     T <cps>        -> Base._stringtokenvalue(('STRING', <cps>, 1, 1)) : CRASH | NONE | cps
     F <fs> <cps>   -> first token of the text and its string value:  NONE | ty|val|(CRASH|NONE|cps)  *)
open Quote_model

let rec pos_of_int n = if n = 1 then XH else if n land 1 = 0 then XO (pos_of_int (n lsr 1)) else XI (pos_of_int (n lsr 1))
let n_of_int n = if n = 0 then N0 else Npos (pos_of_int n)
let rec int_of_pos = function XH -> 1 | XO p -> 2 * int_of_pos p | XI p -> 2 * int_of_pos p + 1
let int_of_n = function N0 -> 0 | Npos p -> int_of_pos p
let str_out l = String.concat "," (List.map (fun c -> string_of_int (int_of_n c)) l)
let str_in cps = List.map (fun x -> n_of_int (int_of_string x)) cps
let stv_out = function Crash -> "CRASH" | Ok None -> "NONE" | Ok (Some v) -> "=" ^ str_out v

let () =
  try
    while true do
      let line = input_line stdin in
      let parts = List.filter (fun x -> x <> "") (String.split_on_char ' ' line) in
      match parts with
      | "S" :: cps -> print_endline (str_out (hstring (str_in cps)))
      | "U" :: cps -> print_endline (str_out (hstring_uri (str_in cps)))
      | "V" :: cps -> (match hstringvalue (str_in cps) with Crash -> print_endline "CRASH" | Ok v -> print_endline ("=" ^ str_out v))
      | "T" :: cps ->
        let t = { ty = []; raw = []; val0 = str_in cps; line = O; col = O } in
        print_endline (stv_out (stringtokenvalue (Some t)))
      | "F" :: fs :: cps ->
        (match first_token true (fs = "1") (str_in cps) with
         | None -> print_endline "NONE"
         | Some t -> print_endline (Printf.sprintf "%s|%s|%s" (str_out t.ty) (str_out t.val0) (stv_out (stringtokenvalue (Some t)))))
      | _ -> print_endline "BAD"
    done
  with End_of_file -> ()
