(* line protocol:  <dc> <fs> <cp> <cp> ...   ->   one line: NONE | tokens "ty|val|raw|line|col" joined by ";" with strings as cps joined by "," *)
open Tok_model

let rec pos_of_int n = if n = 1 then XH else if n land 1 = 0 then XO (pos_of_int (n lsr 1)) else XI (pos_of_int (n lsr 1))
let n_of_int n = if n = 0 then N0 else Npos (pos_of_int n)
let rec int_of_pos = function XH -> 1 | XO p -> 2 * int_of_pos p | XI p -> 2 * int_of_pos p + 1
let int_of_n = function N0 -> 0 | Npos p -> int_of_pos p
let rec int_of_nat = function O -> 0 | S n -> 1 + int_of_nat n
let str_out l = String.concat "," (List.map (fun c -> string_of_int (int_of_n c)) l)

let () =
  try
    while true do
      let line = input_line stdin in
      let parts = List.filter (fun x -> x <> "") (String.split_on_char ' ' line) in
      match parts with
      | dc :: fs :: cps ->
        let text = List.map (fun x -> n_of_int (int_of_string x)) cps in
        (match tokenize (dc = "1") (fs = "1") text with
         | None -> print_endline "NONE"
         | Some toks ->
           print_endline (String.concat ";" (List.map (fun t ->
               Printf.sprintf "%s|%s|%s|%d|%d" (str_out t.ty) (str_out t.val0) (str_out t.raw)
                 (int_of_nat t.line) (int_of_nat t.col)) toks)))
      | _ -> print_endline "BAD"
    done
  with End_of_file -> ()
