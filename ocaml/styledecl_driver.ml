(* line protocol of the CSSStyleDeclaration model (one history per line; fields separated by ';'):
     RO ; PROBES ; INIT ; OP ; OP ; ...
   strings = decimal code points joined by ',' ("-" = empty string); lists are space separated ("" = empty)
     INIT / items of `st`:   D:<lit>:<val>:<imp>   C:<n>   U:<n>
     OP:  set R raw lit nok V P N X | setp R wf lit val imp N X | rm raw N | si R raw lit nok V P | di raw
          | sa R dom V | da dom | st R malformed item... | stt R text run=item...
          (R raising, N normalize, X replace: 0/1;  V: E | B | <n>;  P: N | I | B)
     TODOM <str>   (a line of this form answers with toDOM of the string)
   answer: one line, steps joined by '|', each  <outcome>#<items>#<keys>#<len>#<item(i)...>#<iter>#<eff>#<all>#<probe>/<probe>... *)
open Styledecl_model

let rec pos_of_int n = if n = 1 then XH else if n land 1 = 0 then XO (pos_of_int (n lsr 1)) else XI (pos_of_int (n lsr 1))
let n_of_int n = if n = 0 then N0 else Npos (pos_of_int n)
let rec int_of_pos = function XH -> 1 | XO p -> 2 * int_of_pos p | XI p -> 2 * int_of_pos p + 1
let int_of_n = function N0 -> 0 | Npos p -> int_of_pos p
let rec int_of_nat = function O -> 0 | S n -> 1 + int_of_nat n

let str_in x = if x = "-" then [] else List.map (fun c -> n_of_int (int_of_string c)) (String.split_on_char ',' x)
let str_out l = if l = [] then "-" else String.concat "," (List.map (fun c -> string_of_int (int_of_n c)) l)
let words x = List.filter (fun w -> w <> "") (String.split_on_char ' ' x)
let b x = (x = "1")
let bo x = if x then "1" else "0"

let parsed_in w =
  match String.split_on_char ':' w with
  | ["D"; l; v; i] -> DDecl (str_in l, n_of_int (int_of_string v), b i)
  | ["C"; n] -> DComment (n_of_int (int_of_string n))
  | ["U"; n] -> DUnknown (n_of_int (int_of_string n))
  | _ -> failwith ("bad item " ^ w)

let valarg_in = function "E" -> VEmpty | "B" -> VBad | v -> VOk (n_of_int (int_of_string v))
let prio_in = function "N" -> PNone | "I" -> PImportant | "B" -> PBad | x -> failwith ("bad prio " ^ x)

let op_in f =
  match words f with
  | ["set"; r; raw; lit; nok; v; p; n; x] ->
    OSet (b r, ByName ({ raw0 = str_in raw; plit = str_in lit; nok = b nok }, valarg_in v, prio_in p), b n, b x)
  | ["setp"; r; wf; lit; v; i; n; x] ->
    let l = str_in lit in
    OSet (b r, ByProp (b wf, { lit = l; name = norm_i l; value = n_of_int (int_of_string v); imp = b i }), b n, b x)
  | ["rm"; raw; n] -> ORemove (str_in raw, b n)
  | ["si"; r; raw; lit; nok; v; p] ->
    OSetItem (b r, { raw0 = str_in raw; plit = str_in lit; nok = b nok }, valarg_in v, prio_in p)
  | ["di"; raw] -> ODelItem (str_in raw)
  | ["sa"; r; dom; v] -> OSetAttr (b r, str_in dom, valarg_in v)
  | ["da"; dom] -> ODelAttr (str_in dom)
  | "st" :: r :: m :: items -> OSetText (b r, List.map parsed_in items, b m)
  | "stt" :: r :: text :: tbl ->
    (* style.cssText = text through tokenizer + declaration-block skeleton; tbl: <run text>=<item or X> *)
    let entry w = match String.index_opt w '=' with
      | Some i -> let k = String.sub w 0 i and v = String.sub w (i + 1) (String.length w - i - 1) in
        (str_in k, if v = "X" then None else Some (parsed_in v))
      | None -> failwith ("bad table entry " ^ w) in
    (match settext_of_string_i (List.map entry tbl) (b r) (str_in text) with
     | Some o -> o
     | None -> failwith "tokenizer model stuck")
  | _ -> failwith ("bad op " ^ f)

let prop_out p = Printf.sprintf "%s:%s:%d:%s" (str_out p.lit) (str_out p.name) (int_of_n p.value) (bo p.imp)
let item_out = function
  | IProp p -> "P:" ^ prop_out p
  | IComment c -> "C:" ^ string_of_int (int_of_n c)
  | IUnknown u -> "U:" ^ string_of_int (int_of_n u)
let ret_out = function RNone -> "N" | REmpty -> "E" | RVal v -> "V" ^ string_of_int (int_of_n v)
let exn_out = function ESyntax -> "Syntax" | EReadonly -> "Readonly" | EAttr -> "Attr" | ECrash -> "Crash"
let outcome_out = function Done (_, r) -> "D:" ^ ret_out r | Raised e -> "X:" ^ exn_out e
let oprop_out = function None -> "None" | Some (i, p) -> string_of_int (int_of_nat i) ^ ":" ^ prop_out p
let oprops l = String.concat " " (List.map oprop_out l)
let probe_out p =
  String.concat "~" [ ret_out p.po_val_n; ret_out p.po_val_l; bo p.po_pri_n; bo p.po_pri_l; bo p.po_in;
                      oprops p.po_gp; oprops p.po_gp_all;
                      (match p.po_attr with None -> "X" | Some r -> ret_out r) ]
let obs_out o =
  String.concat "#" [ String.concat " " (List.map item_out o.o_items);
                      String.concat " " (List.map str_out o.o_keys);
                      string_of_int (int_of_nat o.o_len);
                      String.concat " " (List.map str_out o.o_item);
                      oprops o.o_iter; oprops o.o_eff; oprops o.o_all;
                      String.concat "/" (List.map probe_out o.o_probe) ]

let () =
  try
    while true do
      let line = input_line stdin in
      (try
         match String.split_on_char ';' line with
         | [one] when String.length one > 6 && String.sub one 0 6 = "TODOM " ->
           print_endline (str_out (toDOM (str_in (String.sub one 6 (String.length one - 6)))))
         | ro :: probes :: init :: ops ->
           let b0 = List.map (fun w -> mk_item_i (parsed_in w)) (words init) in
           let tr = trace_i (b ro) (List.map str_in (words probes)) (List.map op_in ops) b0 in
           print_endline (String.concat "|" (List.map (fun (r, o) -> outcome_out r ^ "#" ^ obs_out o) tr))
         | _ -> print_endline "BAD"
       with Failure m -> print_endline ("BAD " ^ m))
    done
  with End_of_file -> ()
