(* line protocol (C02):   <layout: naturals joined by ","> TAB <sheet AST in prefix words, see harness/props/c02.py>
   -> one line, TAB separated:
        text (code points joined by ",")
        flags "<tokenize_render_ok> <selectors_ok> <well_ordered> <selectors declared> <delimited> <comments inert>
               <order machine keeps every rule> <wf_sheet>"   (0/1 each)
        expected_model sh                 as JSON
        expected_model_nocomments sh      as JSON
        render sh lay                     as "type:value" pairs joined by ";" (code points joined by ",")
   or  BAD <reason>.   Strings inside the AST are "=" followed by code points joined by ",".          *)
open Grammar_model

let rec pos_of_int n = if n = 1 then XH else if n land 1 = 0 then XO (pos_of_int (n lsr 1)) else XI (pos_of_int (n lsr 1))
let n_of_int n = if n = 0 then N0 else Npos (pos_of_int n)
let rec int_of_pos = function XH -> 1 | XO p -> 2 * int_of_pos p | XI p -> 2 * int_of_pos p + 1
let int_of_n = function N0 -> 0 | Npos p -> int_of_pos p
let rec nat_of_int n = if n <= 0 then O else S (nat_of_int (n - 1))
let str_out l = String.concat "," (List.map (fun c -> string_of_int (int_of_n c)) l)
let str_in x = List.map (fun c -> n_of_int (int_of_string c)) (List.filter (fun c -> c <> "") (String.split_on_char ',' x))

(* ---- JSON *)
let json_str b l =
  Buffer.add_char b '"';
  List.iter (fun c ->
      let c = int_of_n c in
      if c >= 32 && c < 127 && c <> 34 && c <> 92 then Buffer.add_char b (Char.chr c)
      else if c < 0x10000 then Buffer.add_string b (Printf.sprintf "\\u%04x" c)
      else let d = c - 0x10000 in
        Buffer.add_string b (Printf.sprintf "\\u%04x\\u%04x" (0xd800 + (d lsr 10)) (0xdc00 + (d land 0x3ff)))) l;
  Buffer.add_char b '"'
let rec json b = function
  | JS v -> json_str b v
  | JN n -> Buffer.add_string b (string_of_int (int_of_n n))
  | JL l -> Buffer.add_char b '['; List.iteri (fun i x -> if i > 0 then Buffer.add_char b ','; json b x) l; Buffer.add_char b ']'
let json_of x = let b = Buffer.create 256 in json b x; Buffer.contents b

(* ---- AST reader *)
let words = ref [||]
let pos = ref 0
let next () = if !pos >= Array.length !words then failwith "eol" else (let w = !words.(!pos) in incr pos; w)
let rd_str () = let w = next () in if w.[0] <> '=' then failwith ("str " ^ w) else str_in (String.sub w 1 (String.length w - 1))
let rd_int () = let w = next () in try int_of_string w with _ -> failwith ("int " ^ w)
let rd_nat () = nat_of_int (rd_int ())
let rd_n () = n_of_int (rd_int ())
let rd_list f = let n = rd_int () in List.init n (fun _ -> f ())
let rd_bool () = next () = "1"
let rd_opt f = match next () with "N" -> None | "Y" -> Some (f ()) | w -> failwith ("opt " ^ w)

(* selectors: the reader of ocaml/selector_driver.ml (C16), same word format *)
let rd_wtok () = match next () with "S" -> WS (rd_str ()) | "C" -> WC (rd_str ()) | w -> failwith ("wtok " ^ w)
let rd_wsl () = rd_list rd_wtok
let rd_cm () = rd_list rd_str
let rd_nsq () = match next () with "ND" -> NsDefault | "NA" -> NsAny | "NN" -> NsNo | "NP" -> NsP (rd_str ()) | w -> failwith ("nsq " ^ w)
let rd_op () = match next () with "EQ" -> OpEq | "IN" -> OpIncl | "DA" -> OpDash | "PR" -> OpPre | "SU" -> OpSuf | "SB" -> OpSub | w -> failwith ("op " ^ w)
let rd_attr () =
  let w1 = rd_wsl () in let q = rd_nsq () in let n = rd_str () in let w2 = rd_wsl () in
  let rest = match next () with
    | "R0" -> None
    | "R1" -> let o = rd_op () in let w3 = rd_wsl () in
      let v = (match next () with "VI" -> AvI (rd_str ()) | "VS" -> AvS (rd_str ()) | w -> failwith ("attv " ^ w)) in
      let w4 = rd_wsl () in Some (((o, w3), v), w4)
    | w -> failwith ("rest " ^ w) in
  { at_w1 = w1; at_ns = q; at_name = n; at_w2 = w2; at_rest = rest }
let rd_etok () = match next () with
  | "E+" -> EPlus | "E-" -> EMinus | "ED" -> EDim (rd_str ()) | "EN" -> ENum (rd_str ()) | "ES" -> EStr (rd_str ())
  | "EI" -> EId (rd_str ()) | w -> failwith ("etok " ^ w)
let rd_pseudo () = match next () with
  | "PI" -> let d = rd_bool () in PsId (d, rd_str ())
  | "PF" -> let d = rd_bool () in let n = rd_str () in let w = rd_wsl () in
    let e = rd_list (fun () -> let t = rd_etok () in let w = rd_wsl () in (t, w)) in PsFn (d, n, w, e)
  | w -> failwith ("pseudo " ^ w)
let rd_negarg () = match next () with
  | "NT" -> let q = rd_nsq () in NaType (q, rd_str ()) | "NU" -> NaUniv (rd_nsq ()) | "NH" -> NaHash (rd_str ())
  | "NC" -> NaClass (rd_str ()) | "NAT" -> NaAttr (rd_attr ()) | "NPS" -> NaPseudo (rd_pseudo ()) | w -> failwith ("negarg " ^ w)
let rd_simple () = match next () with
  | "SH" -> SHash (rd_str ()) | "SC" -> SClass (rd_str ()) | "SA" -> SAttr (rd_attr ()) | "SP" -> SPseudo (rd_pseudo ())
  | "SN" -> let w1 = rd_wsl () in let a = rd_negarg () in let w2 = rd_wsl () in SNot (w1, a, w2)
  | w -> failwith ("simple " ^ w)
let rd_head () = match next () with
  | "H0" -> HNone | "HT" -> let q = rd_nsq () in HType (q, rd_str ()) | "HU" -> HUniv (rd_nsq ()) | w -> failwith ("head " ^ w)
let rd_compound () =
  let h = rd_head () in
  let r = rd_list (fun () -> let c = rd_cm () in let x = rd_simple () in (c, x)) in
  let pe = match next () with "P0" -> None | "P1" -> let c = rd_cm () in Some (c, rd_pseudo ()) | w -> failwith ("pe " ^ w) in
  { c_head = h; c_rest = r; c_pe = pe }
let rd_comb () = match next () with
  | "CD" -> let w1 = rd_wsl () in let sp = rd_str () in CDesc (w1, sp, rd_wsl ())
  | "CC" -> let w1 = rd_wsl () in CChild (w1, rd_wsl ()) | "CA" -> let w1 = rd_wsl () in CAdj (w1, rd_wsl ())
  | "CS" -> let w1 = rd_wsl () in CSib (w1, rd_wsl ()) | w -> failwith ("comb " ^ w)
let rd_selector () =
  let l = rd_wsl () in let f = rd_compound () in
  let m = rd_list (fun () -> let c = rd_comb () in let x = rd_compound () in (c, x)) in
  let t = rd_wsl () in { s_lead = l; s_first = f; s_more = m; s_trail = t }

(* values *)
let rd_num () = let sg = rd_nat () in let i = rd_str () in let f = rd_opt rd_str in { nsign = sg; nint = i; nfrac = f }
let rd_cterm () = match next () with
  | "CN" -> CtN (rd_num ()) | "CD" -> let n = rd_num () in CtD (n, rd_str ()) | "CP" -> CtP (rd_num ()) | w -> failwith ("cterm " ^ w)
let rd_cop () = match next () with "+" -> OAdd | "-" -> OSub | "*" -> OMul | "/" -> ODiv | w -> failwith ("cop " ^ w)
let rec rd_term () = match next () with
  | "I" -> TmIdent (rd_str ()) | "N" -> TmNum (rd_num ()) | "D" -> let n = rd_num () in TmDim (n, rd_str ())
  | "P" -> TmPct (rd_num ()) | "S" -> let g = rd_nat () in TmStr (g, rd_str ()) | "U" -> let g = rd_nat () in TmUrl (g, rd_str ())
  | "H" -> TmHex (rd_str ())
  | "RGB" -> let g0 = rd_nat () in let r = rd_n () in let g1 = rd_nat () in let g2 = rd_nat () in let g = rd_n () in
    let g3 = rd_nat () in let g4 = rd_nat () in let b = rd_n () in let g5 = rd_nat () in TmRgb (g0, r, g1, g2, g, g3, g4, b, g5)
  | "F" -> let name = rd_str () in let g0 = rd_nat () in let first = rd_term () in
    let more = rd_list (fun () -> let c = rd_nat () in let ga = rd_nat () in let gb = rd_nat () in let t = rd_term () in (((c, ga), gb), t)) in
    let g1 = rd_nat () in TmFunc (name, g0, first, more, g1)
  | "CALC" -> let gc = rd_nat () in let g0 = rd_nat () in let first = rd_cterm () in
    let more = rd_list (fun () -> let o = rd_cop () in let ga = rd_nat () in let gb = rd_nat () in let t = rd_cterm () in (((o, ga), gb), t)) in
    let g1 = rd_nat () in TmCalc (gc, g0, first, more, g1)
  | "UR" -> TmURange (rd_str ())
  | w -> failwith ("term " ^ w)
let rd_sep () = match next () with
  | "SP" -> SepSp (rd_nat ()) | "CO" -> let a = rd_nat () in SepComma (a, rd_nat ()) | "SL" -> let a = rd_nat () in SepSlash (a, rd_nat ())
  | w -> failwith ("sep " ^ w)
let rd_decl () =
  let name = rd_str () in let g1 = rd_nat () in let g2 = rd_nat () in let first = rd_term () in
  let more = rd_list (fun () -> let x = rd_sep () in (x, rd_term ())) in
  let g3 = rd_nat () in let imp = rd_opt (fun () -> let a = rd_nat () in (a, rd_nat ())) in
  { d_name = name; d_g1 = g1; d_g2 = g2; d_first = first; d_more = more; d_g3 = g3; d_imp = imp }
let rd_block () =
  let g0 = rd_nat () in
  let ds = rd_list (fun () -> let d = rd_decl () in let a = rd_nat () in let b = rd_nat () in ((d, a), b)) in
  let gl = rd_nat () in { b_g0 = g0; b_decls = ds; b_last = gl }
let rd_mexpr () =
  let g0 = rd_nat () in let f = rd_str () in let g1 = rd_nat () in
  let v = rd_opt (fun () -> let g = rd_nat () in (g, rd_term ())) in
  let g2 = rd_nat () in { me_g0 = g0; me_feat = f; me_g1 = g1; me_val = v; me_g2 = g2 }
let rd_mquery () =
  let neg = rd_nat () in let gc = rd_nat () in let g0 = rd_nat () in let ty = rd_opt rd_str in
  let ex = rd_list (fun () -> let a = rd_nat () in let c = rd_nat () in let b = rd_nat () in (((a, c), b), rd_mexpr ())) in
  { mq_neg = neg; mq_gcase = gc; mq_g0 = g0; mq_type = ty; mq_exprs = ex }
let rd_mlist () = rd_list (fun () -> let a = rd_nat () in let b = rd_nat () in ((a, b), rd_mquery ()))
let rd_strform () = match next () with "FS" -> FStr (rd_nat ()) | "FU" -> FUrl (rd_nat ()) | w -> failwith ("strform " ^ w)
let rd_pagesel () = let n = rd_opt rd_str in let p = rd_opt rd_str in { ps_name = n; ps_pseudo = p }
let rec rd_soup () = match next () with
  | "OI" -> SoId (rd_str ()) | "ON" -> SoNum (rd_num ()) | "OS" -> let g = rd_nat () in SoStr (g, rd_str ())
  | "OP" -> SoParen (rd_list rd_soup) | "OB" -> SoBlock (rd_list rd_soup) | w -> failwith ("soup " ^ w)
let rec rd_stmt () = match next () with
  | "CHARSET" -> SCharset (rd_str ())
  | "IMPORT" -> let gk = rd_nat () in let g0 = rd_nat () in let f = rd_strform () in let href = rd_str () in
    let media = rd_opt (fun () -> let g = rd_nat () in (g, rd_mlist ())) in
    let name = rd_opt (fun () -> let a = rd_nat () in let q = rd_nat () in ((a, q), rd_str ())) in
    let g1 = rd_nat () in SImport (gk, g0, f, href, media, name, g1)
  | "NS" -> let gk = rd_nat () in let g0 = rd_nat () in
    let p = rd_opt (fun () -> let x = rd_str () in (x, rd_nat ())) in
    let f = rd_strform () in let uri = rd_str () in let g1 = rd_nat () in SNamespace (gk, g0, p, f, uri, g1)
  | "MEDIA" -> let gk = rd_nat () in let g0 = rd_nat () in let ml = rd_mlist () in let g1 = rd_nat () in let g2 = rd_nat () in
    let body = rd_list (fun () -> let x = rd_stmt () in (x, rd_nat ())) in SMedia (gk, g0, ml, g1, g2, body)
  | "PAGE" -> let gk = rd_nat () in let g0 = rd_nat () in let ps = rd_pagesel () in let g1 = rd_nat () in let b = rd_block () in
    let ms = rd_list (fun () -> let n = rd_str () in let a = rd_nat () in let mb = rd_block () in let g = rd_nat () in (((n, a), mb), g)) in
    SPage (gk, g0, ps, g1, b, ms)
  | "FF" -> let gk = rd_nat () in let g0 = rd_nat () in SFontFace (gk, g0, rd_block ())
  | "STYLE" -> let sels = rd_list rd_selector in SStyle (sels, rd_block ())
  | "UNK" -> let kw = rd_str () in let g0 = rd_nat () in let pre = rd_list rd_soup in
    let body = rd_opt (fun () -> rd_list rd_soup) in SUnknown (kw, g0, pre, body)
  | "COMMENT" -> SComment (rd_str ())
  | w -> failwith ("stmt " ^ w)
let rd_sheet () = rd_list (fun () -> let x = rd_stmt () in (x, rd_nat ()))

let b2s b = if b then "1" else "0"

let () =
  try
    while true do
      let line = input_line stdin in
      (try
        match String.split_on_char '\t' line with
        | [lay; ast] ->
          let lay = List.map (fun x -> nat_of_int (int_of_string x)) (List.filter (fun x -> x <> "") (String.split_on_char ',' lay)) in
          words := Array.of_list (List.filter (fun x -> x <> "") (String.split_on_char ' ' ast)); pos := 0;
          let sh = rd_sheet () in
          if !pos <> Array.length !words then failwith "trailing words";
          let toks = g_render sh lay in
          Printf.printf "%s\t%s %s %s %s %s %s %s %s\t%s\t%s\t%s\n" (str_out (g_text_of toks))
            (b2s (g_tok_ok sh lay)) (b2s (g_sel_ok sh)) (b2s (g_well_ordered sh)) (b2s (g_declared sh))
            (b2s (g_delimited sh lay)) (b2s (g_inert sh lay)) (b2s (g_order sh lay)) (b2s (g_wf sh))
            (json_of (g_expected sh)) (json_of (g_expected_nc sh))
            (String.concat ";" (List.map (fun t -> str_out t.ty ^ ":" ^ str_out t.val0) toks))
        | _ -> print_endline "BAD format"
      with Failure m -> print_endline ("BAD " ^ m) | Invalid_argument m -> print_endline ("BAD " ^ m)
         | Not_found -> print_endline "BAD notfound")
    done
  with End_of_file -> ()
