(* line protocol (strings = decimal code points joined by ","; "-" = empty string):
     S <val>                         -> RAISE IndexError | OK <cps>          strval (Some token with that value)
     C <ty>|<val>;<ty>|<val>;...     -> RAISE .. | <wf 0/1> <encoding cps or NONE>      charset_rule
     D <same>                        -> the pinned charset_rule
     K <fn 0..3> <n>                 -> RAISE .. | NONE | OK                 color_fn on n components
     L <fn> <n>                      -> the pinned color_fn
     Q <dc> <fs> <text>              -> for every STRING token of tokenize: "1" if strval returns else "0"; NONE if stuck *)
open Parsetotal_model

let rec pos_of_int n = if n = 1 then XH else if n land 1 = 0 then XO (pos_of_int (n lsr 1)) else XI (pos_of_int (n lsr 1))
let n_of_int n = if n = 0 then N0 else Npos (pos_of_int n)
let rec int_of_pos = function XH -> 1 | XO p -> 2 * int_of_pos p | XI p -> 2 * int_of_pos p + 1
let int_of_n = function N0 -> 0 | Npos p -> int_of_pos p
let rec nat_of_int n = if n = 0 then O else S (nat_of_int (n - 1))
let str_in x = if x = "-" || x = "" then [] else List.map (fun c -> n_of_int (int_of_string c)) (String.split_on_char ',' x)
let str_out l = if l = [] then "-" else String.concat "," (List.map (fun c -> string_of_int (int_of_n c)) l)
let exn_out = function IndexError -> "IndexError" | TypeError -> "TypeError" | ValueError -> "ValueError"
let tok_in x = match String.split_on_char '|' x with
  | [t; v] -> { ty = str_in t; raw = str_in v; val0 = str_in v; line = O; col = O }
  | _ -> failwith "tok"
let toks_in x = if x = "" then [] else List.map tok_in (String.split_on_char ';' x)
let cfn_in = function "0" -> Rgb | "1" -> Rgba | "2" -> Hsl | _ -> Hsla
let rec range n = if n = 0 then [] else nat_of_int n :: range (n - 1)
let string_ty = List.map (fun c -> n_of_int (Char.code c)) ['S';'T';'R';'I';'N';'G']

let cs_out = function
  | Raised e -> "RAISE " ^ exn_out e
  | OutOfFuel -> "FUEL"
  | Returned r -> (if r.cs_wellformed then "1 " else "0 ") ^
                  (match r.cs_encoding with None -> "NONE" | Some e -> str_out e)
let col_out = function
  | Raised e -> "RAISE " ^ exn_out e
  | OutOfFuel -> "FUEL"
  | Returned None -> "NONE"
  | Returned (Some _) -> "OK"

let () =
  try
    while true do
      let line = input_line stdin in
      let parts = String.split_on_char ' ' line in
      (match parts with
       | ["S"; v] ->
         (match strval (Some { ty = string_ty; raw = str_in v; val0 = str_in v; line = O; col = O }) with
          | Raised e -> print_endline ("RAISE " ^ exn_out e)
          | Returned (Some r) -> print_endline ("OK " ^ str_out r)
          | _ -> print_endline "BAD")
       | ["C"; ts] -> print_endline (cs_out (charset_rule (toks_in ts)))
       | ["C"] -> print_endline (cs_out (charset_rule []))
       | ["D"; ts] -> print_endline (cs_out (charset_rule_pinned (toks_in ts)))
       | ["K"; f; n] -> print_endline (col_out (color_fn (fun _ _ _ -> [O; O; O]) O (cfn_in f) (range (int_of_string n))))
       | ["L"; f; n] -> print_endline (col_out (color_fn_pinned (fun _ _ _ -> [O; O; O]) O (cfn_in f) (range (int_of_string n))))
       | "Q" :: dc :: fs :: cps ->
         let text = List.map (fun x -> n_of_int (int_of_string x)) (List.filter (fun x -> x <> "") cps) in
         (match tokenize (dc = "1") (fs = "1") text with
          | None -> print_endline "NONE"
          | Some toks ->
            print_endline (String.concat "" (List.map (fun t ->
                if t.ty = string_ty then (match strval (Some t) with Returned (Some _) -> "1" | _ -> "0") else "") toks)))
       | _ -> print_endline "BAD")
    done
  with End_of_file -> ()
