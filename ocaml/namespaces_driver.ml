(* line protocol (tokens separated by blanks; strings = code points joined by ',' ; '-' = empty string):
     stmts '|' ops
   stmt:  N p u | S k item*k | M m (k item*k)*m | H | C        item:  s kind form name | o
          kind t/u/a/n    form  - (none) e (|x) * (any) p:<cps>
   op:    set p u | del p | addo p u | inso p u i | addt p u | inst p u i | delr i
          rep addr i item | ltx addr k item*k | app addr item | dli addr i | ins idx k item*k | inn m idx k item*k | dst addr
          addr  t:<r> | m:<r>:<j>     idx  <n> | -
   output: states joined by TAB; first after parse, then after every op:
          outcome # rules # view # forms # reparsed rules *)
open Namespaces_model

let rec pos_of_int n = if n = 1 then XH else if n land 1 = 0 then XO (pos_of_int (n lsr 1)) else XI (pos_of_int (n lsr 1))
let n_of_int n = if n = 0 then N0 else Npos (pos_of_int n)
let rec int_of_pos = function XH -> 1 | XO p -> 2 * int_of_pos p | XI p -> 2 * int_of_pos p + 1
let int_of_n = function N0 -> 0 | Npos p -> int_of_pos p
let rec nat_of_int n = if n <= 0 then O else S (nat_of_int (n - 1))
let str_in t = if t = "-" then [] else List.map (fun x -> n_of_int (int_of_string x)) (String.split_on_char ',' t)
let str_out l = String.concat "" (List.map (fun c -> String.make 1 (Char.chr (int_of_n c))) l)

let kind_in = function "t" -> KType | "u" -> KUniv | "a" -> KAttr | _ -> KNeg
let form_in t = if t = "-" then FNone else if t = "e" then FEmpty else if t = "*" then FStar
  else FPfx (str_in (String.sub t 2 (String.length t - 2)))

let rec take_items k toks acc =
  if k = 0 then (List.rev acc, toks) else
  match toks with
  | "o" :: r -> take_items (k - 1) r (POther :: acc)
  | "s" :: kd :: f :: n :: r -> take_items (k - 1) r (PSel (kind_in kd, form_in f, str_in n) :: acc)
  | _ -> failwith "item"
let rec take_rules m toks acc =
  if m = 0 then (List.rev acc, toks) else
  match toks with
  | k :: r -> let (its, r') = take_items (int_of_string k) r [] in take_rules (m - 1) r' (its :: acc)
  | _ -> failwith "rules"
let rec stmts toks acc =
  match toks with
  | [] -> (List.rev acc, [])
  | "|" :: r -> (List.rev acc, r)
  | "N" :: p :: u :: r -> stmts r (SNs (str_in p, str_in u) :: acc)
  | "S" :: k :: r -> let (its, r') = take_items (int_of_string k) r [] in stmts r' (SStyle its :: acc)
  | "M" :: m :: r -> let (rs, r') = take_rules (int_of_string m) r [] in stmts r' (SMedia rs :: acc)
  | "H" :: r -> stmts r (SCharset :: acc)
  | "C" :: r -> stmts r (SComment :: acc)
  | _ -> failwith "stmt"
let addr_in t =
  match String.split_on_char ':' t with
  | ["t"; r] -> ATop (nat_of_int (int_of_string r))
  | ["m"; r; j] -> AIn (nat_of_int (int_of_string r), nat_of_int (int_of_string j))
  | _ -> failwith "addr"
let idx_in t = if t = "-" then None else Some (nat_of_int (int_of_string t))
let one_item toks = match take_items 1 toks [] with ([it], r) -> (it, r) | _ -> failwith "one item"
let rec ops toks acc =
  match toks with
  | [] -> List.rev acc
  | "set" :: p :: u :: r -> ops r (MN (OSet (str_in p, str_in u)) :: acc)
  | "del" :: p :: r -> ops r (MN (ODel (str_in p)) :: acc)
  | "addo" :: p :: u :: r -> ops r (MN (OAddObj (str_in p, str_in u)) :: acc)
  | "inso" :: p :: u :: i :: r -> ops r (MN (OInsObj (str_in p, str_in u, nat_of_int (int_of_string i))) :: acc)
  | "addt" :: p :: u :: r -> ops r (MN (OAddText (str_in p, str_in u)) :: acc)
  | "inst" :: p :: u :: i :: r -> ops r (MN (OInsText (str_in p, str_in u, nat_of_int (int_of_string i))) :: acc)
  | "delr" :: i :: r -> ops r (MN (ODelRule (nat_of_int (int_of_string i))) :: acc)
  | "rep" :: a :: i :: r -> let (it, r') = one_item r in
      ops r' (MS (SReplace (addr_in a, nat_of_int (int_of_string i), it)) :: acc)
  | "ltx" :: a :: k :: r -> let (its, r') = take_items (int_of_string k) r [] in
      ops r' (MS (SListText (addr_in a, its)) :: acc)
  | "app" :: a :: r -> let (it, r') = one_item r in ops r' (MS (SAppend (addr_in a, it)) :: acc)
  | "dli" :: a :: i :: r -> ops r (MS (SDelItem (addr_in a, nat_of_int (int_of_string i))) :: acc)
  | "ins" :: i :: k :: r -> let (its, r') = take_items (int_of_string k) r [] in
      ops r' (MS (SInsStyle (its, idx_in i)) :: acc)
  | "inn" :: m :: i :: k :: r -> let (its, r') = take_items (int_of_string k) r [] in
      ops r' (MS (SInsInner (nat_of_int (int_of_string m), its, idx_in i)) :: acc)
  | "dst" :: a :: r -> ops r (MS (SDelStyle (addr_in a)) :: acc)
  | _ -> failwith "op"

let uri_out = function UNone -> "None" | UAny -> "ANY" | UStr u -> "'" ^ str_out u ^ "'"
let kind_out = function KType -> "t" | KUniv -> "u" | KAttr -> "a" | KNeg -> "n"
let item_out = function
  | IPair (k, u, n) -> [kind_out k ^ ":" ^ uri_out u ^ ":" ^ str_out n]
  | IAttr n -> ["A:" ^ str_out n]
  | IOther -> []
let items_out l = String.concat "," (List.concat (List.map item_out l))
let nsitem_out = function NPrefix p -> "P=" ^ str_out p | NUri u -> "U=" ^ str_out u | NComment -> "C"
let rule_out = function
  | RNs r -> "N(" ^ str_out r.prefix ^ ";" ^ str_out r.uri ^ ";" ^ String.concat "," (List.map nsitem_out r.items) ^ ")"
  | RStyle its -> "S(" ^ items_out its ^ ")"
  | RMedia rs -> "M(" ^ String.concat "" (List.map (fun its -> "S(" ^ items_out its ^ ")") rs) ^ ")"
  | RCharset -> "H"
  | RComment -> "C"
let sheet_out sh = String.concat " " (List.map rule_out sh)
let view_out d = String.concat "," (List.map (fun (p, u) -> str_out p ^ "=" ^ str_out u) d)
let form_out = function FNone -> "" | FEmpty -> "|" | FStar -> "*|" | FPfx p -> str_out p ^ "|"
let pitem_out = function
  | POther -> []
  | PSel (KAttr, f, n) -> ["[" ^ form_out f ^ str_out n ^ "]"]
  | PSel (KNeg, f, n) -> [":not(" ^ form_out f ^ str_out n ^ ")"]
  | PSel (_, f, n) -> [form_out f ^ str_out n]
let pitems_out l = "[" ^ String.concat "," (List.concat (List.map pitem_out l)) ^ "]"
let stmt_forms = function
  | SStyle l -> [pitems_out l]
  | SMedia rs -> List.map pitems_out rs
  | _ -> []
let err_out = function EIndex -> "IndexSizeErr" | EHier -> "HierarchyRequestErr" | ENoMod -> "NoModificationAllowedErr"
  | ENamespace -> "NamespaceErr" | ESyntax -> "SyntaxErr"
let outcome_out = function Ok -> "ok" | Skip -> "skip" | Raise e -> err_out e
let state_out oc sh =
  outcome_out oc ^ " # " ^ sheet_out sh ^ " # " ^ view_out (view sh) ^ " # " ^
  String.concat "" (List.concat (List.map stmt_forms (ser sh))) ^ " # " ^ sheet_out (reparse sh)

let () =
  try
    while true do
      let line = input_line stdin in
      let toks = List.filter (fun x -> x <> "") (String.split_on_char ' ' line) in
      (try
        let (ss, rest) = stmts toks [] in
        let os = ops rest [] in
        let (sh0, oc0) = parse ss in
        let out = ref [state_out oc0 sh0] in
        let cur = ref sh0 in
        List.iter (fun o -> let (sh', oc) = mstep o !cur in cur := sh'; out := state_out oc sh' :: !out) os;
        print_endline (String.concat "\t" (List.rev !out))
      with Failure m -> print_endline ("BAD " ^ m))
    done
  with End_of_file -> ()
