(* line protocol (one history = reset, then steps; only `dump` prints):
     reset
     alloc <kind> <pr> <pss> <par> <own>      (-1 = None)
     attach <site> <p> <c> <idx>
     detach <dsite> <p> <i>
     drop <role> <p> <i>
     post <p> <c>
     dump    ->  objects joined by ';', each  kind,pr,pss,par,own,acc_parent,acc_pss|role:id role:id ...
                 (acc_pss: -1 None, -2 recursion does not end within fuel = heap size) *)
open Links_model

let rec nat_of_int n = if n <= 0 then O else S (nat_of_int (n - 1))
let rec int_of_nat = function O -> 0 | S n -> 1 + int_of_nat n
let opt_of_int n = if n < 0 then None else Some (nat_of_int n)
let int_of_opt = function None -> -1 | Some n -> int_of_nat n

let kinds = [| KSheet; KRule; KDecl; KProp; KPV; KValue; KSelList; KSelector; KMediaList |]
let roles = [| RTop; RSub; RStyle; RSelList; RMedia; RImported; RItem; RPV |]
let sites = [| SSheetInsert; SContInsert; SSetStyle; SSetSelList; SSetMedia; SSetImported; SDeclAppend;
               SSelAppend; SPropPV; SPVItem; SValItem |]
let dsites = [| DSheetDelete; DContDelete |]
let index_of arr x = let r = ref (-1) in Array.iteri (fun i y -> if y = x then r := i) arr; !r

let dump h =
  let fuel = nat_of_int (List.length h) in
  String.concat ";" (List.map (fun o ->
      let accpss = match acc_parentStyleSheet fuel h o with None -> -2 | Some v -> int_of_opt v in
      Printf.sprintf "%d,%d,%d,%d,%d,%d,%d|%s" (index_of kinds o.okind) (int_of_opt o.f_pr) (int_of_opt o.f_pss)
        (int_of_opt o.f_par) (int_of_opt o.f_own) (int_of_opt (acc_parent o)) accpss
        (String.concat " " (List.map (fun (r, c) -> Printf.sprintf "%d:%d" (index_of roles r) (int_of_nat c)) o.kids)))
      h)

let () =
  let h = ref start in
  try
    while true do
      let line = input_line stdin in
      let parts = List.filter (fun x -> x <> "") (String.split_on_char ' ' line) in
      let i k = int_of_string (List.nth parts k) in
      match parts with
      | "reset" :: _ -> h := start
      | "alloc" :: _ -> h := step !h (OAlloc (kinds.(i 1), opt_of_int (i 2), opt_of_int (i 3), opt_of_int (i 4), opt_of_int (i 5)))
      | "attach" :: _ -> h := step !h (OAttach (sites.(i 1), nat_of_int (i 2), nat_of_int (i 3), nat_of_int (i 4)))
      | "detach" :: _ -> h := step !h (ODetach (dsites.(i 1), nat_of_int (i 2), nat_of_int (i 3)))
      | "drop" :: _ -> h := step !h (ODrop (roles.(i 1), nat_of_int (i 2), nat_of_int (i 3)))
      | "post" :: _ -> h := step !h (OPost (nat_of_int (i 1), nat_of_int (i 2)))
      | "dump" :: _ -> print_endline (dump !h)
      | _ -> print_endline "BAD"
    done
  with End_of_file -> ()
