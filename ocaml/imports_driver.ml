(* line protocol of the @import model (C20).
   input : one s-expression per line
     case    ::= (P fuel url urlopt enc src world)          parse_string (+ resolve of the result)
               | (J url url)                                urljoin
     atoms   ::= _ (None / absent) | decimal int | 'cp,cp,... (a string; a lone ' is the empty string)
     url     ::= (str _ ) | (str (scheme netloc path query))
     enc     ::= _ | str
     src     ::= (stropt (item ...))       item ::= (I url media) | (N uri) | (S sel payload) | (C text)
     world   ::= (fetch detect decode parse encnorm)
       fetch   ::= ((urlstr (outcome ...)) ...)    k-th call of that url -> k-th outcome (last one repeats); unknown url -> (0)
       outcome ::= (0) | (1) | (2) | (3 enc (T n)) | (3 enc (B n)) | (4 exn_id)
       detect  ::= (((T n) enc bool) ...)          default (utf-8, false);   bool = 0 | 1
       decode  ::= ((b enc (T n) | (R exn_id)) ...)   default: raises LookupError
       parse   ::= ((n src) ...)
       encnorm ::= ((str stropt) ...)
   output: one JSON value per line; strings are arrays of code points *)
open Imports_model

type sx = A of Stdlib.String.t | L of sx list

let rec pos_of_int n = if n = 1 then XH else if n land 1 = 0 then XO (pos_of_int (n lsr 1)) else XI (pos_of_int (n lsr 1))
let n_of_int n = if n = 0 then N0 else Npos (pos_of_int n)
let rec int_of_pos = function XH -> 1 | XO p -> 2 * int_of_pos p | XI p -> 2 * int_of_pos p + 1
let int_of_n = function N0 -> 0 | Npos p -> int_of_pos p
let rec nat_of_int n = if n = 0 then O else S (nat_of_int (n - 1))

let tokenize line =
  let toks = ref [] and buf = Buffer.create 16 in
  let flush () = if Buffer.length buf > 0 then (toks := Buffer.contents buf :: !toks; Buffer.clear buf) in
  Stdlib.String.iter (fun c ->
      match c with
      | '(' | ')' -> flush (); toks := Stdlib.String.make 1 c :: !toks
      | ' ' | '\t' | '\r' -> flush ()
      | c -> Buffer.add_char buf c) line;
  flush ();
  List.rev !toks

let rec parse_sx toks =
  match toks with
  | "(" :: rest ->
    let rec items acc toks =
      match toks with
      | ")" :: rest -> (L (List.rev acc), rest)
      | [] -> failwith "unbalanced"
      | _ -> let (x, rest) = parse_sx toks in items (x :: acc) rest in
    items [] rest
  | ")" :: _ -> failwith "unexpected )"
  | a :: rest -> (A a, rest)
  | [] -> failwith "empty"

let str_of = function
  | A a when Stdlib.String.length a >= 1 && a.[0] = '\'' ->
    let body = Stdlib.String.sub a 1 (Stdlib.String.length a - 1) in
    if body = "" then [] else List.map (fun x -> n_of_int (int_of_string x)) (Stdlib.String.split_on_char ',' body)
  | _ -> failwith "string expected"
let opt f = function A "_" -> None | x -> Some (f x)
let int_of = function A a -> int_of_string a | _ -> failwith "int expected"
let exn_of x = let i = int_of x in List.find (fun e -> int_of_n (exn_id e) = i) all_exn

let purl_of = function
  | L [a; b; c; d] -> { u_scheme = str_of a; u_netloc = str_of b; u_path = str_of c; u_query = str_of d }
  | _ -> failwith "purl"
let url_of = function
  | L [r; p] -> { raw = str_of r; parsed = opt purl_of p }
  | _ -> failwith "url"
let item_of = function
  | L [A "I"; u; m] -> IImport (url_of u, str_of m)
  | L [A "N"; u] -> INamespace (str_of u)
  | L [A "S"; a; b] -> IStyle (str_of a, str_of b)
  | L [A "C"; t] -> IComment (str_of t)
  | _ -> failwith "item"
let src_of = function
  | L [c; L items] -> { s_charset = opt str_of c; s_items = List.map item_of items }
  | _ -> failwith "src"
let content_of = function
  | L [A "T"; n] -> CText (n_of_int (int_of n))
  | L [A "B"; n] -> CBytes (n_of_int (int_of n))
  | _ -> failwith "content"
let outcome_of = function
  | L [A "0"] -> ONothing
  | L [A "1"] -> OWrongLen
  | L [A "2"] -> ONoContent
  | L [A "3"; e; c] -> OContent (opt str_of e, content_of c)
  | L [A "4"; e] -> ORaise (exn_of e)
  | _ -> failwith "outcome"

let utf8 = List.map (fun c -> n_of_int (Char.code c)) ['u'; 't'; 'f'; '-'; '8']

let world_of = function
  | L [L fetch; L detect; L decode; L parse; L encnorm] ->
    let ftab = List.map (function L [u; L os] -> (str_of u, List.map outcome_of os) | _ -> failwith "fetch") fetch in
    let dtab = List.map (function L [c; e; b] -> (content_of c, (opt str_of e, int_of b = 1)) | _ -> failwith "detect") detect in
    let ctab = List.map (function
        | L [b; e; L [A "T"; n]] -> ((int_of b, opt str_of e), DecText (n_of_int (int_of n)))
        | L [b; e; L [A "R"; x]] -> ((int_of b, opt str_of e), DecRaise (exn_of x))
        | _ -> failwith "decode") decode in
    let ptab = List.map (function L [n; sr] -> (int_of n, src_of sr) | _ -> failwith "parse") parse in
    let etab = List.map (function L [a; b] -> (str_of a, opt str_of b) | _ -> failwith "encnorm") encnorm in
    { fetch = (fun hist u ->
          match List.assoc_opt u ftab with
          | None | Some [] -> ONothing
          | Some os ->
            let k = List.length (List.filter (fun x -> x = u) hist) in
            List.nth os (min k (List.length os - 1)));
      detect = (fun c -> match List.assoc_opt c dtab with Some r -> r | None -> (Some utf8, false));
      decode = (fun b e -> match List.assoc_opt (int_of_n b, e) ctab with Some r -> r | None -> DecRaise E_LookupError);
      parse = (fun n -> match List.assoc_opt (int_of_n n) ptab with Some r -> r | None -> { s_charset = None; s_items = [] });
      enc_norm = (fun e -> match List.assoc_opt e etab with Some r -> r | None -> None) }
  | _ -> failwith "world"

(* ---- output *)
let js l = "[" ^ Stdlib.String.concat "," (List.map (fun c -> string_of_int (int_of_n c)) l) ^ "]"
let jopt f = function None -> "null" | Some x -> f x
let jlist f l = "[" ^ Stdlib.String.concat "," (List.map f l) ^ "]"
let rec jrule = function
  | RCharset e -> Printf.sprintf "[\"charset\",%s]" (js e)
  | RImport (h, m, found, href, rules) ->
    Printf.sprintf "[\"import\",%s,%s,%s,%s,%s]" (js h) (js m) (if found then "true" else "false") (jopt js href)
      (jlist jrule rules)
  | RNamespace u -> Printf.sprintf "[\"ns\",%s]" (js u)
  | RStyle (a, b) -> Printf.sprintf "[\"style\",%s,%s]" (js a) (js b)
  | RComment t -> Printf.sprintf "[\"comment\",%s]" (js t)
let rec jflat = function
  | FComment t -> Printf.sprintf "[\"comment\",%s]" (js t)
  | FImport (h, m) -> Printf.sprintf "[\"import\",%s,%s]" (js h) (js m)
  | FStyle (a, b) -> Printf.sprintf "[\"style\",%s,%s]" (js a) (js b)
  | FNamespace u -> Printf.sprintf "[\"ns\",%s]" (js u)
  | FMedia (m, rules) -> Printf.sprintf "[\"media\",%s,%s]" (js m) (jlist jflat rules)

let run line =
  let (sx, _) = parse_sx (tokenize line) in
  match sx with
  | L [A "P"; fuel; cwd; base; ovr; sr; w] ->
    (match parse_string (nat_of_int (int_of fuel)) (world_of w) (url_of cwd) (opt url_of base) (opt str_of ovr) (src_of sr) with
     | Normal (rules, tr) ->
       Printf.sprintf "{\"r\":\"N\",\"rules\":%s,\"trace\":%s,\"encoding\":%s,\"resolve\":%s,\"kept\":%s,\"resolve_fetcher\":\"%s\"}"
         (jlist jrule rules) (jlist js (List.rev tr)) (js (sheet_encoding rules))
         (jopt (jlist jflat) (resolve rules)) (jlist js (kept_unloaded rules))
         (match resolve_fetcher with Configured -> "configured" | DefaultFetcher -> "default")
     | Escapes (e, tr) -> Printf.sprintf "{\"r\":\"E\",\"exn\":%s,\"trace\":%s}" (js (exn_name e)) (jlist js (List.rev tr))
     | OutOfDepth -> "{\"r\":\"D\"}")
  | L [A "J"; a; b] ->
    (match urljoin (url_of a) (url_of b) with
     | None -> "{\"r\":\"ValueError\"}"
     | Some u -> Printf.sprintf "{\"r\":\"ok\",\"url\":%s,\"parsed\":%s}" (js u.raw)
                   (jopt (fun p -> jlist js [p.u_scheme; p.u_netloc; p.u_path; p.u_query]) u.parsed))
  | _ -> "{\"r\":\"BAD\"}"

let () =
  try
    while true do
      let line = input_line stdin in
      print_endline (try run line with Failure m -> "{\"r\":\"BAD\",\"why\":\"" ^ m ^ "\"}" | Not_found -> "{\"r\":\"BAD\",\"why\":\"notfound\"}")
    done
  with End_of_file -> ()
