(* line protocol (strings are space-separated decimal code points; integers are printed in binary, sign first):
   S <cps>                  the split alone (no normalisation) -> agree|sign|int|frac|unit or agree|NONE
   D <olz> <cps>            DimensionValue(token value) -> cssText -> parse again
        -> agree|NONE   or   agree|REJECT (value overflows binary64: not well-formed)   or   agree|sign|int|frac or -|unit|kind num den|T:cps or C:cps|second parse: sign|unit|kind num den or NONE
   X <num-bits> <den-bits>  dbl_exec (num/den) -> num den
   H <minimize> <cps>       match|rgb or - or CRASH|hash_min cps|rgb of hash_min
   C <cps>                  named colour (name is normalised first) -> r g b num den | NONE
   F <fname cps> ; <N|P> <cps> ; ...      -> INVALID | CRASH | exact r g b a  (each num/den)                        *)
open Numbers_model

let rec pos_of_int n = if n = 1 then XH else if n land 1 = 0 then XO (pos_of_int (n lsr 1)) else XI (pos_of_int (n lsr 1))
let n_of_int n = if n = 0 then N0 else Npos (pos_of_int n)
let rec int_of_pos = function XH -> 1 | XO p -> 2 * int_of_pos p | XI p -> 2 * int_of_pos p + 1
let int_of_n = function N0 -> 0 | Npos p -> int_of_pos p
let str_out l = String.concat " " (List.map (fun c -> string_of_int (int_of_n c)) l)
let str_in cps = List.map (fun x -> n_of_int (int_of_string x)) (List.filter (fun x -> x <> "") cps)

(* binary text of a positive, most significant bit first *)
let bits_of_pos p =
  let b = Buffer.create 64 in
  let rec go p acc = match p with
    | XH -> '1' :: acc
    | XO q -> go q ('0' :: acc)
    | XI q -> go q ('1' :: acc) in
  List.iter (Buffer.add_char b) (go p []); Buffer.contents b
let bits_of_z = function Z0 -> "0" | Zpos p -> bits_of_pos p | Zneg p -> "-" ^ bits_of_pos p
let pos_of_bits s =
  let n = String.length s in
  let rec go i acc = if i >= n then acc else go (i + 1) (if s.[i] = '1' then XI acc else XO acc) in
  go 1 XH
let z_of_bits s =
  if s = "0" then Z0 else if s.[0] = '-' then Zneg (pos_of_bits (String.sub s 1 (String.length s - 1))) else Zpos (pos_of_bits s)
let q_out q = let q = qred q in bits_of_z q.qnum ^ " " ^ bits_of_pos q.qden

let sign_out = function SNone -> "" | SPlus -> "+" | SMinus -> "-"
let val_out = function
  | PyInt z -> "I " ^ bits_of_z z ^ " 1"
  | PyFloat q -> "F " ^ q_out q
  | PyInf -> "INF 0 1"

let split_on_semicolon parts =
  let rec go cur acc = function
    | [] -> List.rev (List.rev cur :: acc)
    | ";" :: r -> go [] (List.rev cur :: acc) r
    | x :: r -> go (x :: cur) acc r in
  go [] [] parts

let () =
  try
    while true do
      let line = input_line stdin in
      let parts = List.filter (fun x -> x <> "") (String.split_on_char ' ' line) in
      (match parts with
       | "S" :: cps ->
         let t = str_in cps in
         let agree = if split_agree t then "1" else "0" in
         (match split_num t with
          | None -> print_endline (agree ^ "|NONE")
          | Some lx -> print_endline (String.concat "|" [agree; sign_out lx.lsign; str_out lx.lint;
                                                         (match lx.lfrac with None -> "-" | Some f -> str_out f);
                                                         str_out lx.lunit]))
       | "D" :: olz :: cps ->
         let t = normalize_u (str_in cps) in
         let agree = if split_agree t then "1" else "0" in
         (match split_num t with
          | None -> print_endline (agree ^ "|NONE")
          | Some lx when to_value dbl_exec lx = PyInf -> print_endline (agree ^ "|REJECT")
          | Some lx ->
            let v = to_value dbl_exec lx in
            let ser = ser_lex dbl_exec (olz = "1") lx in
            let ser_s = (match ser with Text x -> "T:" ^ str_out x | Crash x -> "C:" ^ str_out x) in
            let second = (match ser with
                | Crash _ -> "NONE"
                | Text x ->
                  let t2 = normalize_u x in
                  (match split_num t2 with
                   | None -> "NONE"
                   | Some lx2 when to_value dbl_exec lx2 = PyInf -> "NONE"
                   | Some lx2 -> sign_out lx2.lsign ^ "|" ^ str_out lx2.lunit ^ "|" ^ val_out (to_value dbl_exec lx2))) in
            print_endline (String.concat "|" [agree; sign_out lx.lsign; str_out lx.lint;
                                              (match lx.lfrac with None -> "-" | Some f -> str_out f);
                                              str_out lx.lunit; val_out v; ser_s; second]))
       | ["X"; n; d] ->
         print_endline (q_out (dbl_exec { qnum = z_of_bits n; qden = pos_of_bits d }))
       | "H" :: mz :: cps ->
         let v = str_in cps in
         let rgb_s x = (match hex_rgb x with
             | Some ((r, g), b) -> bits_of_z r ^ " " ^ bits_of_z g ^ " " ^ bits_of_z b
             | None -> "CRASH") in
         let one x = if hexmatch x then rgb_s x else "-" in
         let h = hash_min (mz = "1") v in
         print_endline (String.concat "|" [(if hexmatch v then "1" else "0"); one v; str_out h; one h])
       | "C" :: cps ->
         (match named_color (normalize (str_in cps)) with
          | None -> print_endline "NONE"
          | Some (((r, g), b), a) -> print_endline (String.concat " " [bits_of_z r; bits_of_z g; bits_of_z b; q_out a]))
       | "F" :: rest ->
         (match split_on_semicolon rest with
          | fname :: comps ->
            let parse_comp c = (match c with
                | k :: cps ->
                  (match split_num (normalize_u (str_in cps)) with
                   | Some lx -> let v = to_value dbl_exec lx in Some (if k = "P" then CPct v else CNum v)
                   | None -> None)
                | [] -> None) in
            let cs = List.map parse_comp comps in
            if List.exists (fun x -> x = None) cs then print_endline "BADCOMP"
            else
              let cs = List.map (function Some x -> x | None -> assert false) cs in
              (match fn_color dbl_exec (normalize (str_in fname)) cs with
               | FInvalid -> print_endline "INVALID"
               | FCrash -> print_endline "CRASH"
               | FRgba (r, g, b, a, ex) ->
                 print_endline (String.concat "|" [(if ex then "1" else "0"); q_out r; q_out g; q_out b; q_out a]))
          | [] -> print_endline "BAD")
       | _ -> print_endline "BAD")
    done
  with End_of_file -> ()
