(* line protocol (fields separated by '|', strings = decimal code points separated by spaces, "-" = None):
     D|enc|force|c1;c2;...;last   ->  <one-shot decode of the concatenation> # <result of every incremental call up to the
                                       first one that raises, separated by space-semicolon-space> (final=True on the last chunk)
     E|enc|c1;...;last            ->  same for encode
     R|enc|force|c1;...;last      ->  as D, for the codec table whose hypotheses are proved in Coq (CodecInstances: r_init, r_step, r_shot)
     W|enc|c1;...;cn              ->  StreamWriter: the result of every write (CodecConcrete.c_sw_trace)
     Q|enc|force|c1;...;cn        ->  StreamReader.read() on a stream delivering c1..cn then EOF: the result of every decode call
     V|enc|force|bytes            ->  1 if the input is in the divergent set of CodecBom.divergent_input, else 0
     S|final|bytes                ->  detectencoding_str        : CRASH | NONE x | SOME cps x
     U|final|text                 ->  detectencoding_unicode
     F|final|enc|text             ->  _fixencoding              : NONE | SOME cps
     results: OK cps | ERR name *)
open Codec_model

let rec pos_of_int n = if n = 1 then XH else if n land 1 = 0 then XO (pos_of_int (n lsr 1)) else XI (pos_of_int (n lsr 1))
let n_of_int n = if n = 0 then N0 else Npos (pos_of_int n)
let rec int_of_pos = function XH -> 1 | XO p -> 2 * int_of_pos p | XI p -> 2 * int_of_pos p + 1
let int_of_n = function N0 -> 0 | Npos p -> int_of_pos p
let str_out l = String.concat " " (List.map (fun c -> string_of_int (int_of_n c)) l)
let str_in x = List.map (fun v -> n_of_int (int_of_string v)) (List.filter (fun v -> v <> "") (String.split_on_char ' ' x))
let opt_in x = if String.trim x = "-" then None else Some (str_in x)
let chunks_in x = List.map str_in (String.split_on_char ';' x)
let chunks_in0 x = if String.trim x = "" then [] else chunks_in x
let rec split_last = function [] -> ([], []) | [x] -> ([], x) | x :: r -> let (a, b) = split_last r in (x :: a, b)
let err_name = function EUnicode -> "Unicode" | ELookup -> "Lookup" | EValue -> "Value" | EAttr -> "Attr" | EType -> "Type" | EIndex -> "Index"
let res_out = function Ok o -> "OK " ^ str_out o | Err e -> "ERR " ^ err_name e
let trace_out tr = String.concat " ; " (List.map res_out tr)
let det_out (oe, x) = (match oe with None -> "NONE" | Some e -> "SOME " ^ str_out e) ^ (if x then " T" else " F")

let () =
  try
    while true do
      let line = input_line stdin in
      let out =
        match String.split_on_char '|' line with
        | ["D"; enc; force; cs] ->
          let (chunks, last) = split_last (chunks_in cs) in
          let enc = opt_in enc and force = (force = "1") in
          res_out (c_decode (List.concat chunks @ last) enc force) ^ " # " ^ trace_out (c_dec_trace enc force chunks last)
        | ["R"; enc; force; cs] ->
          let (chunks, last) = split_last (chunks_in cs) in
          let enc = opt_in enc and force = (force = "1") in
          res_out (r_decode (List.concat chunks @ last) enc force) ^ " # " ^ trace_out (r_dec_trace enc force chunks last)
        | ["Q"; enc; force; cs] -> trace_out (c_sr_trace (opt_in enc) (force = "1") (chunks_in0 cs))
        | ["V"; enc; force; b] -> if divergent_input (opt_in enc) (force = "1") (str_in b) then "1" else "0"
        | ["W"; enc; cs] -> trace_out (c_sw_trace (opt_in enc) (chunks_in cs))
        | ["E"; enc; cs] ->
          let (chunks, last) = split_last (chunks_in cs) in
          let enc = opt_in enc in
          res_out (c_encode (List.concat chunks @ last) enc) ^ " # " ^ trace_out (c_enc_trace enc chunks last)
        | ["S"; fin; b] -> (match detectencoding_str (str_in b) (fin = "1") with None -> "CRASH" | Some r -> det_out r)
        | ["U"; fin; t] -> det_out (detectencoding_unicode (str_in t) (fin = "1"))
        | ["F"; fin; enc; t] -> (match fixencoding (str_in t) (str_in enc) (fin = "1") with None -> "NONE" | Some r -> "SOME " ^ str_out r)
        | _ -> "BAD"
      in
      print_endline out
    done
  with End_of_file -> ()
