"""fills DESIGN.md section 9 from seeded/*/meta.json + result.json"""
import json, glob, re
rows = []
for d in sorted(glob.glob('/verif/seeded/C*-*')):
    name = d.split('/')[-1]
    meta = json.load(open(d + '/meta.json'))
    try:
        res = json.load(open(d + '/result.json'))
    except Exception:
        res = {}
    what = (meta.get('title') or meta.get('what_it_breaks') or '')
    what = ' '.join(str(what).split())[:150]
    needs = ' '.join(str(meta.get('needs_to_manifest', '')).split())[:170]
    cells = []
    for tier, r in res.items():
        for p, v in r.items():
            stages = []
            for s in v['stages']:
                k = s.split(':')[0].replace('broken ', '')
                if k == 'violation':
                    k = 'oracle'
                if k not in stages:
                    stages.append(k)
            verdict = 'caught, concrete input' if v['found_input'] else ('tie/proof broken, no input' if v['rc'] else 'missed')
            cells.append('%s: %s (%s)' % (p, verdict, ', '.join(stages) or '-'))
    rows.append('| %s | %s | %s | %s | %s |' % (name, meta.get('confirmed_by_maintainer', {}).get('repo_head', ''), what, needs, '; '.join(cells)))
hdr = ('## 9. Seeded changes and which check catches which\n\n'
       'Each change was written by a fresh sub-agent that saw only the property text and a scratch worktree of /repo (nothing\n'
       'from /verif), passes the 384 pinned tests, and comes with a demo that fails with the change and passes without it; all\n'
       'three facts were re-confirmed by the maintainer (`tools_seed.py validate`, recorded in `seeded/<id>/meta.json`). The last\n'
       'column is the outcome of `./check` with the patch applied to /repo (`tools_seed.py run`, `seeded/<id>/result.json`,\n'
       'replay files beside it); stages: translator / proof / correspondence = the tie or a theorem no longer checks,\n'
       'oracle = the property-level oracle found a failing input on the implementation. "repo head" is the /repo commit the\n'
       'patch was confirmed against (later `fix:` commits may have moved the lines; such patches are marked in §9.1).\n\n'
       '| seed | repo head | change | needs to manifest | outcome per check |\n|---|---|---|---|---|\n')
# stage statistics over the latest recorded run of each seed against the check of its own property
stat = {'seeds': 0, 'caught': 0, 'noinput': 0, 'missed': 0, 'oracle': 0, 'correspondence': 0, 'translator': 0, 'proof': 0}
for d in sorted(glob.glob('/verif/seeded/C*-*')):
    name = d.split('/')[-1]; own = name.split('-')[0]
    try:
        res = json.load(open(d + '/result.json'))
    except Exception:
        continue
    v = None
    for tier in res.values():
        if own in tier:
            v = tier[own]
    if v is None:
        continue
    stat['seeds'] += 1
    stat['caught' if v['found_input'] else ('noinput' if v['rc'] else 'missed')] += 1
    ks = set(s.split(':')[0].replace('broken ', '').replace('violation', 'oracle') for s in v['stages'])
    for k in ('oracle', 'correspondence', 'translator', 'proof'):
        stat[k] += k in ks
summary = ('\nOwn-property outcome over %(seeds)d seeds (latest recorded run): %(caught)d caught with a concrete failing input, '
           '%(noinput)d tie/proof broken without input, %(missed)d missed; stages that fired: oracle %(oracle)d, correspondence '
           '%(correspondence)d, translator %(translator)d, Coq proof %(proof)d.\n' % stat)
body = hdr + '\n'.join(rows) + '\n' + summary
extra = open('/verif/seeded/NOTES.md').read() if __import__('os').path.exists('/verif/seeded/NOTES.md') else ''
s = open('/verif/DESIGN.md').read()
i = s.find('## 9. Seeded changes')
s = s[:i] + body + '\n' + extra
open('/verif/DESIGN.md', 'w').write(s)
print(len(rows), 'rows')
